"""C01 - Problem evaluations are faithful, memoised and recorded in physical space.

A generated OptimizationProblem (mixed float/integer design space with finite, infinite and
equal bounds; polynomial objective / constraints / observables with exact dense or sparse
Jacobians and call logs) is preprocessed under a generated configuration and driven by a
generated history of evaluate / jac / evaluate_functions requests over a small pool of
points.  A numpy reference model (vlib.gen.problems.SpaceModel / PolyFunction plus the
ordered record list below) runs in lock-step: after every request the returned value and
Jacobian, the calls received by the user's callables and the whole content of
problem.database are compared with the model.
"""

from __future__ import annotations

import logging
import warnings

import numpy as np
from hypothesis import strategies as st

from vlib.gen.problems import PolyFunction
from vlib.gen.problems import SpaceModel
from vlib.gen.problems import as_dense
from vlib.gen.problems import build_design_space
from vlib.gen.problems import function_specs
from vlib.gen.problems import point_specs
from vlib.gen.problems import space_dimension
from vlib.gen.problems import space_specs

logging.getLogger("gemseo").setLevel(logging.ERROR)

PROPERTY = "C01"
LEVEL = "exploration"
RULE = (
    "Hypothesis draws a design space (1-3 variables of size 1-3, float/integer, per-component bounds both finite / "
    "equal / one-sided / absent, dyadic bounds with widths incl. 3, 5, 0.75, optional integer normalisation, optional "
    "current values), 1-4 polynomial functions (objective, 0-2 constraints, 0-1 observable; quadratic / affine "
    "MDOFunction or MDOLinearFunction, output dim 1-3, dense or csr Jacobian, float or array scalars), a preprocessing "
    "configuration (normalised inputs, database, Jacobian storage, integer rounding, sparse support, user / "
    "finite_differences / centered_differences / complex_step derivatives), a pool of 1-4 points and a history of 1-15 "
    "requests (function.evaluate, function.jac, evaluate_functions with normalised or physical vector, outputs and/or "
    "Jacobians, all functions or a subset); one history in three continues with a second phase on the same database "
    "(reset(database=False, preprocessing=True) or a new problem created with database=<the database>, then "
    "preprocess_functions with redrawn normalisation / Jacobian storage / sparse support, and 1-8 more requests).  "
    "After every request the results, the call logs of the user's callables "
    "and the database are compared with a numpy reference.  Non-trivial = the history repeats a (point, function) "
    "pair with the database on, contains a Jacobian request, and the space has a component really rescaled by the "
    "normalisation (finite bounds, lb!=ub, lb!=0 or ub-lb!=1) with normalised inputs; distinct = structural hash of "
    "the whole payload."
)
ASSUMPTIONS = [
    "integer components may be given non-integral values inside their bounds whatever round_ints is (exact ties x.5 "
    "never): with round_ints=True they are rounded, round_ints=False exists to evaluate the functions at relaxed values "
    "(check_membership of an array only checks the bounds, drivers forward round_ints unchanged), so with physical "
    "inputs and rounding off the physical point is the caller's point itself",
    "with normalised inputs the physical point is the image by DesignSpace.unnormalize_vect, which rounds the integer "
    "components whatever round_ints is (the generic wrapper and the database key both use it); this is taken as the "
    "definition of the normalised -> physical map, not asserted as right or wrong for round_ints=False",
    "normalised coordinates lie in [0,1], physical ones inside the bounds; -0.0 is never a coordinate",
    "approximated derivatives (finite/centered differences, complex step) are only generated on all-float spaces; the "
    "design space gets initialize_missing_current_values() and to_complex() before complex_step, as the drivers do",
    "the Jacobian returned by evaluate_functions for preprocessed functions is compared in the coordinates these "
    "functions expect (not in those of design_vector_is_normalized): the property text is ambiguous there and every "
    "in-tree caller that consumes such Jacobians asks for the original functions",
    "when gemseo handles points as int64 (all variables integer with current values) or complex128 (complex_step) "
    "and the functions take physical inputs, evaluate_functions(design_vector_is_normalized=True) is not generated "
    "(it would key the byte-hashed database with another dtype than direct calls with float arrays)",
    "user derivatives: exact comparison up to 16 ulp per entry (the only inexact operations are the products by "
    "ub-lb and 1/(ub-lb)); approximated derivatives: analytic truncation bound of one-sided differences "
    "(h/2 * max|f''|) plus 16*eps*|f|/h round-off, times 4; linear functions normalised by MDOLinearFunction.normalize "
    "are compared to 64 ulp of the sum of the absolute terms",
    "a Jacobian found in the database is served from it whatever store_jacobian is (the option only controls storing: "
    "ProblemFunction looks the database up unconditionally); a record served in another phase is compared with the "
    "physical-space record made by the first phase (zero on lb==ub components when made with normalised inputs) "
    "mapped to the coordinates of the serving phase; round_ints, the differentiation method and use_database are "
    "the same in both phases",
    "call-log assertions are not applied to MDOLinearFunction on the normalize() fast path (the problem evaluates an "
    "internal normalised copy, the user's object is never called)",
]

FD_STEP = 1e-7
EPS = float(np.finfo(float).eps)

# ledger predicates (classes excluded while an open entry names them)
K_ROUND_KEY = "unnormalized_rounding_keys_unrounded_point"
K_SPARSE_NAN = "sparse_jacobian_unnormalized_database_isnan"
K_CENTERED_EQUAL = "centered_differences_equal_bounds_nan"
K_FAST_LINEAR = "linear_fast_path_unrounded_value_under_rounded_key"


# --------------------------------------------------------------------------- strategy
@st.composite
def histories(draw):
    diff = draw(st.sampled_from(["user"] * 7 + ["finite_differences", "centered_differences", "complex_step"]))
    space = draw(space_specs(allow_integer=diff == "user"))
    n_in = space_dimension(space)
    roles = ["obj"] + draw(st.lists(st.sampled_from(["ineq", "eq"]), max_size=2)) + draw(st.lists(st.just("obs"), max_size=1))
    functions = []
    for k, role in enumerate(roles):
        name = {"obj": "f", "ineq": f"g{k}", "eq": f"h{k}", "obs": f"o{k}"}[role]
        functions.append({"role": role, "spec": draw(function_specs(n_in, name))})
    config = {
        "norm": draw(st.sampled_from([True, True, True, False, False])),
        "use_db": draw(st.integers(0, 6)) > 0,
        "store_jac": draw(st.integers(0, 4)) > 0,
        "round_ints": draw(st.sampled_from([True, True, False])),
        "sparse": draw(st.booleans()),
        "diff": diff,
    }
    n_pts = draw(st.integers(1, 4))
    points = [draw(point_specs(space)) for _ in range(n_pts)]
    request = st.fixed_dictionaries({
        "op": st.sampled_from(["evaluate", "jac", "evaluate", "jac", "evaluate_functions"]),
        "fn": st.integers(0, 7),
        "pt": st.integers(0, 7),
        "as_norm": st.booleans(),
        "want": st.sampled_from(["out", "jac", "both"]),
        "all": st.booleans(),
    })
    requests = draw(st.lists(request, min_size=1, max_size=15))
    second = None
    if draw(st.integers(0, 2)) == 0:
        # second phase on the same database: the functions are pre-processed again with other settings, either
        # after reset(database=False, preprocessing=True) or in a new problem created with database=<the database>
        second = {
            "mode": draw(st.sampled_from(["reset", "new_problem"])),
            "norm": draw(st.sampled_from([True, True, False])),
            "store_jac": draw(st.integers(0, 2)) == 0,
            "sparse": draw(st.booleans()),
            "requests": draw(st.lists(request, min_size=1, max_size=8)),
        }
    return {"space": space, "functions": functions, "config": config, "points": points, "requests": requests, "second": second}


# --------------------------------------------------------------------------- helpers
def _real_vector(arr, dim, ctx, what):
    """A (dim,) real float vector out of a database key / logged argument (imaginary part must vanish for keys)."""
    a = np.asarray(arr)
    ctx.check(a.shape == (dim,), "database", f"{what} has shape {a.shape}, expected ({dim},)")
    return a


def _close(got, exp, tol):
    got, exp = np.asarray(got), np.asarray(exp)
    return got.shape == exp.shape and bool(np.all(np.abs(got - exp) <= tol))


class Model:
    """Reference model of the preprocessed problem: entrance maps, expected results, ordered records."""

    def __init__(self, p, ctx):
        self.ctx = ctx
        self.cfg = dict(p["config"])  # a copy: the second phase updates it
        self.space = SpaceModel(p["space"])
        self.polys = [PolyFunction(f["spec"], self.space.dim) for f in p["functions"]]
        self.round_effective = bool(self.cfg["round_ints"] and self.space.has_integer)
        self.user_diff = self.cfg["diff"] == "user"
        self.records: list[dict] = []  # {"key": ndarray, "entries": {name: {...}}} in insertion order

    # ----- entrance: from the vector a function receives to the physical point
    def physical(self, fn_input):
        if self.cfg["norm"]:
            return self.space.to_phys(fn_input, round_ints=True)  # unnormalize_vect rounds integer components
        x = np.asarray(fn_input, dtype=float)
        return self.space.round(x) if self.round_effective else x.copy()

    def fn_input_from_vector(self, vector, as_norm):
        """What evaluate_functions hands to functions expecting (cfg.norm) coordinates."""
        if as_norm and not self.cfg["norm"]:
            return self.space.to_phys(vector, round_ints=True)
        if not as_norm and self.cfg["norm"]:
            return self.space.to_norm(vector)
        return np.asarray(vector, dtype=float)

    def fast_linear(self, poly) -> bool:
        return poly.is_mdo_linear and self.cfg["norm"] and not self.round_effective

    def find(self, key):
        for rec in self.records:
            if np.array_equal(rec["key"], key):
                return rec
        return None

    def record(self, key):
        rec = self.find(key)
        if rec is None:
            rec = {"key": key.copy(), "entries": {}}
            self.records.append(rec)
        return rec

    # ----- expected results
    def expected_value(self, poly, phys):
        return poly.value(phys)

    def value_tol(self, poly, phys):
        if self.fast_linear(poly):
            extra = np.where(np.isfinite(self.space.lb), np.abs(self.space.lb), 0.0) + np.where(np.isfinite(self.space.ub), np.abs(self.space.ub), 0.0)
            return 64 * EPS * (1.0 + poly.magnitude(phys, extra))
        return 0.0  # same callable at the same point: bit-identical

    def expected_jacobians(self, poly, phys):
        """(returned in the caller's coordinates, recorded in physical space)."""
        jac = poly.jacobian(phys)
        if not self.cfg["norm"]:
            return jac, jac
        recorded = jac.copy()
        recorded[:, self.space.equal] = 0.0  # lb == ub: inert normalised coordinate, zero recorded derivative
        return jac * self.space.scale(), recorded

    def jac_tols(self, poly, phys, exp_ret, exp_rec):
        """Elementwise tolerances for (returned, recorded)."""
        if self.user_diff:
            return 16 * EPS * np.abs(exp_ret), 16 * EPS * np.abs(exp_rec)
        scale = self.space.scale() if self.cfg["norm"] else np.ones(self.space.dim)
        h = FD_STEP
        fmag = 1.0 + poly.magnitude(np.abs(phys) + 1e-5 * np.maximum(scale, 1.0))
        trunc = 0.5 * h * poly.second_derivative_bound() * scale**2
        tol_ret = 4.0 * (trunc + 16 * EPS * fmag / h) + 16 * EPS * np.abs(exp_ret)
        tol_ret = np.broadcast_to(tol_ret, exp_ret.shape)
        inv = np.where(scale == 0.0, 0.0, 1.0 / np.where(scale == 0.0, 1.0, scale))
        tol_rec = tol_ret * inv + 16 * EPS * np.abs(exp_rec)
        return tol_ret, tol_rec


# --------------------------------------------------------------------------- the case
def case_history(p, ctx):
    with warnings.catch_warnings():
        warnings.simplefilter("ignore")  # numpy RuntimeWarning on infinite integer bounds, ComplexWarning, ...
        _case_history(p, ctx)


def _case_history(p, ctx):
    from gemseo.algos.optimization_problem import OptimizationProblem

    model = Model(p, ctx)
    cfg, space, polys = model.cfg, model.space, model.polys
    dim = space.dim
    n_fn = len(polys)

    # ----- known findings: exclusion by construction
    second = p.get("second")
    allow_frac = space.has_integer
    physical_phase = not cfg["norm"] or (second is not None and not second["norm"])
    if model.round_effective and physical_phase and cfg["use_db"] and ctx.known(K_ROUND_KEY, count=False):
        used = {r["pt"] % len(p["points"]) for r in p["requests"] + (second["requests"] if second else [])}
        if any(not np.array_equal(space.realise(p["points"][i], True)[1], space.realise(p["points"][i], False)[1]) for i in used):
            ctx.known(K_ROUND_KEY)  # counted: the non-integral integer coordinates of this case are made integral
        allow_frac = False
    pts = [space.realise(pt, allow_frac) for pt in p["points"]]

    # ----- the real problem
    S = {"problem": None, "fns": None}

    def preprocess(problem):
        problem.preprocess_functions(
            is_function_input_normalized=cfg["norm"], use_database=cfg["use_db"], round_ints=cfg["round_ints"],
            support_sparse_jacobian=cfg["sparse"], store_jacobian=cfg["store_jac"],
        )
        by_name = {fn.name: fn for fn in [problem.objective, *problem.constraints, *problem.observables]}
        ctx.check(set(by_name) == {q.name for q in polys}, "setup", f"function names {sorted(by_name)} differ from the generated ones")
        S["problem"], S["fns"] = problem, [by_name[q.name] for q in polys]
        for fn in S["fns"]:
            ctx.check(bool(fn.expects_normalized_inputs) == bool(cfg["norm"]), "setup",
                      f"{fn.name}.expects_normalized_inputs={fn.expects_normalized_inputs} after preprocess_functions(is_function_input_normalized={cfg['norm']})")
        for q in polys:
            q.log.clear()  # MDOLinearFunction.normalize evaluates the function once while preprocessing

    def new_problem(database=None):
        ds = build_design_space(p["space"])
        problem = OptimizationProblem(ds, database=database, differentiation_method=cfg["diff"], differentiation_step=FD_STEP)
        if cfg["diff"] == "complex_step":
            # what BaseOptimizationLibrary does before using complex_step (the cast only acts through the current values)
            ds.initialize_missing_current_values()
            ds.to_complex()
        for f, poly in zip(p["functions"], polys):
            g = poly.to_gemseo()
            if f["role"] == "obj":
                problem.objective = g
            elif f["role"] == "obs":
                problem.add_observable(g, new_iter=False)
            else:
                problem.add_constraint(g, constraint_type=f["role"])
        preprocess(problem)

    new_problem()

    odd_dtype = (space.common_dtype_kind() == "i") or cfg["diff"] == "complex_step"
    stats = {"hits": 0, "jac_requests": 0, "repeat": False, "jac_before_value": False, "skipped": 0}
    seen_pairs = set()

    # ----- one function request, real side and model side in lock-step
    def excluded(poly, kind, fn_input):
        """Requests in the class of an open known finding (skipped, counted)."""
        if kind == "f" and model.fast_linear(poly) and space.has_integer:
            affine = space.to_phys(fn_input, round_ints=False)
            if bool(np.any(np.abs(affine - space.round(affine)) > 1e-9)):
                ctx.cls("class_linear_fast_path_at_non_integral_integer_coordinate")
                if ctx.known(K_FAST_LINEAR):
                    return True
        if kind != "j":
            return False
        if (model.user_diff and not cfg["norm"] and cfg["use_db"] and cfg["sparse"] and poly.sparse):
            ctx.cls("class_sparse_jacobian_unnormalised_database")
            if ctx.known(K_SPARSE_NAN):
                return True
        if cfg["diff"] == "centered_differences" and space.has_equal_bounds:
            ctx.cls("class_centered_differences_equal_bounds")
        return False

    def compare_columns(poly, exp_ret):
        """Columns of the Jacobians that are compared: all (classification of the former defect P1 only)."""
        if cfg["norm"] and space.has_integer:
            int_cols = space.is_int
            if bool(np.any(exp_ret[:, int_cols] != np.round(exp_ret[:, int_cols]))):
                ctx.cls("class_nonintegral_derivative_wrt_integer_component_normalised")
        return np.ones(dim, dtype=bool)

    def check_calls(poly, kind, phys, new, hit):
        if model.fast_linear(poly):
            return
        label = "value" if kind == "f" else "Jacobian"
        if hit:
            ctx.check(not new, "memoisation",
                      f"{poly.name}: {label} at a recorded point was requested again and the user's callables were called {len(new)} more time(s)",
                      point=phys, calls=[c[0] for c in new])
            return
        if kind == "f" or model.user_diff:
            ctx.check(len(new) == 1 and new[0][0] == kind, "calls",
                      f"{poly.name}: one call of the user's {label} callable expected, got {[c[0] for c in new]}", point=phys)
            arg = np.asarray(new[0][1])
            ctx.check(arg.shape == (dim,) and np.array_equal(arg.real, phys) and not np.any(arg.imag), "faithful_point",
                      f"{poly.name}: the user's {label} callable was called at {arg.tolist()!r}, the physical point is {phys.tolist()!r}")
        else:
            ctx.check(all(c[0] == "f" for c in new), "calls", f"{poly.name}: the user's Jacobian callable was called although derivatives are approximated")
            scale = np.maximum(space.scale(), 1.0) if cfg["norm"] else np.ones(dim)
            for _, arg in new:
                arg = np.asarray(arg)
                ctx.check(arg.shape == (dim,) and bool(np.all(np.abs(arg.real - phys) <= 4 * FD_STEP * scale * (1 + np.abs(phys)))), "faithful_point",
                          f"{poly.name}: perturbed evaluation at {arg.tolist()!r} is not a neighbour of the physical point {phys.tolist()!r}")

    def after_value(i, fn_input, got, new_calls):
        poly = polys[i]
        phys = model.physical(fn_input)
        exp = model.expected_value(poly, phys)
        arr = np.asarray(got)
        ctx.check(arr.size == poly.dim and arr.ndim <= 1, "faithful_value", f"{poly.name}: returned value has shape {arr.shape}, dim is {poly.dim}")
        arr = arr.reshape(poly.dim)
        rec = model.find(phys) if cfg["use_db"] else None
        hit = rec is not None and poly.name in rec["entries"]
        tol = model.value_tol(poly, phys)
        if hit:  # served as recorded, possibly by a phase that computed it through MDOLinearFunction.normalize
            tol = max(tol, rec["entries"][poly.name]["tol"])
        ctx.check(not np.any(arr.imag) and _close(arr.real, exp, tol), "faithful_value",
                  f"{poly.name}: returned {arr.tolist()!r}, the user's function at the physical point {phys.tolist()!r} gives {exp.tolist()!r}",
                  fn_input=fn_input)
        check_calls(poly, "f", phys, new_calls, hit)
        if hit:
            stats["hits"] += 1
            first = rec["entries"][poly.name]["value"]
            ctx.check(np.array_equal(arr, first), "memoisation", f"{poly.name}: served {arr.tolist()!r} from the database, the first evaluation returned {first.tolist()!r}")
        elif cfg["use_db"]:
            model.record(phys)["entries"][poly.name] = {"value": arr.copy(), "tol": tol}
        pair = (poly.name, phys.tobytes())
        stats["repeat"] |= cfg["use_db"] and pair in seen_pairs
        seen_pairs.add(pair)
        seen_pairs.add(("value", *pair))

    def after_jac(i, fn_input, got, new_calls):
        poly = polys[i]
        stats["jac_requests"] += 1
        phys = model.physical(fn_input)
        exp_ret, exp_rec = model.expected_jacobians(poly, phys)
        if cfg["diff"] == "centered_differences" and space.has_equal_bounds:
            # a component whose bounds coincide cannot be perturbed inside its bounds: both centred perturbations
            # vanish and the approximated (and recorded) derivative w.r.t. it is zero (former defect C01-F4: NaN)
            exp_ret, exp_rec = exp_ret.copy(), exp_rec.copy()
            exp_ret[:, space.equal] = 0.0
            exp_rec[:, space.equal] = 0.0
        tol_ret, tol_rec = model.jac_tols(poly, phys, exp_ret, exp_rec)
        rec = model.find(phys) if cfg["use_db"] else None
        hit = rec is not None and ("@" + poly.name) in rec["entries"]
        if hit:
            # served from the record, whichever phase made it: physical-space record (zero on lb==ub components when
            # it was made with normalised inputs) mapped to the coordinates of the current phase
            entry = rec["entries"]["@" + poly.name]
            scale_now = space.scale() if cfg["norm"] else np.ones(dim)
            exp_ret = entry["exp"] * scale_now
            tol_ret = np.maximum(entry["tol"] * scale_now, 16 * EPS * np.abs(exp_ret))
        cols = compare_columns(poly, exp_ret)
        dense = as_dense(got)
        ctx.check(dense.size == poly.dim * dim, "jacobian_coordinates", f"{poly.name}: returned Jacobian has shape {dense.shape}, expected {poly.dim}x{dim}")
        dense = dense.reshape(poly.dim, dim)
        bad = ~(np.abs(dense - exp_ret) <= tol_ret) & cols
        ctx.check(not bad.any() and not np.any(dense.imag), "jacobian_coordinates",
                  f"{poly.name}: returned Jacobian {dense.tolist()!r} w.r.t. the {'normalised' if cfg['norm'] else 'physical'} coordinates, "
                  f"expected {exp_ret.tolist()!r} at the physical point {phys.tolist()!r} (scale {space.scale().tolist() if cfg['norm'] else 1})"
                  + (" [served from the database]" if hit else ""),
                  components=[space.comp_names[c] for c in np.nonzero(bad.any(axis=0))[0]])
        check_calls(poly, "j", phys, new_calls, hit)
        if hit:
            stats["hits"] += 1
            if not cfg["store_jac"]:
                stats["hit_with_storage_off"] = True
            if entry["norm"] == bool(cfg["norm"]):
                first = entry["returned"]
                tol_same = 0.0 if not cfg["norm"] else 16 * EPS * np.abs(first)
                same = (np.abs(dense - first) <= tol_same) | ~cols
                ctx.check(bool(same.all()), "memoisation",
                          f"{poly.name}: Jacobian served from the database {dense.tolist()!r} differs from the first result {first.tolist()!r}")
        elif cfg["use_db"] and cfg["store_jac"]:
            model.record(phys)["entries"]["@" + poly.name] = {"returned": dense.copy(), "exp": exp_rec, "tol": tol_rec, "cols": cols, "norm": bool(cfg["norm"])}
        pair = (poly.name, phys.tobytes())
        if ("value", *pair) not in seen_pairs:
            stats["jac_before_value"] = True
        stats["repeat"] |= cfg["use_db"] and ("jac", *pair) in seen_pairs
        seen_pairs.add(("jac", *pair))

    def check_database():
        items = list(S["problem"].database.items())
        if not cfg["use_db"]:
            ctx.check(not items, "database", f"use_database=False but the database holds {len(items)} entries")
            return
        keys = []
        for k, _ in items:
            a = _real_vector(k.wrapped_array, dim, ctx, "database key")
            ctx.check(not np.any(a.imag), "database", f"database key {a.tolist()!r} has an imaginary part")
            keys.append(np.asarray(a.real, dtype=float))
        exp_keys = [rec["key"] for rec in model.records]
        ctx.check(len(keys) == len(exp_keys) and all(np.array_equal(a, b) for a, b in zip(keys, exp_keys)), "database_keys",
                  f"database keys {[k.tolist() for k in keys]!r}, the physical points evaluated so far are {[k.tolist() for k in exp_keys]!r} (in this order)")
        for (k, outputs), rec in zip(items, model.records):
            ctx.check(set(outputs) == set(rec["entries"]), "database_entries",
                      f"entry at {rec['key'].tolist()!r} holds {sorted(outputs)}, expected {sorted(rec['entries'])}")
            for name, exp in rec["entries"].items():
                got = outputs[name]
                if name.startswith("@"):
                    q = next(q for q in polys if q.name == name[1:])
                    dense = as_dense(got)
                    ctx.check(dense.size == q.dim * dim, "database_jacobian", f"{name} at {rec['key'].tolist()!r} has shape {dense.shape}")
                    dense = dense.reshape(q.dim, dim)
                    bad = ~(np.abs(dense - exp["exp"]) <= exp["tol"]) & exp["cols"]
                    ctx.check(not bad.any() and not np.any(dense.imag), "database_jacobian",
                              f"{name} recorded at {rec['key'].tolist()!r} is {dense.tolist()!r}, the physical-space Jacobian is {exp['exp'].tolist()!r}",
                              components=[space.comp_names[c] for c in np.nonzero(bad.any(axis=0))[0]])
                else:
                    arr, val = np.asarray(got), exp["value"]
                    ctx.check(arr.size == val.size and np.array_equal(arr.reshape(val.shape), val), "database_value",
                              f"{name} recorded at {rec['key'].tolist()!r} is {arr.tolist()!r}, the value returned was {val.tolist()!r}")

    # ----- the history
    def run_request(r):
        xn, x = pts[r["pt"] % len(pts)]
        if r["op"] in ("evaluate", "jac"):
            i = r["fn"] % n_fn
            kind = "f" if r["op"] == "evaluate" else "j"
            fn_input = (xn if cfg["norm"] else x).copy()
            if excluded(polys[i], kind, fn_input):
                stats["skipped"] += 1
                return
            before = len(polys[i].log)
            others = [len(q.log) for q in polys]
            if kind == "f":
                got = S["fns"][i].evaluate(fn_input.copy())
                after_value(i, fn_input, got, polys[i].log[before:])
            else:
                got = S["fns"][i].jac(fn_input.copy())
                after_jac(i, fn_input, got, polys[i].log[before:])
            for j, q in enumerate(polys):
                ctx.check(j == i or len(q.log) == others[j], "calls", f"a request on {polys[i].name} called the callables of {q.name}")
            ctx.cls("request_" + r["op"])
        else:
            as_norm = bool(r["as_norm"]) and not (odd_dtype and not cfg["norm"])
            sel = list(range(n_fn)) if r["all"] else sorted({r["fn"] % n_fn, (r["fn"] // 2) % n_fn})
            want_out = r["want"] in ("out", "both")
            want_jac = r["want"] in ("jac", "both")
            vector = (xn if as_norm else x).copy()
            fn_input = model.fn_input_from_vector(vector, as_norm)
            if (want_jac and any(excluded(polys[i], "j", fn_input) for i in sel)) or (want_out and any(excluded(polys[i], "f", fn_input) for i in sel)):
                stats["skipped"] += 1
                return
            fn_list = () if r["all"] else [S["fns"][i] for i in sel]
            before = [len(q.log) for q in polys]
            outs, jacs = S["problem"].evaluate_functions(
                vector.copy(), design_vector_is_normalized=as_norm,
                output_functions=fn_list if want_out else None, jacobian_functions=fn_list if want_jac else None,
            )
            names = [polys[i].name for i in sel]
            ctx.check(list(outs) == (names if want_out else []), "evaluate_functions", f"outputs returned for {list(outs)}, requested {names if want_out else []}")
            ctx.check(list(jacs) == (names if want_jac else []), "evaluate_functions", f"Jacobians returned for {list(jacs)}, requested {names if want_jac else []}")
            # the model replays the documented order: all outputs, then all Jacobians
            new = {i: polys[i].log[before[i]:] for i in sel}
            used = dict.fromkeys(sel, 0)
            if want_out:
                for i in sel:
                    n_val = _n_value_calls(model, polys[i], fn_input) if want_jac else len(new[i])
                    after_value(i, fn_input, outs[polys[i].name], new[i][:n_val])
                    used[i] = n_val
            if want_jac:
                for i in sel:
                    after_jac(i, fn_input, jacs[polys[i].name], new[i][used[i]:])
            for j, q in enumerate(polys):
                ctx.check(j in sel or len(q.log) == before[j], "calls", f"evaluate_functions on {names} called the callables of {q.name}")
            ctx.cls("request_evaluate_functions_" + ("normalised" if as_norm else "physical") + "_vector")
            if as_norm != bool(cfg["norm"]) and want_jac:
                ctx.cls("evaluate_functions_jacobian_in_other_coordinates_than_the_vector")
        check_database()

    for r in p["requests"]:
        run_request(r)

    if second is not None:
        first_cfg = dict(cfg)
        # the model follows; points handled as int64 / complex128 keep their coordinates (byte-hashed keys, see ASSUMPTIONS)
        cfg.update(norm=cfg["norm"] if odd_dtype else second["norm"], store_jac=second["store_jac"], sparse=second["sparse"])
        if second["mode"] == "reset":
            S["problem"].reset(database=False, design_space=False, preprocessing=True)
            preprocess(S["problem"])
        else:
            new_problem(database=S["problem"].database)
        check_database()  # pre-processing again must leave the records untouched
        for r in second["requests"]:
            run_request(r)
        ctx.cls("second_phase_" + second["mode"])
        if first_cfg["store_jac"] and not cfg["store_jac"] and cfg["use_db"]:
            ctx.cls("second_phase_switches_jacobian_storage_off")
        if first_cfg["norm"] != cfg["norm"]:
            ctx.cls("second_phase_switches_coordinates")
        if stats.get("hit_with_storage_off"):
            ctx.cls("jacobian_served_from_database_with_storage_off")

    # ----- classification
    rescaled = bool((cfg["norm"] or p["config"]["norm"]) and space.rescaled.any())  # in either phase
    if stats["repeat"] and stats["jac_requests"] and rescaled:
        ctx.nontriv(p)
        ctx.cls("nontrivial")
    ctx.cls("config_" + ("normalised" if cfg["norm"] else "physical") + ("_db" if cfg["use_db"] else "_nodb"))
    ctx.cls("diff_" + cfg["diff"])
    if stats["jac_before_value"]:
        ctx.cls("jacobian_before_value_at_a_point")
    if stats["hits"]:
        ctx.cls("history_with_database_hit")
    if space.has_equal_bounds:
        ctx.cls("space_with_equal_bounds_component")
    if space.has_integer:
        ctx.cls("space_with_integer_variable")
        if model.round_effective:
            ctx.cls("integer_rounding_on")
        if allow_frac:
            ctx.cls("non_integral_integer_coordinates")
    if p["space"]["int_norm"] and space.has_integer:
        ctx.cls("integer_normalisation_enabled")
    if not np.isfinite(space.lb).all() or not np.isfinite(space.ub).all():
        ctx.cls("space_with_infinite_bound")
    if rescaled:
        ctx.cls("space_with_rescaled_component")
    if any(q.sparse for q in polys):
        ctx.cls("sparse_jacobian" + ("_supported" if cfg["sparse"] else "_densified"))
    if any(model.fast_linear(q) for q in polys):
        ctx.cls("linear_function_normalize_fast_path")
    if not cfg["store_jac"] and cfg["use_db"]:
        ctx.cls("jacobian_storage_off")
    if space.common_dtype_kind() == "i":
        ctx.cls("all_integer_space_int64_points")
    ctx.extra["max_database_hits_in_a_history"] = max(ctx.extra.get("max_database_hits_in_a_history", 0), stats["hits"])
    ctx.sample({"config": p["config"], "second": {k: v for k, v in second.items() if k != "requests"} if second else None, "space": p["space"], "functions": [f["spec"]["kind"] + ":" + f["role"] for f in p["functions"]],
                "n_points": len(p["points"]), "requests": [[r["op"], r["fn"], r["pt"]] for r in p["requests"]]})


def _n_value_calls(model, poly, fn_input) -> int:
    """Number of calls the user's value callable receives for one value request (0 on a hit / fast path)."""
    if model.fast_linear(poly):
        return 0
    if not model.cfg["use_db"]:
        return 1
    rec = model.find(model.physical(fn_input))
    return 0 if (rec is not None and poly.name in rec["entries"]) else 1


ORACLES = {"history": case_history}


def run(ctx):
    ctx.drive("history", histories(), case_history, quick=1500, thorough=12000)
