"""C02 - Design-space views stay consistent; normalisation is an exact bijection.

A drawn list of operations (mutations interleaved with cache-filling queries) is applied to a
real DesignSpace and to a list-of-records model.  Queries are *drawn* (not run after every
step) so that every cache state between two mutations is reachable; a full sweep of all
queries runs at the end of the history.
"""

from __future__ import annotations

import copy
import logging
import math
import warnings

import numpy as np
from hypothesis import strategies as st

logging.getLogger("gemseo").setLevel(logging.ERROR)
warnings.filterwarnings("ignore", category=RuntimeWarning)

PROPERTY = "C02"
LEVEL = "exploration"
RULE = (
    "Hypothesis draws an initial design space (0-3 variables: multi-character names, sizes 1-3, float/integer, "
    "per-component bounds finite/equal/half-infinite/infinite, optional current value) and a list of 1-25 operations: "
    "mutations (add/remove/rename/filter/filter_dimensions/extend/add_variables_from/set bounds/set current value/"
    "initialize missing values/toggle integer normalisation/deepcopy) interleaved with queries that fill caches "
    "(normalize/unnormalize vectors and batches, gradients, get_current_value in 4 forms, bounds, check_membership "
    "array/dict inside and outside, project_into_bounds, indexes, to_scalar_variables, ==); a list-of-records model "
    "predicts every view. Non-trivial = a mutation executed after a cache-filling query and followed by another "
    "query on a space with a rescaled component; distinct = structural hash of the operation list."
)
ASSUMPTIONS = [
    "bounds satisfy lb <= ub, integer variables have integer bounds and integral values, values lie inside bounds",
    "rename_variable targets an unused name; either 'keeps its position' or 'moves to the end' is accepted as long as every view follows the same order",
    "float comparisons: normalisation 8 ulp of max(1,|u|); round trip 16 ulp of (|lb|+|ub|+|x|+1)",
    "histories are bounded to 25 operations; complex-valued current values are not generated",
]

NAMES = ["x", "y", "z", "xy", "yb", "zz", "x_1", "ab", "a", "long_name", "w", "vv"]
EPS = float(np.finfo(float).eps)
INF = math.inf

# --------------------------------------------------------------------------- strategies
_frac = st.sampled_from([0.0, 1.0, 0.5, 0.25, 0.75, 0.125, 0.3, 0.9, 1 / 3])
_fracs = st.lists(_frac, min_size=12, max_size=12)
_gvals = st.lists(st.sampled_from([0.4, -1.5, 2.0, 0.25, 3.7, -0.6, 1.0, 0.0]), min_size=12, max_size=12)


def _bound():
    return st.fixed_dictionaries({
        "kind": st.sampled_from(["both", "both", "both", "eq", "lb", "ub", "none"]),
        "a": st.sampled_from([-8, -3, -1, 0, 0, 1, 2, 5]),
        "w": st.sampled_from([1, 2, 3, 4, 7, 10, 1000]),
        "half": st.booleans(),
    })


def _var():
    return st.fixed_dictionaries({
        "name": st.integers(0, len(NAMES) - 1),
        "size": st.integers(1, 3),
        "type": st.sampled_from(["float", "float", "integer"]),
        "bounds": st.lists(_bound(), min_size=3, max_size=3),
        "value": st.one_of(st.none(), st.lists(_frac, min_size=3, max_size=3), st.lists(_frac, min_size=3, max_size=3)),
    })


def _op():
    i = st.integers(0, 11)
    return st.one_of(
        # ---- mutations
        st.fixed_dictionaries({"op": st.just("add"), "var": _var()}),
        st.fixed_dictionaries({"op": st.just("add_dup"), "var": i}),
        st.fixed_dictionaries({"op": st.just("add_bad_value"), "var": _var(), "how": st.sampled_from(["array", "extend", "add_variables_from"])}),
        st.fixed_dictionaries({"op": st.just("remove"), "var": i}),
        st.fixed_dictionaries({"op": st.just("rename"), "var": i, "new": i}),
        st.fixed_dictionaries({"op": st.just("rename"), "var": i, "new": i}),
        st.fixed_dictionaries({"op": st.just("filter_dimensions"), "var": i, "keep": st.lists(st.booleans(), min_size=3, max_size=3)}),
        st.fixed_dictionaries({"op": st.just("filter"), "keep": st.lists(st.booleans(), min_size=6, max_size=6), "copy": st.booleans()}),
        st.fixed_dictionaries({"op": st.just("filter_dimensions"), "var": i, "keep": st.lists(st.booleans(), min_size=3, max_size=3)}),
        st.fixed_dictionaries({"op": st.just("extend"), "vars": st.lists(_var(), min_size=1, max_size=2), "how": st.sampled_from(["extend", "add_variables_from"])}),
        st.fixed_dictionaries({"op": st.just("set_lower_bound"), "var": i, "bounds": st.lists(_bound(), min_size=3, max_size=3)}),
        st.fixed_dictionaries({"op": st.just("set_upper_bound"), "var": i, "bounds": st.lists(_bound(), min_size=3, max_size=3)}),
        st.fixed_dictionaries({"op": st.just("set_current_value"), "t": _fracs, "as": st.sampled_from(["array", "dict"])}),
        st.fixed_dictionaries({"op": st.just("set_current_variable"), "var": i, "t": _fracs}),
        st.fixed_dictionaries({"op": st.just("init_missing")}),
        st.fixed_dictionaries({"op": st.just("toggle_int_norm")}),
        st.fixed_dictionaries({"op": st.just("deepcopy")}),
        # ---- queries (cache-filling)
        st.fixed_dictionaries({"op": st.just("q_normalize"), "t": _fracs, "batch": st.integers(0, 3)}),
        st.fixed_dictionaries({"op": st.just("q_grad"), "g": _gvals, "rows": st.integers(0, 2)}),
        st.fixed_dictionaries({"op": st.just("q_current"), "normalize": st.booleans(), "as_dict": st.booleans()}),
        st.fixed_dictionaries({"op": st.just("q_bounds")}),
        st.fixed_dictionaries({"op": st.just("q_membership"), "t": _fracs, "out": st.one_of(st.none(), i), "side": st.sampled_from(["lb", "ub"]), "form": st.sampled_from(["array", "dict"])}),
        st.fixed_dictionaries({"op": st.just("q_project"), "t": _fracs, "push": st.lists(st.sampled_from([-1, 0, 0, 1]), min_size=12, max_size=12)}),
        st.fixed_dictionaries({"op": st.just("q_indexes"), "keep": st.lists(st.booleans(), min_size=6, max_size=6)}),
        st.fixed_dictionaries({"op": st.just("q_scalar")}),
        st.fixed_dictionaries({"op": st.just("q_eq")}),
    )


@st.composite
def histories(draw):
    return {"init": draw(st.lists(_var(), min_size=0, max_size=3)), "ops": draw(st.lists(_op(), min_size=1, max_size=25))}


# --------------------------------------------------------------------------- model
def bounds_of(spec, size, type_):
    lb, ub = [], []
    for b in spec[:size]:
        a, w = float(b["a"]), float(b["w"])
        if type_ == "float" and b["half"]:
            a, w = a + 0.5, w / 2 if w < 1000 else w
        kind = b["kind"]
        lo, hi = {"both": (a, a + w), "eq": (a, a), "lb": (a, INF), "ub": (-INF, a), "none": (-INF, INF)}[kind]
        lb.append(lo)
        ub.append(hi)
    return lb, ub


def point_from(lb, ub, type_, t):
    """A value inside [lb, ub] from a fraction t."""
    if lb == -INF and ub == INF:
        v = (t - 0.5) * 20
    elif lb == -INF:
        v = ub - t * 10
    elif ub == INF:
        v = lb + t * 10
    else:
        v = lb + t * (ub - lb)
        v = min(max(v, lb), ub)
    if type_ == "integer":
        v = float(round(v))
        v = min(max(v, lb), ub)
    return v


class Rec:
    def __init__(self, name, size, type_, lb, ub, value):
        self.name, self.size, self.type, self.lb, self.ub, self.value = name, size, type_, list(lb), list(ub), value

    def copy(self):
        return Rec(self.name, self.size, self.type, self.lb, self.ub, None if self.value is None else list(self.value))


def rec_from_spec(spec, name=None):
    name = NAMES[spec["name"]] if name is None else name
    size, type_ = spec["size"], spec["type"]
    lb, ub = bounds_of(spec["bounds"], size, type_)
    value = None
    if spec["value"] is not None:
        value = [point_from(lb[i], ub[i], type_, spec["value"][i]) for i in range(size)]
    return Rec(name, size, type_, lb, ub, value)


class Model:
    def __init__(self):
        self.recs: list[Rec] = []
        self.int_norm = False

    def names(self):
        return [r.name for r in self.recs]

    def get(self, name):
        return next(r for r in self.recs if r.name == name)

    def dim(self):
        return sum(r.size for r in self.recs)

    def flat(self, attr):
        return np.array([v for r in self.recs for v in getattr(r, attr)], dtype=float)

    def normalizable(self):
        """Boolean mask of components that are rescaled."""
        mask = []
        for r in self.recs:
            for lo, hi in zip(r.lb, r.ub):
                ok = lo != -INF and hi != INF and (r.type == "float" or self.int_norm)
                mask.append(ok)
        return np.array(mask, dtype=bool)

    def integer_mask(self):
        return np.array([r.type == "integer" for r in self.recs for _ in range(r.size)], dtype=bool)

    def has_all_values(self):
        return bool(self.recs) and all(r.value is not None for r in self.recs)

    def vector(self, t):
        vals, k = [], 0
        for r in self.recs:
            for lo, hi in zip(r.lb, r.ub):
                vals.append(point_from(lo, hi, r.type, t[k % len(t)]))
                k += 1
        return np.array(vals, dtype=float)

    def normalize(self, x):
        lb, ub, mask = self.flat("lb"), self.flat("ub"), self.normalizable()
        u = np.array(x, dtype=float)
        with np.errstate(invalid="ignore"):
            width = np.where(mask, ub - lb, 1.0)
        safe = np.where(width == 0, 1.0, width)
        u[..., mask] = ((u - np.where(mask, lb, 0.0)) / safe)[..., mask]
        return u

    def scale(self):
        """(ub - lb) on rescaled components, 1 elsewhere (0 on zero-width rescaled components)."""
        lb, ub, mask = self.flat("lb"), self.flat("ub"), self.normalizable()
        s = np.ones(self.dim())
        with np.errstate(invalid="ignore"):
            s[mask] = (ub - lb)[mask]
        return s


def build_variable(ds, rec: Rec):
    kw = {}
    if rec.value is not None:
        kw["value"] = np.array(rec.value, dtype=float)
    ds.add_variable(rec.name, size=rec.size, type_=rec.type, lower_bound=np.array(rec.lb), upper_bound=np.array(rec.ub), **kw)


def build_space(recs):
    from gemseo.algos.design_space import DesignSpace

    ds = DesignSpace()
    for r in recs:
        build_variable(ds, r)
    return ds


# --------------------------------------------------------------------------- comparisons
def close(a, b, tol_abs):
    a, b = np.asarray(a, dtype=float), np.asarray(b, dtype=float)
    if a.shape != b.shape:
        return False
    same_inf = (a == b)
    with np.errstate(invalid="ignore"):
        return bool(np.all(same_inf | (np.abs(a - b) <= tol_abs)))


def light_invariants(ds, m: Model, ctx, where):
    names = m.names()
    ctx.check(ds.variable_names == names, "views_names", f"variable_names={ds.variable_names}, model {names}", at=where)
    ctx.check(list(ds) == names and len(ds) == len(names), "views_names", "iteration order / len differ from variable_names", at=where)
    ctx.check(ds.dimension == m.dim(), "views_dimension", f"dimension={ds.dimension}, model {m.dim()}", at=where)
    ctx.check(ds.variable_sizes == {r.name: r.size for r in m.recs}, "views_sizes", f"variable_sizes={ds.variable_sizes}", at=where)
    ctx.check(list(ds.variable_sizes) == names and list(ds.variable_types) == names, "views_names", "sizes/types dictionaries follow another order", at=where)
    ctx.check({k: str(v) for k, v in ds.variable_types.items()} == {r.name: r.type for r in m.recs}, "views_types", f"variable_types={ds.variable_types}", at=where)
    start = 0
    n2i = ds.names_to_indices
    ctx.check(set(n2i) == set(names), "views_indices", f"names_to_indices keys {list(n2i)} vs {names}", at=where)
    # the mapping itself is a per-variable view: it is iterated (e.g. by filter_dimensions) in the variable order
    ctx.check(list(n2i) == names, "views_indices", f"names_to_indices is ordered {list(n2i)}, variable order is {names}", at=where)
    for r in m.recs:
        rg = n2i[r.name]
        ctx.check(list(rg) == list(range(start, start + r.size)), "views_indices",
                  f"names_to_indices[{r.name!r}]={rg}, expected range({start}, {start + r.size}) for order {names}", at=where)
        start += r.size
    ctx.check(set(ds.normalize) == set(names), "views_names", f"normalize policy keys {list(ds.normalize)}", at=where)
    for r in m.recs:
        ctx.check(close(ds.get_lower_bound(r.name), r.lb, 0) and close(ds.get_upper_bound(r.name), r.ub, 0), "views_bounds",
                  f"bounds of {r.name!r}: [{ds.get_lower_bound(r.name)}, {ds.get_upper_bound(r.name)}], model [{r.lb}, {r.ub}]", at=where)
        ctx.check(ds.get_size(r.name) == r.size and ds.get_type(r.name) == r.type, "views_sizes", f"get_size/get_type of {r.name!r}", at=where)


# ---- queries
def q_bounds(ds, m, ctx, where):
    if not m.recs:
        return  # empty space: nothing to concatenate
    lb, ub = ds.get_lower_bounds(), ds.get_upper_bounds()
    ctx.check(close(lb, m.flat("lb"), 0), "bounds_array", f"get_lower_bounds()={lb}, model {m.flat('lb')} (order {m.names()})", at=where)
    ctx.check(close(ub, m.flat("ub"), 0), "bounds_array", f"get_upper_bounds()={ub}, model {m.flat('ub')} (order {m.names()})", at=where)
    dl = ds.get_lower_bounds(as_dict=True)
    ctx.check(list(dl) == m.names() and all(close(dl[r.name], r.lb, 0) for r in m.recs), "bounds_dict", "lower bounds as dict differ", at=where)
    if len(m.recs) >= 2:
        sub = [m.recs[-1].name, m.recs[0].name]
        exp = np.array(m.recs[-1].ub + m.recs[0].ub)
        ctx.check(close(ds.get_upper_bounds(sub), exp, 0), "bounds_array", f"get_upper_bounds({sub}) differs", at=where)


def q_normalize(ds, m, ctx, where, t, batch):
    if not m.recs:
        return
    x = m.vector(t)
    if batch:
        x = np.vstack([m.vector(t[k:] + t[:k]) for k in range(batch + 1)])
    x0 = x.copy()
    u = ds.normalize_vect(x)
    ctx.check(np.array_equal(x, x0), "normalize_no_side_effect", "normalize_vect modified its argument", at=where)
    exp = m.normalize(x)
    ctx.check(np.shape(u) == exp.shape, "normalize_shape", f"normalize_vect shape {np.shape(u)}", at=where)
    ctx.check(close(u, exp, 8 * EPS * np.maximum(1.0, np.abs(exp))), "normalize_value",
              f"normalize_vect({x.tolist()})={np.asarray(u).tolist()}, expected {exp.tolist()} (lb={m.flat('lb').tolist()}, ub={m.flat('ub').tolist()}, rescaled={m.normalizable().tolist()})", at=where)
    mask = m.normalizable()
    finite_w = mask & (m.flat("ub") > m.flat("lb"))
    uu = np.asarray(u, dtype=float)
    ctx.check(bool(np.all((uu[..., finite_w] >= -8 * EPS) & (uu[..., finite_w] <= 1 + 8 * EPS))), "normalize_unit", "a bounded rescaled component left [0,1]", at=where)
    tv = ds.transform_vect(x)
    ctx.check(close(tv, uu, 0), "normalize_value", "transform_vect differs from normalize_vect", at=where)
    u_in = np.array(u, dtype=float)
    back = ds.unnormalize_vect(u_in.copy())
    scale = np.where(np.isfinite(m.flat("lb")), np.abs(m.flat("lb")), 0) + np.where(np.isfinite(m.flat("ub")), np.abs(m.flat("ub")), 0) + np.abs(x) + 1
    ctx.check(np.shape(back) == x.shape and close(back, x, 16 * EPS * scale), "round_trip",
              f"unnormalize_vect(normalize_vect(x))={np.asarray(back).tolist()} for x={x.tolist()}", at=where)
    ctx.check(close(ds.untransform_vect(u_in.copy()), np.asarray(back, dtype=float), 0), "round_trip", "untransform_vect differs from unnormalize_vect", at=where)
    # converse: normalise(unnormalise(u)) on float rescaled components of a drawn unit vector
    if not batch:
        uvec = np.array([t[k % len(t)] for k in range(m.dim())], dtype=float)
        uvec = np.where(mask, uvec, x)  # non-rescaled components carry physical values
        xb = np.asarray(ds.unnormalize_vect(uvec.copy()), dtype=float)
        lbv, ubv = m.flat("lb"), m.flat("ub")
        with np.errstate(invalid="ignore"):
            expx = np.where(mask, uvec * (ubv - lbv) + lbv, uvec)
        expx = np.where(mask & (ubv == lbv), lbv, expx)
        im = m.integer_mask()
        expx = np.where(im, np.round(expx), expx)
        ctx.check(close(xb, expx, 16 * EPS * scale), "unnormalize_value",
                  f"unnormalize_vect({uvec.tolist()})={xb.tolist()}, expected {expx.tolist()}", at=where)
        rv = ds.round_vect(x + np.where(im, 0.25, 0.125))
        ctx.check(close(rv, np.where(im, x, x + 0.125), 0), "round_vect", "round_vect must round integer components only", at=where)
    d = ds.convert_array_to_dict(x0 if not batch else x0[0])
    ctx.check(list(d) == m.names(), "convert", f"convert_array_to_dict keys {list(d)}", at=where)
    k = 0
    xv = x0 if not batch else x0[0]
    for r in m.recs:
        ctx.check(close(d[r.name], xv[k:k + r.size], 0), "convert", f"convert_array_to_dict[{r.name!r}] is not slice {k}:{k + r.size}", at=where)
        k += r.size
    ctx.check(close(ds.convert_dict_to_array(d), xv, 0), "convert", "convert_dict_to_array(convert_array_to_dict(x)) != x", at=where)


def q_grad(ds, m, ctx, where, g, rows):
    if not m.recs:
        return
    d = m.dim()
    vec = np.array([g[k % len(g)] for k in range(d)], dtype=float)
    if rows:
        vec = np.vstack([np.roll(vec, k) * (k + 1) for k in range(rows + 1)])
    s = m.scale()
    ng = ds.normalize_grad(vec.copy())
    ctx.check(np.shape(ng) == vec.shape and close(ng, vec * s, 8 * EPS * np.abs(vec * s)), "grad_scaling",
              f"normalize_grad({vec.tolist()})={np.asarray(ng).tolist()}, expected {(vec * s).tolist()} (scale {s.tolist()}, integer={m.integer_mask().tolist()})", at=where)
    sinv = 1.0 / np.where(s == 0, 1.0, s)
    ug = ds.unnormalize_grad(vec.copy())
    ctx.check(np.shape(ug) == vec.shape and close(ug, vec * sinv, 8 * EPS * np.abs(vec * sinv)), "grad_scaling",
              f"unnormalize_grad({vec.tolist()})={np.asarray(ug).tolist()}, expected {(vec * sinv).tolist()}", at=where)
    if rows:
        # sparse (CSR) Jacobians follow the same scaling as dense ones
        from scipy.sparse import csr_array

        ctx.cls("sparse_jacobian_scaled")
        for label, fun, expected in (("normalize_grad", ds.normalize_grad, vec * s), ("unnormalize_grad", ds.unnormalize_grad, vec * sinv)):
            got = fun(csr_array(vec))
            dense = np.asarray(got.todense()) if hasattr(got, "todense") else np.asarray(got)
            ctx.check(dense.shape == vec.shape and close(dense, expected, 8 * EPS * np.abs(expected)), "grad_scaling",
                      f"{label}(CSR of {vec.tolist()})={dense.tolist()}, expected {expected.tolist()} (scale {s.tolist()}, integer={m.integer_mask().tolist()})", at=where)


def q_current(ds, m, ctx, where, normalize, as_dict):
    if not m.recs:
        return
    if as_dict:
        got = ds.get_current_value(as_dict=True, normalize=normalize)
        if normalize and not m.has_all_values():
            return  # normalised dictionary of a partially valued space: not specified
        exp_names = [r.name for r in m.recs if r.value is not None]
        ctx.check(sorted(got) == sorted(exp_names), "current_dict", f"current value dict has {sorted(got)}, model {sorted(exp_names)}", at=where)
        if normalize:
            u = m.normalize(np.array([v for r in m.recs for v in r.value]))
            k = 0
            for r in m.recs:
                ctx.check(close(got[r.name], u[k:k + r.size], 8 * EPS * np.maximum(1, np.abs(u[k:k + r.size]))), "current_normalized",
                          f"normalised current value of {r.name!r}={np.asarray(got[r.name]).tolist()}, expected {u[k:k + r.size].tolist()}", at=where)
                k += r.size
        else:
            for r in m.recs:
                if r.value is not None:
                    ctx.check(close(got[r.name], r.value, 0), "current_dict", f"current value of {r.name!r}={got[r.name]}, model {r.value}", at=where)
        return
    if not m.has_all_values():
        try:
            ds.get_current_value(normalize=normalize)
        except KeyError:
            return
        ctx.fail("current_array", "get_current_value() returned although a variable has no value", at=where)
    got = ds.get_current_value(normalize=normalize)
    x = np.array([v for r in m.recs for v in r.value])
    if normalize:
        exp = m.normalize(x)
        ctx.check(close(got, exp, 8 * EPS * np.maximum(1, np.abs(exp))), "current_normalized",
                  f"get_current_value(normalize=True)={np.asarray(got).tolist()}, expected {exp.tolist()} (x={x.tolist()}, lb={m.flat('lb').tolist()}, ub={m.flat('ub').tolist()})", at=where)
    else:
        ctx.check(close(got, x, 0), "current_array", f"get_current_value()={np.asarray(got).tolist()}, model {x.tolist()} (order {m.names()})", at=where)
    if len(m.recs) >= 2:
        sub = [m.recs[-1].name, m.recs[0].name]
        exp = np.array(m.recs[-1].value + m.recs[0].value)
        ctx.check(close(ds.get_current_value(sub), exp, 0), "current_array", f"get_current_value({sub}) differs", at=where)


def q_membership(ds, m, ctx, where, t, out, side, form):
    if not m.recs:
        return
    x = m.vector(t)
    lb, ub = m.flat("lb"), m.flat("ub")
    target = None
    if out is not None:
        cands = [k for k in range(m.dim()) if np.isfinite(lb[k] if side == "lb" else ub[k])]
        if cands:
            target = cands[out % len(cands)]
            x[target] = lb[target] - 1.0 if side == "lb" else ub[target] + 1.0
    arg = x if form == "array" else {r.name: x[list(ds.names_to_indices[r.name])] if False else None for r in m.recs}
    if form == "dict":
        arg, k = {}, 0
        for r in m.recs:
            arg[r.name] = x[k:k + r.size].copy()
            k += r.size
    try:
        ds.check_membership(arg)
        raised = None
    except ValueError as exc:
        raised = str(exc)
    if target is None:
        ctx.check(raised is None, "membership", f"check_membership({form}) rejects the inside point {x.tolist()} (lb={lb.tolist()}, ub={ub.tolist()}): {raised}", at=where)
    else:
        ctx.check(raised is not None, "membership", f"check_membership({form}) accepts {x.tolist()} although component {target} is outside [{lb[target]}, {ub[target]}]", at=where)


def q_project(ds, m, ctx, where, t, push):
    if not m.recs:
        return
    x = m.vector(t) + np.array([push[k % len(push)] * 3.0 for k in range(m.dim())])
    p = ds.project_into_bounds(x.copy())
    exp = np.minimum(np.maximum(x, m.flat("lb")), m.flat("ub"))
    ctx.check(close(p, exp, 0), "projection", f"project_into_bounds({x.tolist()})={np.asarray(p).tolist()}, expected {exp.tolist()}", at=where)


def q_indexes(ds, m, ctx, where, keep):
    if not m.recs:
        return
    names = [r.name for k, r in enumerate(m.recs) if keep[k % len(keep)]]
    if not names:
        names = [m.recs[0].name]
    exp, start = [], 0
    for r in m.recs:
        if r.name in names:
            exp.extend(range(start, start + r.size))
        start += r.size
    got = ds.get_variables_indexes(list(reversed(names)))
    ctx.check(list(got) == exp, "indexes", f"get_variables_indexes({names})={list(got)}, expected {exp}", at=where)


def q_scalar(ds, m, ctx, where):
    if not m.recs:
        return
    sc = ds.to_scalar_variables()
    ctx.check(sc.dimension == m.dim() and len(sc) == m.dim(), "scalar_variables", "to_scalar_variables: wrong number of variables", at=where)
    ctx.check(sc.variable_names == ds.get_indexed_variable_names(), "scalar_variables", "to_scalar_variables: names differ from get_indexed_variable_names()", at=where)
    ctx.check(close(sc.get_lower_bounds(), m.flat("lb"), 0) and close(sc.get_upper_bounds(), m.flat("ub"), 0), "scalar_variables", "to_scalar_variables: bounds differ", at=where)
    types = [sc.get_type(n) for n in sc.variable_names]
    ctx.check(types == [r.type for r in m.recs for _ in range(r.size)], "scalar_variables", "to_scalar_variables: types differ", at=where)
    cur = sc.get_current_value(as_dict=True)
    k = 0
    for r in m.recs:
        for j in range(r.size):
            name = sc.variable_names[k]
            if r.value is None:
                ctx.check(name not in cur or cur[name] is None or all(v is None for v in np.atleast_1d(cur[name])), "scalar_variables", f"{name} has a value although {r.name!r} has none", at=where)
            else:
                ctx.check(name in cur and close(cur[name], [r.value[j]], 0), "scalar_variables", f"current value of {name} differs", at=where)
            k += 1


def q_eq(ds, m, ctx, where):
    twin = build_space(m.recs)
    ctx.check(ds == twin, "equality", "space != space rebuilt from the model", at=where)
    ctx.check(ds == copy.deepcopy(ds), "equality", "space != its deepcopy", at=where)
    if m.recs:
        recs = [r.copy() for r in m.recs]
        r0 = recs[0]
        if r0.value is not None:
            alt = point_from(r0.lb[0], r0.ub[0], r0.type, 0.0)
            if alt == r0.value[0]:
                alt = point_from(r0.lb[0], r0.ub[0], r0.type, 1.0)
            if alt != r0.value[0]:
                r0.value[0] = alt
                ctx.check(not (ds == build_space(recs)), "equality", "space == a space with another current value", at=where)
        recs = [r.copy() for r in m.recs]
        recs[-1].size += 1
        recs[-1].lb.append(recs[-1].lb[-1])
        recs[-1].ub.append(recs[-1].ub[-1])
        if recs[-1].value is not None:
            recs[-1].value.append(recs[-1].value[-1])
        ctx.check(not (ds == build_space(recs)), "equality", "space == a space with another size", at=where)


QUERIES = {"q_normalize", "q_grad", "q_current", "q_bounds", "q_membership", "q_project", "q_indexes", "q_scalar", "q_eq"}
FULL_T = [0.3, 0.0, 1.0, 0.5, 0.75, 0.125, 0.9, 0.25, 1 / 3, 0.5, 0.0, 1.0]
FULL_G = [0.4, -1.5, 2.0, 0.25, 3.7, -0.6, 1.0, 0.4, 0.4, -0.6, 2.0, 0.25]


def full_sweep(ds, m, ctx, where):
    light_invariants(ds, m, ctx, where)
    q_membership(ds, m, ctx, where, FULL_T, None, "lb", "array")
    q_membership(ds, m, ctx, where, FULL_T, 1, "ub", "array")
    q_membership(ds, m, ctx, where, FULL_T, 2, "lb", "dict")
    q_current(ds, m, ctx, where, True, False)
    q_current(ds, m, ctx, where, False, False)
    q_current(ds, m, ctx, where, False, True)
    q_current(ds, m, ctx, where, True, True)
    q_bounds(ds, m, ctx, where)
    q_normalize(ds, m, ctx, where, FULL_T, 0)
    q_normalize(ds, m, ctx, where, FULL_T, 2)
    q_grad(ds, m, ctx, where, FULL_G, 0)
    q_grad(ds, m, ctx, where, FULL_G, 1)
    q_project(ds, m, ctx, where, FULL_T, [-1, 1, 0, 1, -1, 0])
    q_indexes(ds, m, ctx, where, [True, False, True])
    q_scalar(ds, m, ctx, where)
    q_eq(ds, m, ctx, where)


# --------------------------------------------------------------------------- the history interpreter
def new_bound_values(rec: Rec, spec, which):
    """New lower/upper bounds compatible with the other bound and the current value."""
    lb, ub = bounds_of(spec, rec.size, rec.type)
    out = []
    for i in range(rec.size):
        if which == "lb":
            v = lb[i]
            cap = rec.ub[i] if rec.value is None else min(rec.ub[i], rec.value[i])
            out.append(min(v, cap))
        else:
            v = ub[i]
            floor = rec.lb[i] if rec.value is None else max(rec.lb[i], rec.value[i])
            out.append(max(v, floor))
    return out


def case_history(p, ctx):
    m = Model()
    for spec in p["init"]:
        if NAMES[spec["name"]] not in m.names():
            m.recs.append(rec_from_spec(spec))
    ds = build_space(m.recs)
    light_invariants(ds, m, ctx, "init")
    seen_query = False
    mutation_after_query = False
    nontrivial = False
    for step, op in enumerate(p["ops"]):
        kind = op["op"]
        where = f"step {step} ({kind})"
        n = len(m.recs)
        if kind in QUERIES:
            if kind == "q_normalize":
                q_normalize(ds, m, ctx, where, op["t"], op["batch"])
            elif kind == "q_grad":
                q_grad(ds, m, ctx, where, op["g"], op["rows"])
            elif kind == "q_current":
                q_current(ds, m, ctx, where, op["normalize"], op["as_dict"])
            elif kind == "q_bounds":
                q_bounds(ds, m, ctx, where)
            elif kind == "q_membership":
                q_membership(ds, m, ctx, where, op["t"], op["out"], op["side"], op["form"])
            elif kind == "q_project":
                q_project(ds, m, ctx, where, op["t"], op["push"])
            elif kind == "q_indexes":
                q_indexes(ds, m, ctx, where, op["keep"])
            elif kind == "q_scalar":
                q_scalar(ds, m, ctx, where)
            elif kind == "q_eq":
                q_eq(ds, m, ctx, where)
            if n:
                seen_query = True
                if mutation_after_query and bool(np.any(m.normalizable() & ((m.flat("lb") != 0) | (m.flat("ub") - m.flat("lb") != 1)))):
                    nontrivial = True
            continue
        # ----- mutations
        if kind == "add":
            rec = rec_from_spec(op["var"])
            if rec.name in m.names():
                continue
            build_variable(ds, rec)
            m.recs.append(rec)
        elif kind == "add_dup":
            if not n:
                continue
            name = m.recs[op["var"] % n].name
            try:
                ds.add_variable(name, size=1)
            except ValueError:
                pass
            else:
                ctx.fail("invalid_edit", f"add_variable of existing name {name!r} did not raise", at=where)
        elif kind == "add_bad_value":
            # documented rejection: a current value outside the bounds raises ValueError and the variable is not added
            rec = rec_from_spec(op["var"])
            if rec.name in m.names():
                continue
            comp = next((k for k in range(rec.size) if math.isfinite(rec.ub[k])), None)
            if comp is None:
                continue
            rec.value = [point_from(rec.lb[k], rec.ub[k], rec.type, 0.5) for k in range(rec.size)]
            rec.value[comp] = rec.ub[comp] + 2.0
            try:
                if op["how"] == "array":
                    build_variable(ds, rec)
                else:
                    from gemseo.algos.design_space import DesignSpace

                    other = DesignSpace()
                    good = rec.copy()
                    good.value = None
                    build_variable(other, good)
                    other.set_current_variable(rec.name, np.array(rec.value, dtype=np.int64 if rec.type == "integer" else float))
                    if op["how"] == "extend":
                        ds.extend(other)
                    else:
                        ds.add_variables_from(other, rec.name)
            except ValueError:
                ctx.cls("rejected_add_variable_with_value_outside_bounds")
            else:
                ctx.fail("invalid_edit", f"add_variable of {rec.name!r} with a current value above its upper bound did not raise", at=where)
        elif kind == "remove":
            if not n:
                continue
            rec = m.recs[op["var"] % n]
            ds.remove_variable(rec.name)
            m.recs.remove(rec)
        elif kind == "rename":
            if not n:
                continue
            k = op["var"] % n
            rec = m.recs[k]
            free = [nm for nm in NAMES if nm not in m.names()]
            new = free[op["new"] % len(free)]
            if k != n - 1:
                ctx.cls("rename_non_last_variable")
            ds.rename_variable(rec.name, new)
            rec.name = new
            reported = ds.variable_names
            moved = [r for r in m.recs if r is not rec] + [rec]
            if reported == [r.name for r in moved] and reported != m.names():
                m.recs = moved  # "moved to the end" is accepted if every view agrees
        elif kind == "filter":
            if not n:
                continue
            keep = [r.name for k, r in enumerate(m.recs) if op["keep"][k % len(op["keep"])]]
            if not keep:
                keep = [m.recs[0].name]
            res = ds.filter(keep, copy=op["copy"])
            if op["copy"]:
                light_invariants(ds, m, ctx, where + " original after filter(copy=True)")
                ds = res
            else:
                ctx.check(res is ds, "filter", "filter(copy=False) did not return the space itself", at=where)
            m.recs = [r for r in m.recs if r.name in keep]
        elif kind == "filter_dimensions":
            if not n:
                continue
            rec = m.recs[op["var"] % n]
            dims = [i for i in range(rec.size) if op["keep"][i]]
            if not dims:
                dims = [rec.size - 1]
            if len(rec.name) > 1 and rec.value is not None:
                ctx.cls("filter_dimensions_multichar_with_value")
            if len(dims) < rec.size:
                ctx.cls("filter_dimensions_strict")
            ds.filter_dimensions(rec.name, dims)
            rec.size = len(dims)
            rec.lb = [rec.lb[i] for i in dims]
            rec.ub = [rec.ub[i] for i in dims]
            if rec.value is not None:
                rec.value = [rec.value[i] for i in dims]
        elif kind == "extend":
            other_recs = []
            for spec in op["vars"]:
                r = rec_from_spec(spec)
                if r.name not in m.names() and r.name not in [o.name for o in other_recs]:
                    other_recs.append(r)
            if not other_recs:
                continue
            other = build_space(other_recs)
            if op["how"] == "extend":
                ds.extend(other)
            else:
                ds.add_variables_from(other, *[r.name for r in other_recs])
            m.recs.extend(other_recs)
        elif kind in ("set_lower_bound", "set_upper_bound"):
            if not n:
                continue
            rec = m.recs[op["var"] % n]
            which = "lb" if kind == "set_lower_bound" else "ub"
            vals = new_bound_values(rec, op["bounds"], which)
            if seen_query:
                ctx.cls("bound_change_after_query")
            if which == "lb":
                ds.set_lower_bound(rec.name, np.array(vals))
                rec.lb = vals
            else:
                ds.set_upper_bound(rec.name, np.array(vals))
                rec.ub = vals
        elif kind == "set_current_value":
            if not n:
                continue
            x = m.vector(op["t"])
            if op["as"] == "array":
                ds.set_current_value(x.copy())
            else:
                d, k = {}, 0
                for r in m.recs:
                    d[r.name] = x[k:k + r.size].copy()
                    k += r.size
                ds.set_current_value(d)
            k = 0
            for r in m.recs:
                r.value = [float(v) for v in x[k:k + r.size]]
                k += r.size
        elif kind == "set_current_variable":
            if not n:
                continue
            rec = m.recs[op["var"] % n]
            vals = [point_from(rec.lb[i], rec.ub[i], rec.type, op["t"][i]) for i in range(rec.size)]
            dtype = np.int64 if rec.type == "integer" else float
            ds.set_current_variable(rec.name, np.array(vals, dtype=dtype))
            rec.value = vals
        elif kind == "init_missing":
            ds.initialize_missing_current_values()
            for r in m.recs:
                if r.value is None:
                    vals = []
                    for lo, hi in zip(r.lb, r.ub):
                        if lo == -INF:
                            vals.append(0.0 if hi == INF else hi)
                        else:
                            vals.append(lo if hi == INF else (lo + hi) / 2)
                    if r.type == "integer":
                        vals = [float(int(v)) for v in vals]  # documented: cast to the variable's dtype
                    r.value = vals
        elif kind == "toggle_int_norm":
            m.int_norm = not m.int_norm
            ds.enable_integer_variables_normalization = m.int_norm
            ctx.check(ds.enable_integer_variables_normalization == m.int_norm, "int_norm_flag", "flag not set", at=where)
        elif kind == "deepcopy":
            ds = copy.deepcopy(ds)
        if seen_query:
            mutation_after_query = True
        light_invariants(ds, m, ctx, where)
    full_sweep(ds, m, ctx, "final sweep")
    if any(r.type == "integer" for r in m.recs):
        ctx.cls("final_space_has_integer_variable")
    if any(lo == hi for r in m.recs for lo, hi in zip(r.lb, r.ub)):
        ctx.cls("final_space_has_equal_bounds")
    if any(not math.isfinite(v) for r in m.recs for v in r.lb + r.ub):
        ctx.cls("final_space_has_infinite_bound")
    if m.int_norm:
        ctx.cls("integer_normalisation_enabled_at_end")
    if mutation_after_query:
        ctx.cls("mutation_after_cache_filling_query")
    if nontrivial:
        ctx.nontriv(p["ops"])
    ctx.sample({"init": [(NAMES[s["name"]], s["size"], s["type"]) for s in p["init"]], "ops": [o["op"] for o in p["ops"]]})


ORACLES = {"history": case_history}


def run(ctx):
    ctx.drive("history", histories(), case_history, quick=1200, thorough=8000)
