"""C03 - Drivers respect the evaluation budget and always return a result.

Every optimisation / DOE algorithm exposed by the factories is run on generated problems whose
objective and constraints are counting callables (vlib.gen.drivers.Counted around the dyadic
polynomials of vlib.gen.problems).  After each execution the harness-side records (distinct
physical points seen by the user's callables, probe points of derivative approximation left out),
the growth and the key order of problem.database and the returned OptimizationResult are compared
with what the budget, the generated samples and the recorded history allow.
"""

from __future__ import annotations

import contextlib
import gc
import io
import logging
import signal
import threading
import warnings

import numpy as np

from vlib.gen.drivers import Runaway
from vlib.gen.drivers import absent_optional_packages
from vlib.gen.drivers import custom_samples
from vlib.gen.drivers import doe_capabilities
from vlib.gen.drivers import doe_cases
from vlib.gen.drivers import instance_cases
from vlib.gen.drivers import mixed_cases
from vlib.gen.drivers import HarnessProblem
from vlib.gen.drivers import near_one_component
from vlib.gen.drivers import opt_cases
from vlib.gen.drivers import optimizer_capabilities
from vlib.gen.drivers import point_key
from vlib.gen.drivers import problem_matches

logging.getLogger("gemseo").setLevel(logging.CRITICAL)  # LOGGER.exception of skipped DOE samples is ERROR level

PROPERTY = "C03"
LEVEL = "exploration"
RULE = (
    "One Hypothesis drive per algorithm of OptimizationLibraryFactory().algorithms and of DOELibraryFactory()."
    "algorithms (MNBI excluded, see assumptions).  For an optimiser the problem is built inside the capabilities "
    "declared in its ALGORITHM_INFOS (constraint kinds, MDOLinearFunction problems for linear-only / coefficient-"
    "reading solvers, integer variables only if handled, approximated derivatives only if gradients are required): "
    "1-4 bounded variables, dyadic quadratic / affine / linear objective, 0-2 constraints of dim 1-2, optional NaN "
    "rule (k-th distinct point or half-space), user / finite / centered / complex-step derivatives, max_iter 1-25 "
    "(1-10 for global and composite algorithms), normalisation, database, Jacobian storage and integer rounding "
    "on/off, a stop mode (budget only; constant objective + ftol_abs=1e-3 or ftol_abs=1e9; xtol_abs=1e9; "
    "max_time=1e-9; NaN) and optionally a second execute on the same problem by another compatible algorithm with "
    "or without reset_iteration_counters.  The user's callables record the physical point of every call.  Oracles "
    "per execution: len(database) grows by <= N (<= max(0, N - entries of the first run) when counters are kept); "
    "the callables see <= N distinct points that were not database keys before the execution, derivative-"
    "approximation probes left out (complex points; points within 1e-5*(ub-lb) in one component of a key or of an "
    "earlier point are clustered with it); problem.evaluation_counter.current == number of new entries (plus the kept "
    "value); the first database entry holds the objective and every constraint (a budget >= 1 pays for the whole "
    "first point); execute returns an OptimizationResult (any exception is a violation) whose x_opt is a database "
    "key, whose f_opt / is_feasible are those recorded there and which is the best feasible recorded point; with "
    "max_time=1e-9 exactly one entry is created and the message names the time limit.  DOE (serial, 1 in 6 with "
    "n_processes=2): database keys of the non-failing samples == de-duplicated lib.samples in generation order, "
    "each called exactly once per function (and per Jacobian with eval_jac), recorded value == returned value, NaN "
    "values and NaN Jacobians (finite values, drawn rule) recorded as NaN without ending the DOE, samples refused by "
    "a ValueError rule disturb nobody, nothing but samples is evaluated, counter "
    "== new entries; a second DOE run sees only the new samples, a prefix of them within the remaining budget when "
    "counters are kept.  Further dimensions: optional observable (also a new-iteration observable) on any problem; stop "
    "mode 'nan_grad' (problem.stop_if_nan=False and a gradient that becomes NaN with finite values, gradient-based "
    "algorithms: a NaN design vector must end the run with a result); kkt_tol_abs / kkt_tol_rel in {1e9, 1e-3}; "
    "scaling_threshold in {0.1, 1, 100}; drive 'instances': ONE library instance executed on 2-3 different problems "
    "(the first with an observable), every execution held to all the oracles above; drive 'mixed': an optimisation "
    "(possibly ended by a ValueError of a user function, which execute lets through) followed by a DOE on the same "
    "problem, held to the DOE oracles; restart variant of the second execution: the database is tampered with between "
    "the executions (Database.filter of none / the objective / the constraints, store(x, {}), clear), the design space is "
    "put back to x0 and the same algorithm runs again with a smaller max_iter - growth counts the entries that hold "
    "outputs, the counter stays <= max(maximum, kept value); in nan_grad mode the functions may raise on a non-finite "
    "design vector, and no database-on execution may ever call them with one; DOE with max_time=1e-9 (serial or "
    "parallel): <= 1 recorded sample, no output-less entry left, every key a sample.  Non-trivial = an execution that GEMSEO ended (message contains 'GEMSEO stopped the "
    "driver') or a DOE holding a duplicated or failing sample or cut by a kept counter; distinct = structural hash "
    "of the payload."
)
ASSUMPTIONS = [
    "every design variable has finite bounds lb < ub and (for optimisers) a current value; integer variables only for "
    "algorithms declaring handle_integer_variables (never for composite ones: MultiStart's capability depends on its "
    "sub-algorithm); approximated derivatives only on all-float, non-linear problems and only for algorithms "
    "declaring require_gradient (complex_step turns the design space complex, which gradient-free SciPy optimisers "
    "reject for reasons unrelated to budgets)",
    "the second execution keeps normalize_design_space / use_database / round_ints / store_jacobian of the first "
    "(functions are preprocessed once per problem) and is never a composite or NLOPT_NEWUOA run",
    "composite algorithms are held to their documented per-level budgets: MultiStart to max_iter in total (it "
    "documents 1 + sum of the sub-budgets <= max_iter and shares the functions of the main problem; max_iter > n_start "
    "is its documented precondition); Augmented_Lagrangian_* to max_iter entries in the main database and max_iter * "
    "sub max_iter further distinct points (sub-problems are built on the original functions with their own database), "
    "with the sub-driver given the normalisation of the main run, a 1-D objective gradient and array-valued "
    "constraints (LagrangeMultipliers / the in-place multiplier update fail otherwise, unrelated to budgets)",
    "MNBI is excluded: multi-objective only, result built from the Pareto front of the history (C04; fails on "
    "duplicated non-dominated points), documented RuntimeError when a sub-optimisation ends without a feasible "
    "optimum (what a spent budget produces), normalisation forbidden",
    "NLOPT_NEWUOA needs dimension >= 2 (NLopt) and is only given max_iter 1 or 2: once GEMSEO forces a stop near or "
    "after the end of its initial interpolation set NLopt's C code spends 30-90 s before returning (no budget is "
    "exceeded, the time budget of the check is, and no Python-level watchdog can interrupt it)",
    "at most as many equality-constraint components as design variables (NLopt's SLSQP otherwise fails with 'bug: "
    "workspace is too small')",
    "ScipyLinprog / ScipyMILP read coefficients and never call the functions while solving: their result is built "
    "from the solver's answer (not from the database), so only type, bounds and budget are checked for them and the "
    "constraints are made feasible at x0 (an infeasible LP is outside the property)",
    "an objective that returns NaN is generated with problem.stop_if_nan left at its default True; raising functions "
    "are generated for DOEs only (an optimiser does not catch them, and the statement does not ask it to)",
    "a run whose callables are called more than 1500 times (far above any generated budget) is cut by the harness "
    "(Runaway); the budget oracles are applied to what was recorded until then; a run that stays within its budget of "
    "points but never returns (an optimiser stalling on recorded points, e.g. SLSQP with store_jacobian=False "
    "recomputing one gradient for ever) contradicts no clause of the statement and gets no verdict (class "
    "stalled_on_recorded_points_cut_by_harness); a 30 s watchdog (SIGALRM) is a safety net for runs that call nothing "
    "of the harness: it yields 'inconclusive', never a verdict",
    "the single evaluation of a user's MDOLinearFunction at the lower bounds made by MDOLinearFunction.normalize while "
    "the problem is preprocessed is not counted as a point of the driver",
    "kkt_tol_abs / kkt_tol_rel are drawn with store_jacobian=True (documented requirement) and a 1-D objective gradient "
    "(LagrangeMultipliers rejects a (1, n) one); scaling_threshold in {0.1, 1, 100}",
    "third-party internal caches count as part of the algorithm: repeated calls at one point are never counted twice",
    "with max_time only the degenerate value 1e-9 is generated (fires at the first new-iteration callback; no "
    "wall-clock oracle)",
    "DOE settings keep the design small and inside the bounds (PYDOE_CCDESIGN with face 'faced'/'inscribed': the "
    "default 'circumscribed' star points leave the design space; sample placement is C14's matter)",
    "DOE samples that are equal as numbers but differ in the sign of a zero (-0.0 from rounding an integer component "
    "against 0.0) are two keys of the byte-hashed database and are evaluated twice: the property does not say whether "
    "they are 'distinct'; such designs get no verdict (class doe_signed_zero_twin_samples_no_verdict)",
    "parallel DOE (n_processes=2, 1 case in 6): the functions run in forked workers, so only the database (keys, order, "
    "values) and the counter of the main process are checked and the rules are half-spaces",
    "DOE with normalize_design_space=True: database keys are compared with the samples to 4 ulp of the bound scale "
    "(the sample goes through normalise/unnormalise)",
    "recorded values are compared with the polynomial re-evaluated on a copy of the key to 16 ulp of the sum of the "
    "absolute terms (BLAS may sum a view and a copy in different orders)",
]

# ledger predicates
K_DB_OFF = "database_off_budget_not_enforced"
K_AL1_RESET = "augmented_lagrangian_order_1_counter_reset"
K_LP_EXTRA_POINT = "coefficient_solver_final_evaluation_outside_budget"
K_LP_EARLY_STOP = "coefficient_solver_early_stop_type_error"
K_GLOBAL_LISTENER = "global_optimizer_listener_left_behind"
K_MULTISTART_NORM = "multistart_normalized_design_space"
K_DOE_NORM = "doe_normalized_design_space"
K_SCALING = "scaling_threshold_applied"
K_KKT_LISTENER = "kkt_listener_left_behind"
K_STALE_CALLBACK = "listeners_left_after_exception"
K_CLEARED_KEPT = "cleared_database_with_kept_counters"
K_PARALLEL_TIME = "parallel_doe_time_limit_leaves_placeholders"
K_PARALLEL_KEPT = "parallel_doe_ignores_kept_counter"

EXCLUDED_ALGORITHMS = {
    "MNBI": "multi-objective only: its result is a MultiObjectiveOptimizationResult built from the Pareto front of the "
            "history (C04's matter; it fails on duplicated non-dominated points, P13), it documents a RuntimeError when a "
            "sub-optimisation ends without a feasible optimum - which is what a spent budget produces - and forbids "
            "normalisation: no single-level budget statement applies",
}
CAP_CALLS = 1500
_CAPS = {}


def caps():
    if not _CAPS:
        _CAPS["opt"] = optimizer_capabilities()
        _CAPS["doe"] = doe_capabilities()
    return _CAPS


# --------------------------------------------------------------------------- helpers
class WallTimeout(Exception):
    """Raised by the watchdog: a run that neither calls the user's functions nor returns (no verdict, reported as inconclusive)."""


WATCHDOG_SECONDS = 30.0


def _alarm(signum, frame):
    raise WallTimeout


class Excluded(Exception):
    """The case belongs to the class of an open ledger entry (or to a documented exception): no verdict."""


class UserRaised(Exception):
    """A user function raised (drawn rule) and execute let the exception through: expected, the run has no result."""


def _execute(h, algo, max_iter, settings, extra, ctx, where, lib=None):
    """Run one optimisation; return (result, runaway).  Any exception other than the harness cap is a violation.

    ``lib``: an existing library instance to execute (histories re-using one instance); default: a fresh one.
    """
    from gemseo.algos.opt.factory import OptimizationLibraryFactory

    gc.disable()  # finalizers of multiprocessing.Value objects must not run inside the C callbacks of NLopt
    # safety net only (never part of a verdict): an optimiser iterating for ever on recorded points calls nothing of the harness
    watchdog = threading.current_thread() is threading.main_thread()
    if watchdog:
        previous = signal.signal(signal.SIGALRM, _alarm)
        signal.setitimer(signal.ITIMER_REAL, WATCHDOG_SECONDS)
    try:
        with warnings.catch_warnings():
            warnings.simplefilter("ignore")
            if lib is None:
                result = OptimizationLibraryFactory().execute(h.problem, algo_name=algo, max_iter=max_iter, **settings, **extra)
            else:
                result = lib.execute(h.problem, max_iter=max_iter, **settings, **extra)
    except Runaway:
        return None, True
    except WallTimeout:
        ctx.cls("watchdog_timeout_no_verdict")
        ctx.inconclusive.append(f"{where}: {algo} (max_iter={max_iter}) did not return within {WATCHDOG_SECONDS:.0f} s and was cut by the watchdog")
        raise Excluded from None
    except Exception as exc:  # noqa: BLE001
        if h.state["runaway"]:
            return None, True
        if h.state["raised"] and isinstance(exc, ValueError) and "harness: the function refuses this point" in str(exc):
            ctx.cls("user_exception_let_through")
            raise UserRaised from None
        if algo == "MNBI" and isinstance(exc, RuntimeError) and "No feasible optimum found" in str(exc):
            ctx.cls("mnbi_documented_runtime_error")  # documented: "RuntimeError: If no optimum is found for one of the objectives"
            return None, False
        if (caps()["opt"][algo]["library"] in ("ScipyLinprog", "ScipyMILP") and isinstance(exc, TypeError)
                and "_get_result() missing" in str(exc) and ctx.known(K_LP_EARLY_STOP)):
            raise Excluded from None
        ctx.fail("returns", f"{where}: execute raised {type(exc).__name__}: {str(exc)[:300]} instead of returning a result",
                 algo=algo, max_iter=max_iter)
    finally:
        if watchdog:
            signal.setitimer(signal.ITIMER_REAL, 0.0)
            signal.signal(signal.SIGALRM, previous)
        gc.enable()
    return result, h.state["runaway"]


def _counted_points(h, marks, db_keys):
    """Distinct physical points seen by the callables since ``marks``, derivative-approximation probes left out.

    With approximated derivatives the points are clustered: a point that differs from the representative of a
    cluster in one component by at most 1e-5 * (ub - lb) is a probe of that point (forward / centred differences;
    complex-step probes are dropped when recorded).  Database keys are the preferred representatives, then the points
    in order of first call; two genuine iterates that close count once, which can only make the oracle more lenient.
    """
    pts = h.distinct_points(marks)
    if h.spec.get("diff", "user") == "user":
        return pts
    scale = np.maximum(h.space.ub - h.space.lb, 1.0)
    reps = {point_key(k): np.asarray(k).real.astype(float) for k in db_keys}
    out = {}
    for key, p in pts.items():
        if key in reps:
            out[key] = p
    for key, p in pts.items():
        if key in reps:
            continue
        if any(near_one_component(p, q, scale) for q in reps.values()):
            continue
        reps[key] = p
        out[key] = p
    return out


def _stored(problem, x, name):
    v = problem.database.get_function_value(name, x)
    return None if v is None else np.atleast_1d(np.asarray(v).real.astype(float))


def _ref_feasible(h, x, eq_tol, ineq_tol):
    """Feasibility of a recorded point from the recorded constraint values (missing value = infeasible)."""
    for name, con in zip(h.con_names, h.spec["cons"]):
        v = _stored(h.problem, x, name)
        if v is None or np.isnan(v).any():
            return False
        if con["type"] == "eq":
            if not np.all(np.abs(v) <= eq_tol):
                return False
        elif not np.all(v <= ineq_tol):
            return False
    return True


def _check_result(h, result, p, settings, ctx, where, coefficient_solver):
    from gemseo.algos.optimization_result import OptimizationResult

    ctx.check(isinstance(result, OptimizationResult), "result", f"{where}: execute returned {type(result).__name__}")
    problem = h.problem
    db_keys = h.db_keys()
    if coefficient_solver:
        if result.x_opt is not None:
            x = np.asarray(result.x_opt, dtype=float)
            ctx.check(x.shape == (h.space.dim,) and bool(np.all(x >= h.space.lb - 1e-9) and np.all(x <= h.space.ub + 1e-9)),
                      "result", f"{where}: x_opt {x} outside the bounds")
        return
    if not db_keys:
        ctx.cls("empty_history")
        return
    ctx.check(result.x_opt is not None, "result", f"{where}: the database holds {len(db_keys)} points but x_opt is None")
    x_opt = np.asarray(result.x_opt)
    idx = [i for i, k in enumerate(db_keys) if k.shape == x_opt.shape and point_key(k) == point_key(x_opt)]
    ctx.check(bool(idx), "result", f"{where}: x_opt {x_opt} is not a key of the database", keys=[k.real.tolist() for k in db_keys][:10])
    if int(h.spec["obj"]["dim"]) > 1:
        return  # multi-objective: the selection rule is C04's Pareto matter
    eq_tol, ineq_tol = settings["eq_tolerance"], settings["ineq_tolerance"]
    feas = [_ref_feasible(h, k, eq_tol, ineq_tol) for k in db_keys]
    objs = [_stored(problem, k, h.obj_name) for k in db_keys]
    std = problem.minimize_objective or problem.use_standardized_objective
    # keys of different dtypes (complex_step) or emptied by Database.filter may sit at the same point: take the recorded one
    idx = sorted(idx, key=lambda i: objs[i] is None)
    f_here = objs[idx[0]]
    if f_here is not None and result.f_opt is not None:
        got = float(np.real(np.atleast_1d(result.f_opt)[0]))
        exp = float(f_here[0]) if std else -float(f_here[0])
        ctx.check(got == exp or (np.isnan(got) and np.isnan(exp)), "result", f"{where}: f_opt={got} but the value recorded at x_opt is {exp}")
    ctx.check(bool(result.is_feasible) == feas[idx[0]] or (any(feas) and bool(result.is_feasible)), "result",
              f"{where}: is_feasible={result.is_feasible}, recorded constraint values at x_opt say {feas[idx[0]]}")
    candidates = [float(o[0]) for o, ok in zip(objs, feas) if ok and o is not None and not np.isnan(o[0])]
    if candidates:
        ctx.check(feas[idx[0]] and f_here is not None and float(f_here[0]) <= min(candidates), "result",
                  f"{where}: reported point (objective {None if f_here is None else float(f_here[0])}, feasible={feas[idx[0]]}) "
                  f"is not the best feasible recorded point ({min(candidates)})")


def _check_finite_inputs(h, ctx, where, algo):
    n_bad = h.state.get("nonfinite_input_calls", 0)
    ctx.check(n_bad == 0, "nan_input", f"{where}: {algo} called the user's functions {n_bad} times with a NaN / inf design vector")


def _apply_tamper(h, tamper):
    """What a user may do to the database between two executions."""
    database = h.problem.database
    if tamper["op"] == "filter":
        names = {"none": [], "objective": [h.obj_name], "constraints": list(h.con_names)}[tamper["keep"]]
        database.filter(names)
    elif tamper["op"] == "store_empty":
        for key in list(database):
            database.store(key, {})
    elif tamper["op"] == "clear":
        database.clear()


def _budget_oracles(h, p, ctx, where, algo, cap, n_iter, marks, old_keys, allowed_growth, extra, counter_start=None, filled_before=0):
    """Database growth and distinct-point counters of one execution.

    Points that were database keys before the execution belong to an earlier budget: asking a further
    function (e.g. the gradient) there is not a new point of this execution.
    """
    problem = h.problem
    # entries that hold outputs now and did not before (an entry emptied by Database.filter is a point to evaluate again)
    growth = h.n_filled() - filled_before
    db_keys = h.db_keys()
    pts = {k: v for k, v in _counted_points(h, marks, db_keys).items() if k not in old_keys}
    n_pts = len(pts)
    info = {"algo": algo, "max_iter": n_iter, "growth": growth, "distinct_points": n_pts}
    is_al1 = algo == "Augmented_Lagrangian_order_1"
    if not (is_al1 and growth > allowed_growth and ctx.known(K_AL1_RESET)):
        ctx.check(growth <= allowed_growth, "database_growth",
                  f"{where}: {algo} created {growth} database entries with a budget of {allowed_growth} (max_iter={n_iter})", **info)
    if algo.startswith("Augmented_Lagrangian"):
        sub = int(extra["sub_algorithm_settings"]["max_iter"])
        allowed_pts = allowed_growth + max(growth, allowed_growth) * sub
        if is_al1 and ctx.known(K_AL1_RESET, count=False):
            allowed_pts = None
    elif algo == "MNBI":
        allowed_pts = None  # the sub-optimisations have their own documented budget (sub_optim_max_iter each)
    else:
        allowed_pts = allowed_growth
    counter = problem.evaluation_counter
    start = 0 if counter_start is None else counter_start  # a kept counter may already exceed a smaller maximum
    if not (is_al1 and ctx.known(K_AL1_RESET, count=False)):
        ctx.check(counter.maximum == 0 or counter.current <= max(counter.maximum, start), "counter",
                  f"{where}: the evaluation counter holds {counter.current}, beyond its maximum {counter.maximum} (it held {start} at the start)", **info)
    if allowed_pts is not None:
        if cap["linear_only"] and n_pts > allowed_pts and n_pts <= allowed_pts + 1 and ctx.known(K_LP_EXTRA_POINT):
            return growth, n_pts
        ctx.check(n_pts <= allowed_pts, "distinct_points",
                  f"{where}: the user's functions were called at {n_pts} distinct points with a budget of {allowed_pts} "
                  f"(max_iter={n_iter}, database growth {growth})", **info)
    return growth, n_pts


# --------------------------------------------------------------------------- optimisation oracle
def _scaling_applied(h, threshold) -> bool:
    """scaling_threshold really rescales a function: |value at x0| of the objective or of a constraint exceeds it."""
    n = 1 + len(h.spec["cons"])
    return any(bool(np.any(np.abs(poly.value(h.x0)) > threshold)) for poly in h.polys[:n])


def case_opt(p, ctx, lib=None):
    """One optimisation case (with its optional second execution).  Returns (status, harness problem)."""
    cp = caps()["opt"]
    algo = p["algo"]
    if algo not in cp:
        ctx.cls("algorithm_not_in_factory")
        return "skipped", None
    cap = cp[algo]
    if problem_matches(cap, p["problem"]):
        ctx.cls("capability_mismatch_payload")
        return "skipped", None
    np.random.seed(int(p["seed"]))
    h = HarnessProblem(p["problem"], cap=CAP_CALLS)
    settings = dict(p["settings"])
    h.normalized = bool(settings["normalize_design_space"])
    if not settings["use_database"]:
        for counted in h.counted:  # the NaN check of the design vector lives in the database path (class of C03-F1)
            counted.raise_on_nonfinite = False
    use_db = settings["use_database"]
    n_iter = int(p["max_iter"])
    coefficient_solver = cap["library"] in ("ScipyLinprog", "ScipyMILP")
    ctx.cls(f"algo:{algo}", f"stop:{p['stop']}", f"diff:{p['problem']['diff']}")
    ctx.cls("normalized" if settings["normalize_design_space"] else "unnormalized")
    if p["problem"]["cons"]:
        ctx.cls("constrained")
    if any(v["type"] == "integer" for v in p["problem"]["space"]["vars"]):
        ctx.cls("integer_variables")
    if p["problem"].get("obs"):
        ctx.cls("with_observable")
    if any(k.startswith("kkt_tol") for k in settings):
        ctx.cls("kkt_tolerance_set")

    try:
        if algo == "MultiStart" and settings["normalize_design_space"] and ctx.known(K_MULTISTART_NORM):
            raise Excluded
        if "scaling_threshold" in settings:
            applied = _scaling_applied(h, float(settings["scaling_threshold"]))
            ctx.cls("scaling_threshold_applied" if applied else "scaling_threshold_not_reached")
            if applied and ctx.known(K_SCALING):
                raise Excluded
        _case_opt(p, ctx, cp, algo, cap, h, settings, use_db, n_iter, coefficient_solver, lib)
    except Excluded:
        ctx.cls("excluded_by_known_finding")
        return "excluded", h
    except UserRaised:
        return "user_raised", h
    return "done", h


def _case_opt(p, ctx, cp, algo, cap, h, settings, use_db, n_iter, coefficient_solver, lib=None):
    # ----- first execution
    marks = h.mark()
    result, runaway = _execute(h, algo, n_iter, settings, p["extra"], ctx, "first execution", lib)
    if not use_db:
        ctx.cls("database_off")
        if runaway:
            ctx.cls("database_off_runaway_cut_by_harness")
        if ctx.known(K_DB_OFF):
            return  # held to 'returns without raising' only (P15)
    if use_db:
        _check_finite_inputs(h, ctx, "first execution", algo)
    growth, n_pts = _budget_oracles(h, p, ctx, "first execution", algo, cap, n_iter, marks, set(), n_iter, p["extra"])
    if runaway and use_db:
        # more than CAP_CALLS calls within the budget of distinct points: the algorithm stalls on recorded points (e.g. SLSQP
        # with store_jacobian=False recomputing the gradient at one point for ever).  No entry, no point beyond the
        # budget and nothing raised: the statement is not contradicted, the run simply never returns -> no verdict
        ctx.cls("stalled_on_recorded_points_cut_by_harness")
        ctx.note(f"{algo}: stalled on recorded points until the harness cut the run after {CAP_CALLS} calls (no verdict)")
        return
    if not use_db:
        ctx.check(result is not None and result.x_opt is not None, "result",
                  "first execution: use_database=False: the result has no optimum (no history to build it from)")
        return
    if result is None:  # documented exception of MNBI
        return
    counter = int(h.problem.evaluation_counter.current)
    if not cap["composite"]:
        if h.state["raised"]:
            # a user function raised inside the new-iteration event (e.g. an observable; NLopt swallows the exception and the
            # driver still returns a result): the listeners after it were not run for that entry, so the counter may lag
            # behind; the statement bounds the entries and the points, not the counter (thorough tier, seed 5)
            ctx.cls("counter_may_lag_after_a_user_exception_in_the_new_iteration_event")
            ctx.check(counter <= growth, "counter", f"first execution: the evaluation counter holds {counter} after {growth} new database entries",
                      algo=algo, max_iter=n_iter)
        else:
            ctx.check(counter == growth, "counter", f"first execution: the evaluation counter holds {counter} after {growth} new database entries",
                      algo=algo, max_iter=n_iter)
    _check_result(h, result, p, settings, ctx, "first execution", coefficient_solver)
    message = str(result.message)
    if growth >= 1 and p["stop"] != "time" and not h.state["nan_returned"]:
        # a budget of N >= 1 points pays for the whole first point: _pre_run evaluates the objective and every
        # constraint at x0 before the algorithm starts
        first = h.db_keys()[0]
        missing = [name for name in (h.obj_name, *h.con_names) if h.problem.database.get_function_value(name, first) is None]
        ctx.check(not missing, "first_point_complete",
                  f"first execution: the first database entry lacks {missing} although max_iter={n_iter} >= 1 (message {message!r})")
    stopped_by_gemseo = "GEMSEO stopped the driver" in message
    if p["stop"] == "time":
        ctx.check(growth == 1, "termination", f"max_time=1e-9: {growth} entries were created before the time limit fired", result_message=message)
        ctx.check("Maximum time reached" in message, "termination", f"max_time=1e-9 but the message is {message!r}")
    if h.state["nan_returned"]:
        ctx.cls("nan_returned")
        if "NaN" in message:
            ctx.cls("stopped_by_nan")
    if stopped_by_gemseo:
        ctx.cls("gemseo_stopped_the_driver")
        for token, name in (("Maximum number", "max_iter"), ("objective function are closer", "ftol"), ("design variables are closer", "xtol"),
                            ("Maximum time", "max_time"), ("NaN", "nan"), ("KKT", "kkt"),
                            ("Design variables are NaN", "nan_design_vector")):
            if token in message:
                ctx.cls(f"criterion:{name}")
        ctx.nontriv(p)
    if growth == n_iter:
        ctx.cls("budget_exhausted")
    ctx.extra["max_database_growth"] = max(ctx.extra.get("max_database_growth", 0), growth)

    # ----- second execution on the same problem
    second = p.get("second")
    if second is not None and cap["global"] and p["problem"]["cons"] and ctx.known(K_GLOBAL_LISTENER):
        second = None
    if second is not None and cap["kkt"] and any(k.startswith("kkt_tol") for k in settings) and ctx.known(K_KKT_LISTENER):
        second = None
    if second is not None and cp.get(second["algo"], {}).get("linear_only") and p["problem"]["cons"] and not p["problem"]["feasible_x0"]:
        second = None  # possibly infeasible LP: outside the property (hand-written or shrunk payloads only)
    if second is not None and second["algo"] in cp and not problem_matches(cp[second["algo"]], p["problem"]):
        algo2, n2, reset = second["algo"], int(second["max_iter"]), bool(second["reset"])
        cap2 = cp[algo2]
        ctx.cls("second_execution", "second_reset" if reset else "second_keeps_counters")
        settings2 = {k: settings[k] for k in ("normalize_design_space", "use_database", "round_ints", "store_jacobian", "eq_tolerance", "ineq_tolerance")}
        settings2["reset_iteration_counters"] = reset
        extra2 = {"seed": int(p["seed"])} if algo2 in ("DUAL_ANNEALING", "DIFFERENTIAL_EVOLUTION") else {}
        tamper = second.get("tamper")
        if tamper is not None:
            ctx.cls(f"tamper:{tamper['op']}" + (f":keep_{tamper['keep']}" if tamper["op"] == "filter" else ""))
            if tamper["op"] in ("clear", "filter") and not reset and ctx.known(K_CLEARED_KEPT):
                ctx.cls("excluded_by_known_finding")
                return
            _apply_tamper(h, tamper)
        if second.get("same_start"):
            x0 = h.x0.astype(int) if h.space.common_dtype_kind() == "i" else h.x0
            h.design_space.set_current_value(x0)
        old_keys = h.filled_keys()
        filled_before = h.n_filled()
        counter_before = int(h.problem.evaluation_counter.current)
        marks2 = h.mark()
        h.state["nan_returned"] = 0
        result2, runaway2 = _execute(h, algo2, n2, settings2, extra2, ctx, "second execution")
        allowed = n2 if reset else max(0, n2 - growth)
        if not reset:
            ctx.check(counter_before == growth, "counter",
                      f"the evaluation counter holds {counter_before} after a first execution that created {growth} entries")
            if allowed == 0:
                ctx.cls("second_budget_already_spent")
        _check_finite_inputs(h, ctx, "second execution", algo2)
        growth2, _ = _budget_oracles(h, p, ctx, "second execution", algo2, cap2, n2, marks2, old_keys, allowed, extra2,
                                     counter_start=None if reset else counter_before, filled_before=filled_before)
        if tamper is not None and growth2 == allowed and allowed < growth:
            ctx.cls("restart_cut_by_budget_on_emptied_points")
            ctx.nontriv(("restart", p))
        counter2 = int(h.problem.evaluation_counter.current)
        expected2 = growth2 if reset else counter_before + growth2
        ctx.check(counter2 == expected2, "counter",
                  f"second execution (reset_iteration_counters={reset}): the evaluation counter holds {counter2}, expected {expected2} "
                  f"({counter_before} before, {growth2} new entries)")
        if runaway2:
            ctx.cls("stalled_on_recorded_points_cut_by_harness")
            return
        _check_result(h, result2, p, settings2, ctx, "second execution", cap2["library"] in ("ScipyLinprog", "ScipyMILP"))
        if "GEMSEO stopped the driver" in str(result2.message):
            ctx.cls("second_stopped_by_gemseo")
            ctx.nontriv(("second", p))
    ctx.sample({"oracle": "opt", "algo": algo, "max_iter": n_iter, "stop": p["stop"], "growth": growth, "distinct_points": n_pts,
                "message": message[:80], "second": p.get("second")})


def case_composite(p, ctx):
    case_opt(p, ctx)


# --------------------------------------------------------------------------- histories
def case_instances(p, ctx):
    """One library instance executed on several problems (some with observables): each execution is held to every oracle."""
    from gemseo.algos.doe.factory import DOELibraryFactory
    from gemseo.algos.opt.factory import OptimizationLibraryFactory

    kind, algo = p["kind"], p["algo"]
    if algo not in caps()[kind]:
        ctx.cls("algorithm_not_in_factory")
        return
    lib = (OptimizationLibraryFactory() if kind == "opt" else DOELibraryFactory()).create(algo)
    ctx.cls(f"instance:{kind}")
    observable_then_none = False
    seen_observable = False
    for step in p["steps"]:
        has_obs = bool(step["problem"].get("obs"))
        if seen_observable and not has_obs:
            observable_then_none = True
        seen_observable = seen_observable or has_obs
        if kind == "opt":
            status, _ = case_opt(dict(step, second=None), ctx, lib=lib)
        else:
            status = case_doe(dict(step, second=None), ctx, lib=lib)
        if status != "done":
            return  # an excluded class or a harness cut may leave the instance in an unspecified state
    if observable_then_none:
        ctx.cls("instance_observable_then_plain_problem")
        ctx.nontriv(p)


def case_mixed(p, ctx):
    """An optimisation, possibly ended by an exception of a user function, then a DOE on the same problem."""
    opt, doe = p["opt"], p["doe"]
    if doe["algo"] not in caps()["doe"]:
        ctx.cls("algorithm_not_in_factory")
        return
    status, h = case_opt(dict(opt, second=None), ctx)
    if status not in ("done", "user_raised") or h is None:
        return
    ctx.cls("mixed_after_user_exception" if status == "user_raised" else "mixed_after_result")
    if status == "user_raised" and ctx.known(K_STALE_CALLBACK):
        ctx.cls("excluded_by_known_finding")
        return
    if any(k.startswith("kkt_tol") for k in opt["settings"]) and caps()["opt"][opt["algo"]]["kkt"] and ctx.known(K_KKT_LISTENER):
        ctx.cls("excluded_by_known_finding")
        return
    if h.state["runaway"]:
        return
    for counted in h.counted:
        counted.raise_rule = None  # the DOE sees well-behaved functions
        counted.raised_keys.clear()
    old_keys = {point_key(k) for k in h.db_keys()}
    marks = h.mark()
    np.random.seed(int(doe["seed"]))
    _, samples = _run_doe(h, doe, ctx, "DOE after the optimisation")
    if _signed_zero_twins(samples):
        ctx.cls("doe_signed_zero_twin_samples_no_verdict")
        return
    stats = _doe_oracles(h, doe, ctx, "DOE after the optimisation", samples, old_keys, marks, None)
    if stats["n_fresh"]:
        ctx.nontriv(p)


def _timed(fn):
    import os
    import time

    if not os.environ.get("C03_DEBUG_TIMING"):
        return fn

    def wrapper(p, ctx):
        t0 = time.time()
        try:
            return fn(p, ctx)
        finally:
            if time.time() - t0 > 1.0:
                print("SLOW", round(time.time() - t0, 1), p.get("algo"), p.get("max_iter"), p.get("stop"), p.get("second"), p.get("settings"), flush=True)

    return wrapper


# --------------------------------------------------------------------------- DOE oracle
def _doe_settings(p, h, seed_shift=0):
    s = dict(p["settings"])
    if "__levels__" in s:
        return {"samples": custom_samples(h.space, s["__levels__"])}
    if "initial_point" in s:
        s["initial_point"] = np.array(s["initial_point"], dtype=float)
    if seed_shift:
        for key in ("seed", "random_state"):
            if key in s:
                s[key] = int(s[key]) + seed_shift
        if "doe_algo_settings" in s and "random_state" in s["doe_algo_settings"]:
            s["doe_algo_settings"] = dict(s["doe_algo_settings"], random_state=int(s["doe_algo_settings"]["random_state"]) + seed_shift)
    return s


def _run_doe(h, p, ctx, where, seed_shift=0, lib=None, **more):
    from gemseo.algos.doe.factory import DOELibraryFactory
    from gemseo.algos.optimization_result import OptimizationResult

    if lib is None:
        lib = DOELibraryFactory().create(p["algo"])
    settings = _doe_settings(p, h, seed_shift)
    parallel = int(p.get("n_processes", 1)) > 1
    try:
        # the forked workers print the traceback of a refused sample on sys.stderr (inherited through the fork)
        with warnings.catch_warnings(), (contextlib.redirect_stderr(io.StringIO()) if parallel else contextlib.nullcontext()):
            warnings.simplefilter("ignore")
            if p.get("max_time"):
                more = dict(more, max_time=float(p["max_time"]))
            result = lib.execute(h.problem, eval_jac=bool(p["eval_jac"]), normalize_design_space=bool(p["normalize_design_space"]),
                                 n_processes=int(p.get("n_processes", 1)), **settings, **more)
    except Exception as exc:  # noqa: BLE001
        ctx.fail("doe_returns", f"{where}: {p['algo']}.execute raised {type(exc).__name__}: {str(exc)[:300]}")
    ctx.check(isinstance(result, OptimizationResult), "doe_returns", f"{where}: execute returned {type(result).__name__}")
    samples = np.asarray(lib.samples)
    ctx.check(samples.ndim == 2 and samples.shape[1] == h.space.dim, "doe_samples", f"{where}: samples have shape {samples.shape}")
    return result, samples.real.astype(float)


def _match(key, sample, tol):
    return key.shape == sample.shape and bool(np.all(np.abs(key - sample) <= tol))


def _static_rule_keys(h, samples, attr):
    """Samples on which a half-space rule hits, decided from the sample alone (parallel runs leave no call record)."""
    out = set()
    for counted in h.counted:
        rule = getattr(counted, attr)
        if rule is not None and rule["kind"] == "half":
            out |= {point_key(srow) for srow in samples if counted.hits(rule, srow, None)}
    return out


def _doe_oracles(h, p, ctx, where, samples, old_keys, marks, budget_left):
    """Compare the database and the call records with the generated samples.

    ``old_keys``: keys present before this execution; ``budget_left``: None (all samples allowed) or the
    number of new entries the kept counter still allows.
    """
    space = h.space
    exact = not p["normalize_design_space"]
    # normalise / unnormalise round trip: a few ulp of the bound scale
    tol = 0.0 if exact else 4 * np.finfo(float).eps * np.maximum(np.maximum(np.abs(space.lb), np.abs(space.ub)), space.ub - space.lb)
    raw = {point_key(k): k for k in h.db_keys()}  # keys in their own dtype (int64 for all-integer spaces) for look-ups
    keys = [k.real.astype(float) for k in h.db_keys()]
    new_keys = [k for k in keys if point_key(k) not in old_keys]
    parallel = int(p.get("n_processes", 1)) > 1
    failing = set()
    nan_keys = set()
    for counted in h.counted:
        failing |= counted.raised_keys
        nan_keys |= counted.nan_keys
    if parallel:
        failing = _static_rule_keys(h, samples, "raise_rule")
        nan_keys = _static_rule_keys(h, samples, "nan_rule")
    # distinct samples in generation order (a sample equal to an old key is not new)
    distinct = []
    for srow in samples:
        if not any(_match(d, srow, tol) for d in distinct):
            distinct.append(srow)
    n_dup = len(samples) - len(distinct)

    def key_of(srow, pool):
        for k in pool:
            if _match(k, srow, tol):
                return k
        return None

    old_arr = [np.frombuffer(k, dtype=float) for k in old_keys]
    fresh = [srow for srow in distinct if key_of(srow, old_arr) is None]
    # every new key is a generated sample
    for k in new_keys:
        ctx.check(any(_match(k, srow, tol) for srow in fresh), "doe_keys", f"{where}: database key {k.tolist()} is not a generated sample")
    # physical point seen by the callables for a sample: the database key when it exists, else the sample itself
    def seen_key(srow):
        k = key_of(srow, new_keys)
        if k is not None:
            return point_key(k)
        for counted in h.counted:
            for key in counted.order:
                if _match(np.frombuffer(key, dtype=float), srow, tol):
                    return key
        return point_key(srow)

    fresh_ok = [srow for srow in fresh if seen_key(srow) not in failing]
    new_ok_keys = [k for k in new_keys if point_key(k) not in failing]
    if budget_left is None:
        expected = fresh_ok
    else:
        ctx.check(len(new_keys) <= budget_left, "doe_budget",
                  f"{where}: {len(new_keys)} new entries although the kept counter only allowed {budget_left}")
        expected = fresh_ok[: len(new_ok_keys)]  # a prefix, in generation order
    ctx.check(len(new_ok_keys) == len(expected) and all(_match(k, srow, tol) for k, srow in zip(new_ok_keys, expected)), "doe_order",
              f"{where}: database keys of the non-failing samples are not the de-duplicated samples in generation order",
              keys=[k.tolist() for k in new_ok_keys][:12], samples=[srow.tolist() for srow in expected][:12])
    # each distinct sample evaluated exactly once by every function, exact value recorded
    names = [h.obj_name, *h.con_names, *h.obs_names]  # same order as h.counted
    for k in new_ok_keys:
        kb = point_key(k)
        for i, (counted, name) in enumerate(zip(h.counted, names)):
            n_calls = counted.n_calls_at(kb, "f", marks[i])
            ctx.check(n_calls == 1 or parallel, "doe_once", f"{where}: function {counted.poly.name} was called {n_calls} times at sample {k.tolist()}")
            stored = h.problem.database.get_function_value(name, raw[kb])
            ctx.check(stored is not None, "doe_values", f"{where}: no value of {name} recorded at sample {k.tolist()}")
            ref = np.atleast_1d(counted.poly.value(k))
            if i == 0 and h.spec.get("maximize"):
                ref = -ref
            got = np.atleast_1d(np.asarray(stored, dtype=float))
            is_nan = kb in counted.nan_keys or (parallel and counted.nan_rule is not None and counted.hits(counted.nan_rule, k, None))
            if is_nan:
                ctx.check(got.shape == ref.shape and bool(np.isnan(got).all()), "doe_values", f"{where}: NaN value of {name} not recorded as NaN")
            else:
                # the same polynomial evaluated on a view and on a copy of the sample: BLAS may sum in another order
                err = 16 * np.finfo(float).eps * max(counted.poly.magnitude(k), 1e-300)
                ctx.check(got.shape == ref.shape and bool(np.all(np.abs(got - ref) <= err)), "doe_values",
                          f"{where}: {name} recorded as {got.tolist()} at {k.tolist()}, the function returned {ref.tolist()}")
            if p["eval_jac"]:
                jac_is_nan = kb in counted.jac_nan_keys or (parallel and counted.jac_nan_rule is not None and counted.hits(counted.jac_nan_rule, k, None))
                stored_jac = h.problem.database.get_function_value("@" + name, raw[kb])
                ctx.check(stored_jac is not None, "doe_values", f"{where}: no Jacobian of {name} recorded at sample {k.tolist()} (eval_jac=True)")
                got_nan = bool(np.isnan(np.asarray(stored_jac, dtype=float)).any())
                ctx.check(got_nan == jac_is_nan, "doe_values",
                          f"{where}: Jacobian of {name} at {k.tolist()} recorded {'with' if got_nan else 'without'} NaN, the function returned one {'with' if jac_is_nan else 'without'}")
                n_j = counted.n_calls_at(kb, "j", marks[i])
                ctx.check(n_j == 1 or parallel, "doe_once", f"{where}: Jacobian of {counted.poly.name} was called {n_j} times at sample {k.tolist()}")
    # failing samples: nothing was recorded for them, so a duplicate of a failing sample may be tried again, but never
    # more often than it occurs in the design
    for kb in failing:
        occurrences = sum(1 for srow in samples if _match(np.frombuffer(kb, dtype=float), srow, tol))
        for i, counted in enumerate(h.counted):
            n_calls = counted.n_calls_at(kb, "f", marks[i])
            ctx.check(n_calls <= max(1, occurrences), "doe_once",
                      f"{where}: function {counted.poly.name} was called {n_calls} times at a failing sample occurring {occurrences} times")
    # nothing else was evaluated
    allowed_pts = {seen_key(srow) for srow in fresh} | {point_key(k) for k in new_keys}
    for counted, m in zip(h.counted, marks):
        for key in counted.distinct_points(m):
            ctx.check(key in allowed_pts or key in old_keys, "doe_keys",
                      f"{where}: function {counted.poly.name} was called at {np.frombuffer(key, dtype=float).tolist()}, which is not a generated sample")
    return {"n_samples": len(samples), "n_distinct": len(distinct), "n_dup": n_dup, "n_fresh": len(fresh), "n_failing": len(failing),
            "n_new": len(new_keys), "n_nan": len(nan_keys)}


def _signed_zero_twins(samples) -> bool:
    """Two samples equal as numbers but not as bytes (-0.0 against 0.0, produced by rounding integer components)."""
    by_value = {}
    for srow in samples:
        by_value.setdefault((srow + 0.0).tobytes(), set()).add(srow.tobytes())
    return any(len(v) > 1 for v in by_value.values())


def case_doe(p, ctx, lib=None):
    cd = caps()["doe"]
    algo = p["algo"]
    if algo not in cd:
        ctx.cls("algorithm_not_in_factory")
        return "skipped"
    seed = int(p["seed"])
    np.random.seed(seed)
    try:
        import openturns

        openturns.RandomGenerator.SetSeed(seed)
    except ImportError:
        pass
    if p["normalize_design_space"] and ctx.known(K_DOE_NORM):
        ctx.cls("excluded_by_known_finding")
        return "excluded"
    h = HarnessProblem(p["problem"], cap=CAP_CALLS)
    h.normalized = bool(p["normalize_design_space"])
    ctx.cls(f"doe:{algo}")
    if p["problem"].get("obs"):
        ctx.cls("doe_with_observable")
    marks = h.mark()
    parallel = int(p.get("n_processes", 1)) > 1
    if p.get("max_time") and parallel and ctx.known(K_PARALLEL_TIME):
        ctx.cls("excluded_by_known_finding")
        return "excluded"
    result, samples = _run_doe(h, p, ctx, "first execution", lib=lib)
    if _signed_zero_twins(samples):
        ctx.cls("doe_signed_zero_twin_samples_no_verdict")
        return "no_verdict"
    if p.get("max_time"):
        # the time limit fires at the first recorded sample: at most one evaluated entry, every key a generated sample,
        # and no output-less placeholder left behind
        ctx.cls("doe_time_limit")
        tol = 4 * np.finfo(float).eps * np.maximum(np.maximum(np.abs(h.space.lb), np.abs(h.space.ub)), h.space.ub - h.space.lb)
        empty = [np.asarray(k.wrapped_array).real.tolist() for k, v in h.problem.database.items() if not v]
        ctx.check(not empty, "doe_keys", f"max_time=1e-9: {len(empty)} database entries without any output are left behind", entries=empty[:6])
        for k in h.db_keys():
            ctx.check(any(_match(k.real.astype(float), srow, tol) for srow in samples), "doe_keys",
                      f"max_time=1e-9: database key {k.real.tolist()} is not a generated sample")
        n_filled = h.n_filled()
        ctx.check(n_filled <= 1, "termination", f"max_time=1e-9: {n_filled} samples were recorded before the time limit fired")
        ctx.check("Maximum time reached" in str(result.message) or n_filled == 0, "termination",
                  f"max_time=1e-9 but the message is {result.message!r}")
        ctx.nontriv(p)
        return "done"
    stats = _doe_oracles(h, p, ctx, "first execution", samples, set(), marks, None)
    counter = int(h.problem.evaluation_counter.current)
    ctx.check(counter == stats["n_new"], "counter", f"the evaluation counter holds {counter} after a DOE that created {stats['n_new']} entries")
    if stats["n_dup"]:
        ctx.cls("doe_duplicated_samples")
    if stats["n_failing"]:
        ctx.cls("doe_failing_samples")
    if stats["n_nan"]:
        ctx.cls("doe_nan_values")
    if p["problem"].get("jac_nan") is not None:
        ctx.cls("doe_nan_jacobian_rule")
        if any(c.jac_nan_keys for c in h.counted):
            ctx.cls("doe_nan_jacobian_returned")
    if p["normalize_design_space"]:
        ctx.cls("doe_normalized")
    if p["eval_jac"]:
        ctx.cls("doe_eval_jac")
    if int(p.get("n_processes", 1)) > 1:
        ctx.cls("doe_parallel")
    if any(v["type"] == "integer" for v in p["problem"]["space"]["vars"]):
        ctx.cls("doe_integer_variables")
    if stats["n_dup"] or stats["n_failing"]:
        ctx.nontriv(p)
    ctx.extra["max_doe_samples"] = max(ctx.extra.get("max_doe_samples", 0), stats["n_samples"])

    second = p.get("second")
    if second is not None:
        reset = bool(second["reset"])
        ctx.cls("doe_second_execution", "doe_second_reset" if reset else "doe_second_keeps_counters")
        old_keys = {point_key(k) for k in h.db_keys()}
        marks2 = h.mark()
        for counted in h.counted:
            counted.raised_keys.clear()
        _, samples2 = _run_doe(h, p, ctx, "second execution", seed_shift=0 if second["same_seed"] else 1, reset_iteration_counters=reset)
        if _signed_zero_twins(np.vstack([samples, samples2])):
            ctx.cls("doe_signed_zero_twin_samples_no_verdict")
            return "no_verdict"
        left = None if reset else max(0, len(samples2) - counter)
        if left is not None and int(p.get("n_processes", 1)) > 1 and ctx.known(K_PARALLEL_KEPT):
            left = len(samples2)  # known finding: the forked workers test copies of the counter, a kept counter is ignored
        stats2 = _doe_oracles(h, p, ctx, "second execution", samples2, old_keys, marks2, left)
        if stats2["n_fresh"]:
            ctx.cls("doe_second_with_new_samples")
            if left is not None and stats2["n_new"] < stats2["n_fresh"] - stats2["n_failing"]:
                ctx.cls("doe_second_cut_by_kept_counter")
                ctx.nontriv(("second", p))
    ctx.sample({"oracle": "doe", "algo": algo, "settings": p["settings"], **stats, "second": p.get("second")})
    return "done"


ORACLES = {"opt": case_opt, "composite": case_composite, "doe": case_doe, "instances": case_instances, "mixed": case_mixed}


def run(ctx):
    cp = caps()
    names = sorted(cp["opt"])
    single = [n for n in names if not cp["opt"][n]["composite"]]
    composite = [n for n in names if cp["opt"][n]["composite"] and n not in EXCLUDED_ALGORITHMS]
    ctx.extra["skipped_algorithms"] = absent_optional_packages()
    ctx.extra["excluded_algorithms"] = [f"{k}: {v}" for k, v in EXCLUDED_ALGORITHMS.items()]
    ctx.extra["optimization_algorithms"] = names
    ctx.extra["doe_algorithms"] = sorted(cp["doe"])
    non_global = [n for n in single if not cp["opt"][n]["global"]]
    # one drive per algorithm: every algorithm is exercised at every seed; once an oracle family has reported a
    # violation its remaining drives are skipped (each would spend its own shrinking budget on the same defect)
    def failed(oracle):
        return any(v["oracle"] == oracle for v in ctx.violations)

    shrink = 15.0 if ctx.tier == "quick" else 120.0
    for name in single:
        if not failed("opt"):
            ctx.drive("opt", opt_cases(cp["opt"], [name], non_global), _timed(case_opt), quick=(40 if cp["opt"][name]["library"] == "Nlopt" else 32) if cp["opt"][name]["grad"] else 16,
                      thorough=90, shrink_s=shrink)
    for name in composite:
        if not failed("composite"):
            ctx.drive("composite", opt_cases(cp["opt"], [name]), _timed(case_composite), quick=10, thorough=80, shrink_s=shrink)
    if not failed("opt") and not failed("doe"):
        ctx.drive("instances", instance_cases(cp["opt"], non_global, cp["doe"], sorted(cp["doe"])), _timed(case_instances),
                  quick=40, thorough=250, shrink_s=shrink)
        ctx.drive("mixed", mixed_cases(cp["opt"], non_global, cp["doe"]), _timed(case_mixed), quick=40, thorough=250, shrink_s=shrink)
    for name in sorted(cp["doe"]):
        if not failed("doe"):
            ctx.drive("doe", doe_cases(cp["doe"], [name]), _timed(case_doe), quick=6, thorough=50, shrink_s=shrink)
