"""C04 - The reported optimum is the best point of the recorded history.

Generated histories are stored by hand in the database of an OptimizationProblem
(nothing is executed); after every prefix the reported solution is compared with an
independent implementation of the documented selection rule.
"""

from __future__ import annotations

import math

import numpy as np
from hypothesis import strategies as st

from vlib.core import unjson_float

PROPERTY = "C04"
LEVEL = "exploration"
RULE = (
    "Hypothesis draws a problem description (1-3 design variables, 0-3 eq/ineq constraints of dim 1-3, "
    "tolerances incl. 0, minimise/maximise, standardised or original reporting) and a history of 1-10 "
    "distinct points whose records may miss the objective or some constraints, hold NaN, floats, size-1 "
    "arrays or vectors, ties and gradients; after every prefix problem.optimum, history.feasible_points, "
    "history.last_point and OptimizationResult.from_optimization_problem are compared with a reference "
    "selection rule; multi-objective histories are checked against an O(n^2) dominance test. "
    "Non-trivial = prefix with >=2 feasible points with distinct objectives, or no feasible point and >=2 "
    "distinct violation measures among fully recorded points (Pareto: >=2 feasible, mutually non-dominated "
    "points plus a dominated one); distinct = structural hash of the drawn history."
)
ASSUMPTIONS = [
    "database keys are distinct points without -0.0 (byte-hashed keys)",
    "for points with partially recorded constraints the property defines no violation measure: only "
    "'recorded point, flagged infeasible, own fields' is required of them",
    "violation measures are compared with a relative margin of 1e-9 (the code and the reference sum squares in different orders)",
]

VALS = [-2.0, -1.0, -0.5, -0.1, -0.01, 0.0, 0.01, 0.05, 0.1, 0.5, 1.0, 2.0]
NEAR = [1e-5, 2e-5, 6e-5, -1e-5, -3e-5, 0.011, 0.02, 0.05, 0.09, 0.11, 0.15, 0.2, -0.011, -0.02, -0.09, -0.11, -0.15]


def _val():
    return st.one_of(st.sampled_from(VALS), st.sampled_from(VALS), st.floats(-3, 3, allow_nan=False).map(lambda v: round(v, 3) + 0.0), st.just("NaN"))


def _entry(dim: int, allow_scalar: bool = True):
    """A recorded value: python float, size-1 array, or vector of the function's dimension."""
    if dim == 1 and allow_scalar:
        return st.one_of(
            st.none(),
            st.fixed_dictionaries({"kind": st.sampled_from(["float", "arr"]), "v": st.lists(_val(), min_size=1, max_size=1)}),
        )
    return st.one_of(st.none(), st.fixed_dictionaries({"kind": st.just("arr"), "v": st.lists(_val(), min_size=dim, max_size=dim)}))


@st.composite
def histories(draw, multi_objective: bool = False):
    n_x = draw(st.integers(1, 3))
    n_c = draw(st.integers(0, 3))
    cons = [
        {"type": draw(st.sampled_from(["eq", "ineq"])), "dim": draw(st.integers(1, 3)), "positive": draw(st.booleans()),
         "value": draw(st.sampled_from([0.0, 0.0, 1.0, -0.5]))}
        for _ in range(n_c)
    ]
    obj_dim = draw(st.integers(2, 3)) if multi_objective else 1
    tol = st.sampled_from([0.0, 0.01, 0.1, 1e-6])
    n_pts = draw(st.integers(1, 10))
    near = draw(st.integers(0, 3)) == 0  # a quarter of the histories: only nearly feasible points
    xs = draw(st.lists(st.lists(st.integers(-3, 3), min_size=n_x, max_size=n_x), min_size=n_pts, max_size=n_pts, unique_by=tuple))
    points = []
    for x in xs:
        # bias towards fully recorded points, keep partial records frequent
        full = draw(st.integers(0, 3)) > 0
        f = draw(_entry(obj_dim, allow_scalar=not multi_objective))
        if full and f is None:
            f = draw(_entry(obj_dim, allow_scalar=not multi_objective))
        c = []
        feasible_intent = draw(st.booleans()) and not near  # half of the points are feasible by construction
        for con in cons:
            if near:
                # violations of the order of the tolerances, or nearly equal tiny ones: the ranking of the infeasible
                # points depends on which tolerance is applied to which constraint type and on exact comparisons
                e = {"kind": draw(st.sampled_from(["float", "arr"])) if con["dim"] == 1 else "arr",
                     "v": draw(st.lists(st.sampled_from(NEAR), min_size=con["dim"], max_size=con["dim"]))}
            elif feasible_intent:
                pool = [0.0] if con["type"] == "eq" else [-2.0, -1.0, -0.5, -0.1, -0.01, 0.0]
                e = {"kind": draw(st.sampled_from(["float", "arr"])) if con["dim"] == 1 else "arr",
                     "v": draw(st.lists(st.sampled_from(pool), min_size=con["dim"], max_size=con["dim"]))}
            else:
                e = draw(_entry(con["dim"]))
                if full and e is None:
                    e = draw(_entry(con["dim"]))
            c.append(e)
        points.append({"x": x, "f": f, "c": c, "grad": draw(st.booleans())})
    return {
        "n_x": n_x, "cons": cons, "obj_dim": obj_dim, "tol_eq": draw(tol), "tol_ineq": draw(tol),
        "minimize": draw(st.booleans()), "std": draw(st.booleans()), "points": points,
    }


# --------------------------------------------------------------------------- building the real problem
def _to_value(e):
    if e is None:
        return None
    v = [unjson_float(u) for u in e["v"]]
    if e["kind"] == "float":
        return float(v[0])
    return np.array(v, dtype=float)


def build_problem(p):
    from gemseo.algos.design_space import DesignSpace
    from gemseo.algos.optimization_problem import OptimizationProblem
    from gemseo.core.mdo_functions.mdo_function import MDOFunction

    ds = DesignSpace()
    ds.add_variable("x", p["n_x"], lower_bound=-10.0, upper_bound=10.0, value=0.0)
    problem = OptimizationProblem(ds)
    od = p["obj_dim"]
    problem.objective = MDOFunction(lambda x, od=od: np.zeros(od) if od > 1 else 0.0, "f", dim=od)
    for i, con in enumerate(p["cons"]):
        d = con["dim"]
        problem.add_constraint(
            MDOFunction(lambda x, d=d: np.zeros(d), f"c{i}", dim=d),
            value=con["value"], constraint_type=con["type"], positive=con["positive"],
        )
    problem.minimize_objective = p["minimize"]
    problem.use_standardized_objective = p["std"]
    problem.tolerances.equality = p["tol_eq"]
    problem.tolerances.inequality = p["tol_ineq"]
    problem.preprocess_functions(is_function_input_normalized=False)
    return problem


def records_of(p, problem):
    """The history as a list of (x, {name: value}) using the problem's own (standardised) names."""
    obj_name = problem.objective.name
    c_names = [c.name for c in problem.constraints]
    recs = []
    for k, pt in enumerate(p["points"]):
        x = np.array(pt["x"], dtype=float) * 0.5
        out = {}
        f = _to_value(pt["f"])
        if f is not None:
            out[obj_name] = f
        for name, con, e in zip(c_names, p["cons"], pt["c"]):
            v = _to_value(e)
            if v is not None:
                out[name] = v
                if pt["grad"]:
                    out["@" + name] = np.full((con["dim"], p["n_x"]), float(k + 1))
        recs.append((x, out))
    return recs, obj_name, c_names


# --------------------------------------------------------------------------- reference rule
def ref_satisfied(ctype, v, tol_eq, tol_ineq) -> bool:
    a = np.atleast_1d(np.asarray(v, dtype=float))
    if ctype == "eq":
        return bool(np.all(np.abs(a) <= tol_eq))
    return bool(np.all(a <= tol_ineq))


def ref_feasible(out, c_names, cons, tol_eq, tol_ineq) -> bool:
    for name, con in zip(c_names, cons):
        if name not in out or not ref_satisfied(con["type"], out[name], tol_eq, tol_ineq):
            return False
    return True


def ref_fully_recorded(out, c_names) -> bool:
    return all(name in out for name in c_names)


def ref_measure(out, c_names, cons, tol_eq, tol_ineq) -> float:
    """Docstring formula of check_design_point_is_feasible (fully recorded points only)."""
    total = 0.0
    for name, con in zip(c_names, cons):
        a = np.atleast_1d(np.asarray(out[name], dtype=float))
        if np.isnan(a).any():
            return math.inf
        if con["type"] == "eq":
            exc = np.maximum(np.abs(a) - tol_eq, 0.0)
        else:
            exc = np.maximum(a - tol_ineq, 0.0)
        total += float(np.sum(exc**2))
    return total


def scalar_obj(v):
    """Standardised objective of a record as a float (None if absent or NaN)."""
    if v is None:
        return None
    a = np.atleast_1d(np.asarray(v, dtype=float))
    if a.size != 1 or np.isnan(a[0]):
        return None
    return float(a[0])


def same_value(a, b) -> bool:
    if a is None or b is None:
        return a is None and b is None
    a, b = np.asarray(a, dtype=float), np.asarray(b, dtype=float)
    return a.shape == b.shape and bool(np.all((a == b) | (np.isnan(a) & np.isnan(b))))


def find_record(recs, x):
    x = np.asarray(x)
    for i, (xr, _) in enumerate(recs):
        if xr.shape == x.shape and np.array_equal(xr, x):
            return i
    return None


# --------------------------------------------------------------------------- oracles
def case_selection(p, ctx):
    from gemseo.algos.optimization_result import OptimizationResult

    problem = build_problem(p)
    recs_all, obj_name, c_names = records_of(p, problem)
    cons, te, ti = p["cons"], p["tol_eq"], p["tol_ineq"]
    db = problem.database
    sampled = False
    for k, (x, out) in enumerate(recs_all):
        db.store(x, dict(out))
        recs = recs_all[: k + 1]
        feas = [ref_feasible(o, c_names, cons, te, ti) for _, o in recs]
        objs = [scalar_obj(o.get(obj_name)) for _, o in recs]
        feas_with_obj = [i for i in range(k + 1) if feas[i] and objs[i] is not None]

        # ---- feasible_points
        fx, ff = problem.history.feasible_points
        exp = [i for i in range(k + 1) if feas[i]]
        ctx.check(len(fx) == len(exp) and all(np.array_equal(fx[j], recs[i][0]) for j, i in enumerate(exp)),
                  "feasible_points", f"feasible_points lists {len(fx)} points, reference {len(exp)}", prefix=k + 1)

        # ---- last point
        last = problem.history.last_point
        ctx.check(np.array_equal(last.design, x), "last_point", "last_point.design is not the last stored point", prefix=k + 1)
        ctx.check(bool(last.is_feasible) == feas[k], "last_point", f"last_point.is_feasible={last.is_feasible}, reference {feas[k]}", prefix=k + 1)
        ctx.check(same_value(last.objective, out.get(obj_name)), "last_point", "last_point.objective is not the recorded one", prefix=k + 1)
        for name in c_names:
            ctx.check(same_value(last.constraints[name], out.get(name)), "last_point", f"last_point constraint {name} differs", prefix=k + 1)

        # ---- optimum
        any_feasible = any(feas)
        if any_feasible and not feas_with_obj:
            ctx.cls("feasible_points_but_none_with_objective")
        sol = problem.optimum
        idx = find_record(recs, sol.design)
        ctx.check(idx is not None, "optimum_recorded", f"reported design {sol.design!r} is not a recorded point", prefix=k + 1)
        rec_out = recs[idx][1]
        ctx.check(bool(sol.is_feasible) == any_feasible, "optimum_flag",
                  f"is_feasible={sol.is_feasible} but reference says a feasible point {'exists' if any_feasible else 'does not exist'}", prefix=k + 1)
        if any_feasible:
            ctx.check(feas[idx], "optimum_feasible", "a feasible point exists but the reported point is infeasible", prefix=k + 1, index=idx)
            if feas_with_obj:
                best = min(objs[i] for i in feas_with_obj)
                ctx.check(objs[idx] is not None and objs[idx] <= best, "optimum_best",
                          f"reported objective {objs[idx]} but a feasible point has {best}", prefix=k + 1, index=idx)
                ctx.check(same_value(np.atleast_1d(sol.objective), np.atleast_1d(rec_out[obj_name])), "optimum_fields",
                          f"reported objective {sol.objective!r} is not the one recorded at the reported point", prefix=k + 1)
        else:
            if ref_fully_recorded(rec_out, c_names):
                m_rep = ref_measure(rec_out, c_names, cons, te, ti)
                for i, (_, o) in enumerate(recs):
                    if ref_fully_recorded(o, c_names):
                        m = ref_measure(o, c_names, cons, te, ti)
                        ctx.check(not (m < m_rep * (1 - 1e-9) - 1e-300), "optimum_least_infeasible",
                                  f"reported point has violation {m_rep}, recorded point {i} has {m}", prefix=k + 1, index=idx)
            else:
                ctx.cls("least_infeasible_is_partial_record")
            if obj_name in rec_out:
                ctx.check(same_value(np.atleast_1d(sol.objective), np.atleast_1d(rec_out[obj_name])), "optimum_fields",
                          "reported objective is not the one recorded at the reported point", prefix=k + 1)
        for name in c_names:
            ctx.check(same_value(sol.constraints.get(name), rec_out.get(name)), "optimum_fields",
                      f"constraint {name}: reported {sol.constraints.get(name)!r}, recorded {rec_out.get(name)!r}", prefix=k + 1, index=idx)
            ctx.check(same_value(sol.constraint_jacobian.get(name), rec_out.get("@" + name)), "optimum_fields",
                      f"gradient of {name} is not the one recorded at the reported point", prefix=k + 1, index=idx)

        # ---- OptimizationResult
        res = OptimizationResult.from_optimization_problem(problem)
        ctx.check(np.array_equal(res.x_opt, sol.design), "result", "x_opt differs from problem.optimum", prefix=k + 1)
        ctx.check(res.optimum_index == idx, "result", f"optimum_index={res.optimum_index}, the reported point is entry {idx}", prefix=k + 1)
        ctx.check(bool(res.is_feasible) == any_feasible, "result", "is_feasible differs", prefix=k + 1)
        std_f = scalar_obj(rec_out.get(obj_name))
        if std_f is not None:
            exp_f = std_f if (p["minimize"] or p["std"]) else -std_f
            ctx.check(res.f_opt is not None and float(np.atleast_1d(res.f_opt)[0]) == exp_f, "result_sign",
                      f"f_opt={res.f_opt!r}, expected {exp_f} (minimize={p['minimize']}, standardized={p['std']})", prefix=k + 1)
            exp_name = obj_name if (p["minimize"] or p["std"]) else "f"
            ctx.check(res.objective_name == exp_name, "result_sign", f"objective_name={res.objective_name!r}, expected {exp_name!r}")
        for name in c_names:
            ctx.check(same_value(res.constraint_values.get(name), rec_out.get(name)), "result", f"constraint_values[{name}] differs", prefix=k + 1)
            ctx.check(same_value(res.constraints_grad.get(name), rec_out.get("@" + name)), "result", f"constraints_grad[{name}] differs", prefix=k + 1)
        ctx.check(np.array_equal(res.x_0, recs[0][0]), "result", "x_0 is not the first recorded point", prefix=k + 1)

        # ---- classification
        if len({objs[i] for i in feas_with_obj}) >= 2:
            ctx.nontriv(("feas", p["cons"], te, ti, p["minimize"], p["std"], p["points"][: k + 1]))
            ctx.cls("prefix_with_>=2_feasible_distinct_objectives")
        elif not any_feasible and c_names:
            ms = {ref_measure(o, c_names, cons, te, ti) for _, o in recs if ref_fully_recorded(o, c_names)}
            if len(ms) >= 2:
                ctx.nontriv(("infeas", p["cons"], te, ti, p["points"][: k + 1]))
                ctx.cls("prefix_infeasible_>=2_distinct_measures")
        if c_names and feas_with_obj:
            best_i = min(feas_with_obj, key=lambda i: (objs[i], i))
            earlier_with_grad = any(i < best_i and ("@" + c_names[0]) in recs[i][1] for i in feas_with_obj)
            if earlier_with_grad and ("@" + c_names[0]) not in recs[best_i][1]:
                ctx.cls("best_feasible_point_without_gradient_after_feasible_point_with_gradient")
        if len(feas_with_obj) >= 2 and len({objs[i] for i in feas_with_obj}) < len(feas_with_obj):
            ctx.cls("tie_among_feasible")
        if any(isinstance(v, np.ndarray) and np.isnan(v).any() or isinstance(v, float) and math.isnan(v) for v in out.values()):
            ctx.cls("nan_value")
        if obj_name not in out:
            ctx.cls("missing_objective")
        if not ref_fully_recorded(out, c_names):
            ctx.cls("missing_constraint")
    if not p["minimize"]:
        ctx.cls("maximisation")
    if not sampled:
        ctx.sample({"oracle": "selection", "case": p})


def ref_dominates(a, b) -> bool:
    """a dominates b (minimisation): a <= b everywhere and a < b somewhere."""
    return bool(np.all(a <= b) and np.any(a < b))


def case_pareto(p, ctx):
    from gemseo.algos.pareto.pareto_front import ParetoFront
    from gemseo.algos.pareto.utils import compute_pareto_optimal_points

    problem = build_problem(p)
    recs, obj_name, c_names = records_of(p, problem)
    cons, te, ti = p["cons"], p["tol_eq"], p["tol_ineq"]
    for x, out in recs:
        problem.database.store(x, dict(out))
    n = len(recs)
    feas = [ref_feasible(o, c_names, cons, te, ti) and obj_name in o for _, o in recs]
    objs = [np.asarray(o[obj_name], dtype=float) if obj_name in o else np.full(p["obj_dim"], np.nan) for _, o in recs]
    has_nan = any(feas[i] and np.isnan(objs[i]).any() for i in range(n))
    if has_nan:
        ctx.cls("pareto_nan_objective_at_feasible_point")

    # (1) the low-level function on the same arrays
    mask = compute_pareto_optimal_points(np.array(objs), np.array(feas))
    ctx.check(mask.shape == (n,), "pareto_mask", f"mask shape {mask.shape}")
    nondominated = []
    for i in range(n):
        dominated = any(feas[j] and j != i and ref_dominates(objs[j], objs[i]) for j in range(n))
        if mask[i]:
            ctx.check(feas[i], "pareto_mask", f"infeasible point {i} reported Pareto optimal")
            ctx.check(not dominated, "pareto_mask", f"reported point {i} is dominated by a feasible point")
        if feas[i] and not dominated and not np.isnan(objs[i]).any():
            nondominated.append(i)
    if not has_nan:
        for i in nondominated:
            unique = not any(j != i and feas[j] and np.array_equal(objs[j], objs[i]) for j in range(n))
            if unique:
                ctx.check(bool(mask[i]), "pareto_complete", f"feasible non-dominated point {i} with a unique objective vector is not reported")
            else:
                ctx.cls("pareto_duplicate_objective_vector")

    # (2) the front built from the problem
    if any(feas) and not has_nan and any(mask):
        front = ParetoFront.from_optimization_problem(problem)
        ctx.check(front.f_optima.shape[0] == front.x_optima.shape[0], "pareto_front", "f_optima and x_optima differ in length")
        for f_row, x_row in zip(front.f_optima, front.x_optima):
            i = find_record(recs, x_row)
            ctx.check(i is not None, "pareto_front", "x_optima holds a point that was never recorded")
            ctx.check(feas[i], "pareto_front", f"x_optima holds infeasible point {i}")
            ctx.check(np.array_equal(f_row, objs[i]), "pareto_front", f"f_optima row is not the objective recorded at point {i}")
            ctx.check(not any(feas[j] and ref_dominates(objs[j], objs[i]) for j in range(n)), "pareto_front",
                      f"reported Pareto point {i} is dominated by a feasible point")
        ctx.check(front.f_optima.shape[0] == int(mask.sum()), "pareto_front", "front and mask disagree on the number of optima")
    n_dominated = sum(1 for i in range(n) if feas[i] and i not in nondominated)
    if len(nondominated) >= 2 and n_dominated >= 1:
        ctx.nontriv(("pareto", p))
        ctx.cls("pareto_>=2_nondominated_and_a_dominated_point")
    ctx.sample({"oracle": "pareto", "case": p})


ORACLES = {"selection": case_selection, "pareto": case_pareto}


def run(ctx):
    ctx.drive("selection", histories(False), case_selection, quick=700, thorough=12000)
    ctx.drive("pareto", histories(True), case_pareto, quick=300, thorough=6000)
