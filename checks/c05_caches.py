"""C05 - Discipline caches are transparent.

A generated history of execute / linearize calls (repeated, new, nearly equal, partially
defaulted and in-place modified inputs) is applied to a harness Discipline under a drawn cache
policy and, in lock-step, to an uncached twin and to a plain-numpy reference of the body.
"""

from __future__ import annotations

import logging
import os
import shutil
import tempfile
from collections import Counter

import numpy as np
from hypothesis import strategies as st

logging.getLogger("gemseo").setLevel(logging.ERROR)

PROPERTY = "C05"
LEVEL = "exploration"
RULE = (
    "Hypothesis draws a configuration (cache none / SimpleCache / MemoryFullCache shared or not / HDF5Cache on a fresh file, "
    "root or nested node; tolerance 0, 1e-9 or 1e-3; JSON or Simple grammar; 2-3 inputs with defaults, optional self-coupled "
    "variable whose body returns a new array or updates the received array in place; dense or sparse Jacobian filled in a new dict or through _init_jacobian, all blocks or only the requested ones; "
    "real or deliberately colliding (2-bucket) input hash) and a history of 3-14 operations: execute / linearize "
    "(compute_all or differentiated subset, execute=True or, right after a call at the same input or at any input once outputs exist, execute=False) at a point of a pool of 2-4 grid points (or at the point of the previous call), optionally perturbed "
    "by less than the tolerance, optionally omitting defaulted inputs, passed as fresh arrays or as the caller's persistent "
    "arrays rewritten in place; add_differentiated_inputs/outputs; rebinding of a default; cache.clear(); re-creation of the "
    "discipline on the same HDF5 file/node (singleton kept or forgotten); discipline.set_cache(same or other type, other tolerance) "
    "in the middle of the history (from then on the oracle is that of a fresh cache of the requested policy and tolerance); a "
    "composite step 'linearize without execution with the caller's persistent arrays, then rewrite them in place and execute'; "
    "with tolerance 0 the Jacobians may be approximated by finite differences (compared within 1e-4). After the history every cached entry is requested "
    "once more with fresh arrays. Every returned output / requested Jacobian block is compared (exactly) with the numpy "
    "reference at the completed input (tolerance t>0: at the input or at an earlier requested input within t), the uncached "
    "twin is compared with the reference, the body's run log is compared with 'at most once per distinct completed input' "
    "for full caches, caller arrays are compared before/after each call and a reopened HDF5 cache is compared entry by entry. "
    "A pickle/deepcopy round trip of the cache (SimpleCache, HDF5Cache) may be inserted anywhere: tolerance, entries and last entry "
    "must be unchanged. A fifth drive uses a discipline with a size-agnostic body whose input changes its size between calls "
    "(scalar, constant vectors of the same value, other vectors; non-trivial: a scalar and a constant vector of the same value). "
    "A fourth drive takes an MDOChain of two cached harness disciplines (member caches Simple/MemoryFull with drawn tolerances) as "
    "the subject: executions, analytic or finite-difference linearisations at grid points, assignments of chain.cache.tolerance "
    "(including the value it already has), chain.set_cache and mode switches, against a fully uncached twin chain and the numpy "
    "reference (non-trivial: an approximated Jacobian while a member tolerance exceeds the step, plus an execution). "
    "Non-trivial = history with an exactly repeated completed input, an in-place modification of a caller array passed "
    "earlier, and a linearisation; distinct = structural hash of the drawn (configuration, pool, history)."
)
ASSUMPTIONS = [
    "set_cache towards HDF5 always names a new file (set_cache with the file and node of the current HDF5Cache is documented to "
    "keep that cache); finite-difference Jacobians are only used with exact matching, because the perturbed inputs stay in the cache",
    "chain subject: gemseo documents that the cache tolerance is set to zero while a Jacobian is approximated and that a process "
    "discipline propagates a change of its cache tolerance to its disciplines; a chain without a cache of its own has no such "
    "mechanism and is not generated; all requested points are >= 0.0625 apart at every level of the chain, outputs are compared "
    "exactly until perturbed points were executed and within 1e-4 afterwards",
    "inputs are float64 arrays of the declared sizes on a 0.25 grid (no -0.0: keys are byte-hashed; no NaN: the documented "
    "tolerance criterion norm(new-cached) <= t*(1+norm) is undefined for NaN - the comparison is False, so under a tolerance a NaN "
    "input matches any entry - and the property's quantifier does not list non-finite inputs) plus perturbations "
    "of a[0]; points of different grid classes are >= 0.24 apart, points of one class are < tolerance/2 apart, so 'within t' is "
    "unambiguous for both the documented metric (norm of the cached array) and the implemented one (norm of the new array)",
    "linearize(execute=False) is generated right after a call at the same completed input and also at any other input once the "
    "discipline object holds output values (JobSchedulerDisciplineWrapper.linearize calls Discipline.linearize(execute=False) at "
    "new inputs, SimpleCache.cache_jacobian has a branch for it, and the harness Jacobian only needs the inputs); linearize "
    "without compute_all_jacobians only with non-empty differentiated inputs and outputs",
    "a body that updates the self-coupled array in place modifies the caller's array with or without a cache (gemseo hands the "
    "caller's array to the body): that array is exempt from the caller_arrays comparison, such a discipline always receives y "
    "explicitly (the body would corrupt the default array) and is only executed, not linearised (its input is destroyed)",
    "the caller never modifies arrays returned by the discipline, only arrays it passed in; defaults are rebound, not mutated",
    "cache.clear() is only applied to a non-empty cache (clear() of an empty HDF5Cache raises KeyError: outside the statement) "
    "and starts a new epoch for the run counter",
    "the colliding-hash configuration replaces gemseo.caches.*.hash_data by a deterministic 2-bucket hash for the duration of a "
    "case: the hash is only an index, so transparency must not depend on its quality",
    "with tolerance t>0 outputs and Jacobian may stem from different earlier inputs of the same class (each is 'of a previously "
    "seen input within t')",
]

TOLS = [0.0, 1e-9, 1e-3]
GRID = 0.25
OUT_SPECS = [("y", 2), ("z", 1)]  # plus ("s", 1), a float-typed scalar output, when cfg["scalar_out"] (set per case)
_BASE_OUT_SPECS = [("y", 2), ("z", 1)]
_SCALAR = [False]


def set_out_specs(cfg) -> None:
    """Select the outputs of the harness discipline for the current case."""
    _SCALAR[0] = bool(cfg.get("scalar_out"))
    OUT_SPECS[:] = _BASE_OUT_SPECS + ([("s", 1)] if _SCALAR[0] else [])
CACHE_TYPES = {
    "none": "",
    "simple": "SimpleCache",
    "memory_shared": "MemoryFullCache",
    "memory": "MemoryFullCache",
    "hdf5": "HDF5Cache",
}
FULL = ("memory_shared", "memory", "hdf5")
P6 = "memory_full_unshared_inplace_mutation"
F3 = "stale_jacobian_of_cache_hit_at_linearize_execute_false"


# --------------------------------------------------------------------------- generators
def _op(n_reopen=1):
    return st.fixed_dictionaries({
        "op": st.sampled_from(["exec"] * 9 + ["lin"] * 7 + ["diff"] * 2 + ["setdef", "clear", "setcache", "setcache", "linx", "linx", "pickle", "pickle"] + ["reopen"] * n_reopen),
        "how": st.sampled_from(["pickle", "deepcopy"]),  # for the pickling round trip of the cache
        "new_cache": st.sampled_from(["same", "same", "simple", "memory", "memory_shared", "hdf5"]),  # for setcache
        "new_tol": st.sampled_from([0, 0, 1, 2]),
        "again": st.sampled_from([False, False, False, True, True]),
        "base": st.integers(0, 3),
        "pert": st.sampled_from([0, 0, 0, 1, 1, 2, 3]),
        "mask": st.sampled_from([15, 15, 15, 0, 0, 1, 2, 3, 4, 5, 6, 7, 8, 11, 13, 14]),
        "held": st.booleans(),
        "all": st.booleans(),
        "exe": st.booleans(),
        "free": st.sampled_from([True, True, False]),  # execute=False also allowed at an input other than the one of the previous call
        "ins": st.integers(0, 14),
        "outs": st.integers(0, 2),
        "var": st.integers(0, 2),
        "forget": st.booleans(),
    })


def _base():
    k = st.integers(-6, 6)
    return st.fixed_dictionaries({
        "a": st.lists(k, min_size=2, max_size=2), "b": st.lists(k, min_size=1, max_size=1),
        "c": st.lists(k, min_size=2, max_size=2), "y": st.lists(k, min_size=2, max_size=2),
    })


def histories(caches, n_reopen=1):
    cfg = st.fixed_dictionaries({
        "cache": st.sampled_from(caches),
        "tol": st.sampled_from([0, 0, 1, 2, 2]),
        "sparse": st.booleans(),
        "self_coupled": st.booleans(),
        "n_in": st.sampled_from([2, 3]),
        "grammar": st.sampled_from(["json", "simple"]),
        "jac_init": st.booleans(),
        "jac_requested_only": st.booleans(),
        "weak_hash": st.sampled_from([False, False, False, True]),
        "node": st.sampled_from(["n", "a/b"]),
        "defaults": _base(),
        "scalar_out": st.booleans(),      # a float-typed (non-array) output
        "a_default": st.booleans(),       # every input has a default: execute({}) is reachable
        "rev_defaults": st.booleans(),    # defaults inserted in the reverse of the grammar order
        # Jacobians approximated by finite differences (effective with tolerance 0 and a body returning new arrays)
        "lin_mode": st.sampled_from(["analytic", "analytic", "finite_differences"]),
        "inplace_body": st.sampled_from([False, False, True]),    # the body of a self-coupled discipline updates the received array of y in place
    })
    return st.fixed_dictionaries({
        "cfg": cfg,
        "pool": st.lists(_base(), min_size=2, max_size=4),
        "ops": st.lists(_op(n_reopen), min_size=3, max_size=14),
    })


# --------------------------------------------------------------------------- the body and its reference
def in_specs(cfg):
    """(name, size, has_default) of the inputs."""
    specs = [("a", 2, bool(cfg.get("a_default"))), ("b", 1, True)]
    if cfg["n_in"] == 3:
        specs.append(("c", 2, True))
    if cfg["self_coupled"]:
        specs.append(("y", 2, True))
    return specs


def inplace_body(cfg) -> bool:
    """Whether the body updates the self-coupled input array in place (and returns that same array)."""
    return bool(cfg.get("inplace_body")) and bool(cfg["self_coupled"])


def approximated(cfg) -> bool:
    """Whether linearize approximates the Jacobian by finite differences (step 1e-7)."""
    return cfg.get("lin_mode", "analytic") != "analytic" and cfg["tol"] == 0 and not inplace_body(cfg)


_Z2 = np.zeros(2)


def body(inp):
    """The harness body: polynomial outputs from the (completed) inputs; missing optional inputs count as 0."""
    a, b = inp["a"], inp["b"]
    c, y = inp.get("c", _Z2), inp.get("y", _Z2)
    y_out = np.array([
        a[0] + 2.0 * a[1] + b[0] + (c[0] - c[1]) + 0.5 * y[0],
        a[0] * a[1] + 3.0 * b[0] * b[0] + c[1] + 0.25 * y[0] * y[1],
    ])
    z = np.array([7.0 * a[0] + 11.0 * a[1] + 13.0 * b[0] + 17.0 * c[0] + 19.0 * c[1] + 23.0 * y[0] + 29.0 * y[1] + a[0] * a[0]])
    out = {"y": y_out, "z": z}
    if _SCALAR[0]:
        out["s"] = float(a[0] * a[0] + 2.0 * b[0])
    return out


def body_jac(inp):
    """Exact dense Jacobian blocks {out: {in: array}} for the inputs present in inp."""
    a, b = inp["a"], inp["b"]
    y = inp.get("y", _Z2)
    jac = {
        "y": {"a": np.array([[1.0, 2.0], [a[1], a[0]]]), "b": np.array([[1.0], [6.0 * b[0]]])},
        "z": {"a": np.array([[7.0 + 2.0 * a[0], 11.0]]), "b": np.array([[13.0]])},
    }
    if _SCALAR[0]:
        jac["s"] = {"a": np.array([[2.0 * a[0], 0.0]]), "b": np.array([[2.0]])}
    if "c" in inp:
        jac["y"]["c"] = np.array([[1.0, -1.0], [0.0, 1.0]])
        jac["z"]["c"] = np.array([[17.0, 19.0]])
        if _SCALAR[0]:
            jac["s"]["c"] = np.zeros((1, 2))
    if "y" in inp:
        jac["y"]["y"] = np.array([[0.5, 0.0], [0.25 * y[1], 0.25 * y[0]]])
        jac["z"]["y"] = np.array([[23.0, 29.0]])
        if _SCALAR[0]:
            jac["s"]["y"] = np.zeros((1, 2))
    return jac


def key_of(inp) -> tuple:
    """Identity of a completed input: names and bytes."""
    return tuple((n, np.asarray(inp[n], dtype=float).tobytes()) for n in sorted(inp))


_CLASSES = {}


def harness_class(grammar: str):
    """The harness discipline class (one per grammar type), created lazily."""
    if grammar in _CLASSES:
        return _CLASSES[grammar]
    from gemseo.core.discipline.discipline import Discipline
    from scipy.sparse import csr_array

    class Harness(Discipline):
        default_grammar_type = Discipline.GrammarType.JSON if grammar == "json" else Discipline.GrammarType.SIMPLE

        def __init__(self, cfg, defaults, log):
            super().__init__("H")
            self.cfg = cfg
            self.log = log  # shared list of keys at which the body ran
            self.in_names = [s[0] for s in in_specs(cfg)]
            self.io.input_grammar.update_from_data({n: np.zeros(size) for n, size, _ in in_specs(cfg)})
            self.io.output_grammar.update_from_data({n: np.zeros(size) for n, size in _BASE_OUT_SPECS})
            if cfg.get("scalar_out"):
                self.io.output_grammar.update_from_types({"s": float})
            items = list(defaults.items())
            if cfg.get("rev_defaults"):
                items.reverse()
            self.io.input_grammar.defaults = {n: np.array(v, dtype=float) for n, v in items}
            self.n_jac = 0

        def _run(self, input_data):
            inp = {n: input_data[n] for n in self.in_names}
            self.log.append(key_of(inp))
            out = body(inp)
            if inplace_body(self.cfg):
                y = input_data["y"]  # the very array received as input
                y[...] = out["y"]
                out["y"] = y
            return out

        def _compute_jacobian(self, input_names=(), output_names=()):
            self.n_jac += 1
            inp = {n: self.io.data[n] for n in self.in_names}
            full = body_jac(inp)
            if self.cfg["jac_requested_only"]:
                outs, ins = list(output_names), list(input_names)
            else:
                outs, ins = [n for n, _ in OUT_SPECS], list(self.in_names)
            conv = csr_array if self.cfg["sparse"] else (lambda m: m)
            if self.cfg["jac_init"]:
                kind = self.InitJacobianType.SPARSE if self.cfg["sparse"] else self.InitJacobianType.DENSE
                self._init_jacobian(ins, outs, init_type=kind)
                for o in outs:
                    for i in ins:
                        self.jac[o][i] = conv(full[o][i])
            else:
                self.jac = {o: {i: conv(full[o][i]) for i in ins} for o in outs}

    _CLASSES[grammar] = Harness
    return Harness


def weak_hash(data) -> int:
    """A valid but poor hash: equal data give equal hashes, two buckets in all."""
    try:
        first = float(np.asarray(data["a"], dtype=float).ravel()[0])
        return 1000 + int(np.floor(first)) % 2
    except Exception:  # noqa: BLE001
        return 7


# --------------------------------------------------------------------------- resolving a payload into steps
def _subset(names, k):
    """Non-empty subset number k (modulo) of names."""
    n = len(names)
    bits = 1 + k % (2**n - 1)
    return [names[i] for i in range(n) if bits >> i & 1]


def plan(p):
    """Resolve the drawn operations into concrete steps (pure harness computation).

    Returns the steps and whether some caller array passed earlier is later modified in place.
    """
    cfg = p["cfg"]
    specs = in_specs(cfg)
    names = [s[0] for s in specs]
    defaulted = [s[0] for s in specs if s[2]]
    tol = TOLS[cfg["tol"]]
    delta = tol / 8.0 if tol else 2.0**-20
    pool = p["pool"]
    inplace_y = inplace_body(cfg)
    held = {}  # name -> current content of the caller's persistent array (None until first use)
    held_passed = set()
    inplace = False
    previous = None
    steps = []
    expanded = []
    for op in p["ops"]:
        if op["op"] == "linx":
            # a linearisation without prior execution with the caller's persistent arrays (Jacobian cached first),
            # then these arrays are rewritten in place for an execution at another point of the pool
            expanded.append(dict(op, op="lin", held=True, exe=False, free=True, again=False))
            expanded.append(dict(op, op="exec", held=True, again=False, base=op["base"] + 1 + op["var"]))
        else:
            expanded.append(op)
    for op in expanded:
        kind = op["op"]
        if kind in ("exec", "lin"):
            base = pool[op["base"] % len(pool)]
            passed = {}
            for n, size, has_default in specs:
                if has_default and not (op["mask"] >> defaulted.index(n)) & 1 and not (inplace_y and n == "y"):
                    continue  # (an in-place updating body always receives y explicitly: it would corrupt the default array)
                vals = [k * GRID + 0.0 for k in base[n]]
                if n == "a":
                    vals[0] = vals[0] + op["pert"] * delta
                passed[n] = vals
            if op.get("again") and previous is not None:
                passed = {n: list(v) for n, v in previous.items()}  # the same point as the previous call
            previous = passed
            modifies = False
            if op["held"]:
                for n, vals in passed.items():
                    if n in held_passed and held[n] != vals:
                        modifies = True
                    held[n] = vals
                    held_passed.add(n)
            inplace = inplace or modifies
            if inplace_y:
                kind = "exec"  # the body destroys its input y: the linearisation point would be undefined
            step = {"kind": kind, "passed": passed, "held": op["held"], "modifies": modifies, "partial": len(passed) < len(names)}
            if kind == "lin":
                step["all"] = op["all"]
                step["exe"] = op["exe"]
                step["free"] = bool(op.get("free"))
            steps.append(step)
        elif kind == "diff":
            steps.append({"kind": "diff", "ins": _subset(names, op["ins"]), "outs": _subset([n for n, _ in OUT_SPECS], op["outs"])})
        elif kind == "setdef":
            n = defaulted[op["var"] % len(defaulted)]
            steps.append({"kind": "setdef", "name": n, "value": [k * GRID + 0.0 for k in pool[op["base"] % len(pool)][n]]})
        elif kind == "clear":
            steps.append({"kind": "clear"})
        elif kind == "setcache":
            # approximated Jacobians store perturbed inputs in the cache: only exact matching is used with them
            steps.append({"kind": "setcache", "cache": op.get("new_cache", "same"), "tol": 0 if approximated(cfg) else op.get("new_tol", 0)})
        elif kind == "reopen":
            steps.append({"kind": "reopen", "forget": op["forget"]})
        elif kind == "pickle":
            steps.append({"kind": "pickle", "how": op.get("how", "pickle")})
    return steps, inplace


# --------------------------------------------------------------------------- helpers for the oracles
def dense(m):
    from scipy.sparse import issparse

    return m.toarray() if issparse(m) else np.asarray(m)


def close(a, b) -> bool:
    """Equality up to the error of a forward finite difference with step 1e-7 on the harness body."""
    a, b = np.asarray(a, dtype=float), np.asarray(b, dtype=float)
    return a.shape == b.shape and bool(np.allclose(a, b, rtol=1e-5, atol=1e-4))


def same(a, b) -> bool:
    a, b = np.asarray(a), np.asarray(b)
    return a.shape == b.shape and bool(np.array_equal(a, b))


def snapshot_entries(cache):
    """Canonical copy of all cache entries (dense arrays).

    An empty cache is not iterated (iterating an empty HDF5Cache raises AssertionError: outside the statement).
    """
    out = []
    if len(cache) == 0:
        return out
    for entry in cache.get_all_entries():
        out.append((
            {k: np.array(dense(v)) for k, v in entry.inputs.items()},
            {k: np.array(dense(v)) for k, v in entry.outputs.items()},
            {o: {i: np.array(dense(m)) for i, m in d.items()} for o, d in entry.jacobian.items()},
        ))
    return out


def entries_equal(e1, e2) -> str:
    """'' when two snapshots are equal, else a description of the first difference."""
    if len(e1) != len(e2):
        return f"{len(e1)} entries before, {len(e2)} after"
    for k, ((i1, o1, j1), (i2, o2, j2)) in enumerate(zip(e1, e2)):
        for label, d1, d2 in (("inputs", i1, i2), ("outputs", o1, o2)):
            if sorted(d1) != sorted(d2):
                return f"entry {k}: {label} names {sorted(d1)} before, {sorted(d2)} after"
            for n in d1:
                if not same(d1[n], d2[n]):
                    return f"entry {k}: {label}[{n}] {d1[n]!r} before, {d2[n]!r} after"
        if sorted(j1) != sorted(j2):
            return f"entry {k}: Jacobian outputs {sorted(j1)} before, {sorted(j2)} after"
        for o in j1:
            if sorted(j1[o]) != sorted(j2[o]):
                return f"entry {k}: Jacobian inputs of {o} {sorted(j1[o])} before, {sorted(j2[o])} after"
            for i in j1[o]:
                if not same(j1[o][i], j2[o][i]):
                    return f"entry {k}: d{o}/d{i} {j1[o][i]!r} before, {j2[o][i]!r} after"
    return ""


class Machine:
    """The discipline under test, its uncached twin and the reference model, run in lock-step."""

    def __init__(self, p, ctx, case_dir, degrade):
        self.p, self.ctx, self.cfg = p, ctx, p["cfg"]
        cfg = self.cfg
        self.kind = cfg["cache"]
        self.tol = TOLS[cfg["tol"]]
        self.specs = in_specs(cfg)
        self.names = [s[0] for s in self.specs]
        self.degrade = degrade
        self.file = os.path.join(case_dir, "cache.h5")
        self.defaults = {n: [k * GRID + 0.0 for k in cfg["defaults"][n]] for n, _, d in self.specs if d}
        self.log = []  # keys at which the body of the discipline under test ran (current epoch)
        self.twin_log = []
        self.held = {}  # the caller's persistent arrays
        self.seen = {}  # key -> completed input, all inputs requested so far
        self.seen_class = {}  # class key -> list of keys
        self.diff_ins, self.diff_outs = [], []
        self.last_key = None  # completed input of the previous call on the current discipline object
        self.has_outputs = False  # the current discipline object holds output values in its local data
        self.inplace_y = inplace_body(cfg)
        self.approx = approximated(cfg)
        self.plan_delta = self.tol / 8.0 if self.tol else 2.0**-20  # spacing of the perturbed points of one grid class
        self.n_files = 0
        self.flags = Counter()
        cls = harness_class(cfg["grammar"])
        self.cls = cls
        self.disc = self._new_discipline()
        self.twin = cls(cfg, self.defaults, self.twin_log)
        self.twin.set_cache(cls.CacheType.NONE)
        if self.approx:
            self._approximate(self.twin)

    @staticmethod
    def _approximate(d):
        d.set_jacobian_approximation(d.ApproximationMode.FINITE_DIFFERENCES)
        d.linearization_mode = d.ApproximationMode.FINITE_DIFFERENCES

    def _set_cache(self, d):
        kind = self.kind
        if kind == "none":
            d.set_cache(d.CacheType.NONE)
        elif kind == "simple":
            d.set_cache(d.CacheType.SIMPLE, tolerance=self.tol)
        elif kind == "hdf5":
            d.set_cache(d.CacheType.HDF5, tolerance=self.tol, hdf_file_path=self.file, hdf_node_path=self.cfg["node"])
        else:
            d.set_cache(d.CacheType.MEMORY_FULL, tolerance=self.tol, is_memory_shared=(kind == "memory_shared"))

    def _new_discipline(self):
        d = self.cls(self.cfg, self.defaults, self.log)
        self._set_cache(d)
        if self.approx:
            self._approximate(d)
        if self.diff_ins:
            d.add_differentiated_inputs(list(self.diff_ins))
            d.add_differentiated_outputs(list(self.diff_outs))
        return d

    # ----- reference model
    def complete(self, passed):
        x = {}
        for n in self.names:
            if n in passed:
                x[n] = np.array(passed[n], dtype=float)
            else:
                x[n] = np.array(self.defaults[n], dtype=float)
        return x

    def class_key(self, x):
        """Grid class of a completed input (components rounded to the grid: perturbations are < GRID/100)."""
        parts = []
        for n in self.names:
            v = np.round(np.array(x[n], dtype=float) / GRID) * GRID + 0.0
            parts.append((n, v.tobytes()))
        return tuple(parts)

    def within_tolerance(self) -> bool:
        """Whether the points of one grid class are within the current tolerance of each other.

        The classes were laid out for the tolerance drawn with the case (spacing plan_delta, at most 3 steps apart);
        after a set_cache with another tolerance they are either all within it (3 * plan_delta <= tolerance) or all
        far beyond it (plan_delta >= 10 * tolerance * (1 + norm), norm <= 10).
        """
        return self.tol > 0.0 and 3.0 * self.plan_delta <= self.tol

    def candidates(self, x):
        """Inputs whose results the discipline may return for x."""
        cands = [x]
        if self.within_tolerance() and self.kind != "none":
            kx = key_of(x)
            for k in self.seen_class.get(self.class_key(x), []):
                if k != kx:
                    cands.append(self.seen[k])
        return cands

    def remember(self, x):
        k = key_of(x)
        if k not in self.seen:
            self.seen[k] = x
            self.seen_class.setdefault(self.class_key(x), []).append(k)

    # ----- steps
    def call(self, step):
        ctx, cfg = self.ctx, self.cfg
        jsame = close if self.approx else same
        passed_vals = step["passed"]
        x = self.complete(passed_vals)
        kx = key_of(x)
        use_held = step["held"] and not self.degrade
        if use_held:
            args = {}
            for n, vals in passed_vals.items():
                if n not in self.held:
                    self.held[n] = np.array(vals, dtype=float)
                else:
                    self.held[n][...] = vals  # in-place modification of an array passed earlier
                args[n] = self.held[n]
        else:
            args = {n: np.array(vals, dtype=float) for n, vals in passed_vals.items()}
        before = {n: v.copy() for n, v in args.items()}
        twin_args = {n: v.copy() for n, v in args.items()}
        was_seen = kx in self.seen
        class_seen = bool(self.seen_class.get(self.class_key(x)))
        n_log = len(self.log)
        lin = step["kind"] == "lin"
        requested = None
        if lin:
            compute_all = step["all"] or not self.diff_ins
            same_point = self.last_key == kx
            execute = step["exe"] or not (same_point or (step.get("free") and self.has_outputs))
            if not execute and not same_point:
                self.flags["linearize_execute_false_at_another_input"] += 1
            if not execute and self.tol > 0.0 and self.kind in FULL and kx not in self.log:
                # linearize(execute=False) at an input whose outputs are not cached (new input, or after cache.clear())
                # stores a Jacobian-only entry; with a tolerance that entry then shadows every later complete entry
                # within the tolerance (known finding C05-F2)
                self.flags["jacobian_only_entry_with_tolerance"] += 1
                if ctx.known("jacobian_only_entry_shadows_with_tolerance"):
                    execute = True
            if (not execute and not same_point and self.kind != "none"
                    and getattr(self.disc, "_has_jacobian", False) and self.disc.jac):
                # the Jacobian loaded from the cache for the previous input is still flagged valid (known finding C05-F3)
                self.flags["linearize_execute_false_with_jacobian_of_previous_cache_hit"] += 1
                if ctx.known(F3):
                    execute = True
            if compute_all:
                req_in, req_out = list(self.names), [n for n, _ in OUT_SPECS]
            else:
                req_in, req_out = list(self.diff_ins), list(self.diff_outs)
            requested = (req_in, req_out)
            res = self.disc.linearize(args, compute_all_jacobians=compute_all, execute=execute)
            got_jac = {}
            for o in req_out:
                ctx.check(o in res, "jacobian", f"linearize returned no Jacobian for output {o}", step=step)
                for i in req_in:
                    ctx.check(i in res[o], "jacobian", f"linearize returned no block d{o}/d{i}", step=step)
                    got_jac[(o, i)] = np.array(dense(res[o][i]))
            tres = self.twin.linearize(twin_args, compute_all_jacobians=compute_all, execute=execute)
            twin_jac = {(o, i): np.array(dense(tres[o][i])) for o in req_out for i in req_in}
            got = twin_got = None  # linearize returns Jacobians only
            if not execute:
                self.flags["linearize_execute_false"] += 1
            if not was_seen:
                self.flags["jacobian_before_output"] += 1
        else:
            res = self.disc.execute(args)
            got = {n: np.array(v) for n, v in res.items()}
            tres = self.twin.execute(twin_args)
            twin_got = {n: np.array(v) for n, v in tres.items()}
        # ---- caller arrays are never modified by the call
        for n, v in args.items():
            if n == "y" and self.inplace_y:
                continue  # updated by the body itself, with or without a cache
            ctx.check(same(v, before[n]), "caller_arrays", f"the call modified the caller's array {n}: {before[n]!r} -> {v!r}", step=step)
        # ---- twin against the reference (also the 'no cache' policy)
        ref_out = body(x)
        ref_jac = body_jac(x)
        if twin_got is not None:
            for n, _ in OUT_SPECS:
                ctx.check(n in twin_got and same(twin_got[n], ref_out[n]), "uncached_twin", f"uncached twin returned {n}={twin_got.get(n)!r}, body gives {ref_out[n]!r}", step=step)
        if lin:
            for (o, i), m in twin_jac.items():
                ctx.check(jsame(m, ref_jac[o][i]), "uncached_twin", f"uncached twin returned d{o}/d{i}={m!r}, body gives {ref_jac[o][i]!r}", step=step)
        # ---- outputs of the discipline under test
        cands = self.candidates(x)
        if got is not None:
            exp_names = sorted(set(self.names) | {n for n, _ in OUT_SPECS})
            ctx.check(sorted(got) == exp_names, "outputs", f"returned data has names {sorted(got)}, expected {exp_names}", step=step)
            matches = [c for c in cands if all(same(got[n], body(c)[n]) for n, _ in OUT_SPECS)]
            ctx.check(bool(matches), "outputs",
                      f"returned outputs { {n: np.asarray(got[n]).tolist() for n, _ in OUT_SPECS} } for input { {n: x[n].tolist() for n in x} }; "
                      f"the body gives { {n: np.asarray(v).tolist() for n, v in ref_out.items()} }"
                      + (f" ({len(cands) - 1} earlier inputs within the tolerance do not match either)" if self.tol else ""),
                      step=step, cache=self.kind, tolerance=self.tol)
            if not any(c is x for c in matches):
                self.flags["tolerance_hit_not_exact"] += 1
            if self.tol == 0.0 or self.kind == "none":
                for n in self.names:
                    if n not in dict(OUT_SPECS):
                        ctx.check(same(got[n], x[n]), "outputs", f"returned input {n}={got[n]!r}, passed/defaulted {x[n]!r}", step=step)
        # ---- requested Jacobian blocks
        if lin:
            req_in, req_out = requested
            jmatches = [c for c in cands if all(jsame(got_jac[(o, i)], body_jac(c)[o][i]) for o in req_out for i in req_in)]
            if not jmatches:
                bad = [(o, i) for o in req_out for i in req_in if not jsame(got_jac[(o, i)], ref_jac[o][i])]
                o, i = bad[0]
                ctx.fail("jacobian", f"linearize returned d{o}/d{i}={got_jac[(o, i)].tolist()} at input { {n: x[n].tolist() for n in x} }; "
                                     f"exact block {ref_jac[o][i].tolist()}" + (" (no earlier input within the tolerance matches either)" if self.tol else ""),
                         step=step, cache=self.kind, tolerance=self.tol, requested=[req_in, req_out])
        # ---- run counter
        ran = len(self.log) - n_log
        self.flags["body_runs"] += ran
        if self.kind in FULL:
            counts = Counter(self.log)
            worst = max(counts.values()) if counts else 0
            if worst > 1:
                k = next(k for k, c in counts.items() if c > 1)
                xin = {n: np.frombuffer(b, dtype=float).tolist() for n, b in k}
                ctx.fail("run_once", f"the body ran {worst} times for the input {xin} under a full cache ({self.kind}, tolerance {self.tol})", step=step)
        if was_seen:
            self.flags["exact_repeat"] += 1
            if ran == 0:
                self.flags["exact_repeat_served_without_run"] += 1
        elif class_seen and self.within_tolerance():
            self.flags["near_repeat_within_tolerance"] += 1
        if step["held"] and step["modifies"]:
            self.flags["inplace_modified_caller_array" + ("_degraded_to_fresh" if self.degrade else "")] += 1
        if step["partial"]:
            self.flags["partial_input_uses_defaults"] += 1
        if lin:
            self.flags["linearize"] += 1
        self.remember(x)
        self.last_key = kx
        if not lin or execute:
            self.has_outputs = True
            if getattr(self, "jacobian_first", None) == kx and self.kind != "none":
                self.flags["outputs_requested_right_after_their_jacobian_was_cached_first"] += 1
            self.jacobian_first = None
        elif not same_point and ran == 0:
            self.jacobian_first = kx  # a Jacobian was just cached for an input that was not the executed one

    def diff(self, step):
        self.diff_ins = sorted(set(self.diff_ins) | set(step["ins"]))
        self.diff_outs = sorted(set(self.diff_outs) | set(step["outs"]))
        for d in (self.disc, self.twin):
            d.add_differentiated_inputs(list(step["ins"]))
            d.add_differentiated_outputs(list(step["outs"]))
        self.flags["add_differentiated"] += 1

    def setdef(self, step):
        self.defaults[step["name"]] = list(step["value"])
        for d in (self.disc, self.twin):
            d.default_input_data[step["name"]] = np.array(step["value"], dtype=float)
        self.flags["default_rebound"] += 1

    def clear(self):
        cache = self.disc.cache
        if cache is None or len(cache) == 0:
            return
        cache.clear()
        self.ctx.check(len(cache) == 0, "clear", f"len(cache)={len(cache)} after clear()")
        del self.log[:]
        self.flags["clear"] += 1

    def setcache(self, step):
        """discipline.set_cache(...) in the middle of the history: from then on a fresh cache of the requested policy."""
        if self.kind == "none":
            return
        new_kind = self.kind if step["cache"] == "same" else step["cache"]
        same_type = CACHE_TYPES[new_kind] == CACHE_TYPES[self.kind]
        self.kind = new_kind
        self.tol = TOLS[step["tol"]]
        if new_kind == "hdf5":
            # a new file: set_cache with the file and node of the current HDF5Cache documents that it keeps that cache
            self.n_files += 1
            self.file = os.path.join(os.path.dirname(self.file), f"cache{self.n_files}.h5")
        old = self.disc.cache
        self._set_cache(self.disc)
        new = self.disc.cache
        self.ctx.check(new is not None and type(new).__name__ == CACHE_TYPES[new_kind], "set_cache",
                       f"after set_cache({CACHE_TYPES[new_kind]!r}) the cache is {type(new).__name__}")
        self.ctx.check(float(new.tolerance) == self.tol, "set_cache",
                       f"after set_cache({CACHE_TYPES[new_kind]!r}, tolerance={self.tol}) cache.tolerance is {new.tolerance} "
                       f"(the previous cache was a {type(old).__name__} with tolerance {old.tolerance})")
        self.ctx.check(len(new) == 0, "set_cache", f"after set_cache({CACHE_TYPES[new_kind]!r}) the new cache holds {len(new)} entries")
        del self.log[:]  # a fresh cache may run the body again for earlier inputs
        # the discipline's local data and Jacobian were produced under the previous policy (possibly a within-tolerance
        # hit, found by the thorough tier at seed 4): linearize(execute=False) right after set_cache would be judged
        # against the wrong policy, so the next linearisation executes first
        self.last_key = None
        self.has_outputs = False
        self.flags["set_cache_same_type" if same_type else "set_cache_other_type"] += 1

    def pickle_cache(self, step):
        """Pickling round trip of the cache (what pickling / deep-copying the discipline does to it): nothing changes.

        MemoryFullCache cannot be pickled (finding C20-F1) and is left out.
        """
        if self.kind not in ("simple", "hdf5"):
            return
        import copy
        import pickle

        ctx = self.ctx
        old = self.disc.cache
        n_before = len(old)
        before = snapshot_entries(old)
        last_before = old.last_entry if n_before else None
        last_before = None if last_before is None else ({k: np.array(dense(v)) for k, v in last_before.inputs.items()},
                                                        {k: np.array(dense(v)) for k, v in last_before.outputs.items()})
        new = pickle.loads(pickle.dumps(old)) if step["how"] == "pickle" else copy.deepcopy(old)
        self.disc.cache = new
        what = f"after a {step['how']} round trip of the {type(old).__name__}"
        ctx.check(type(new) is type(old), "pickle", f"{what} the cache is a {type(new).__name__}")
        ctx.check(float(new.tolerance) == self.tol, "pickle", f"{what} cache.tolerance is {new.tolerance}, it was {self.tol}")
        ctx.check(len(new) == n_before, "pickle", f"{what} len(cache)={len(new)}, {n_before} before")
        diff = entries_equal(before, snapshot_entries(new))
        ctx.check(not diff, "pickle", f"{what} the entries differ: " + diff)
        if last_before is not None:
            last = new.last_entry
            ok = (sorted(last.inputs) == sorted(last_before[0]) and all(same(dense(last.inputs[k]), last_before[0][k]) for k in last_before[0])
                  and sorted(last.outputs) == sorted(last_before[1]) and all(same(dense(last.outputs[k]), last_before[1][k]) for k in last_before[1]))
            ctx.check(ok, "pickle", f"{what} last_entry is {last!r}, it was inputs={last_before[0]!r} outputs={last_before[1]!r}")
        self.flags["pickling_round_trip_nonempty" if n_before else "pickling_round_trip_empty"] += 1

    def reopen(self, step):
        if self.kind != "hdf5":
            return
        ctx = self.ctx
        old = self.disc.cache
        n_before = len(old)
        before = snapshot_entries(old)
        ctx.check(len(before) == n_before, "entries", f"len(cache)={n_before} but get_all_entries() yields {len(before)} entries")
        self.disc = None
        if step["forget"]:
            forget_singletons(os.path.dirname(self.file))
        self.disc = self._new_discipline()
        new = self.disc.cache
        ctx.check(len(new) == n_before, "reopen", f"len(cache)={len(new)} after re-instantiation on the same file/node, {n_before} before")
        after = snapshot_entries(new)
        diff = entries_equal(before, after)
        ctx.check(not diff, "reopen", "entries differ after re-instantiation on the same file/node: " + diff)
        self.last_key = None
        self.has_outputs = False
        self.flags["reopen_nonempty" if n_before else "reopen_empty"] += 1

    def sweep(self):
        """Request every cached entry once more with fresh arrays."""
        cache = self.disc.cache
        if cache is None:
            return
        entries = snapshot_entries(cache)
        if self.kind in FULL:
            self.ctx.check(len(entries) == len(cache), "entries", f"len(cache)={len(cache)} but get_all_entries() yields {len(entries)} entries")
        for inputs, outputs, _ in entries[:6]:
            if sorted(inputs) != sorted(self.names) or any(np.asarray(inputs[n]).shape != (size,) for n, size, _ in self.specs):
                self.flags["sweep_entry_with_unexpected_input_names_or_shapes"] += 1
                continue
            if key_of(inputs) not in self.seen:
                self.flags["sweep_entry_input_never_requested"] += 1
                continue
            passed = {n: np.asarray(inputs[n], dtype=float).tolist() for n in self.names}
            self.call({"kind": "exec", "passed": passed, "held": False, "modifies": False, "partial": False, "sweep": True})
            if self.inplace_y:
                continue
            # ... and linearised: a Jacobian stored in the wrong entry shows up here
            self.call({"kind": "lin", "passed": passed, "held": False, "modifies": False, "partial": False, "sweep": True,
                       "all": True, "exe": True})
            self.flags["sweep_requests"] += 1


def forget_singletons(directory: str) -> None:
    """Close and forget the HDF5 file singletons of files under directory."""
    from gemseo.caches._hdf5_file_singleton import HDF5FileSingleton

    root = os.path.realpath(directory)
    for key in list(HDF5FileSingleton.instances):
        if key[1].startswith(root):
            inst = HDF5FileSingleton.instances.pop(key)
            handle = getattr(inst, "_HDF5FileSingleton__file", None)
            if handle is not None:
                try:
                    handle.close()
                except Exception:  # noqa: BLE001
                    pass


# --------------------------------------------------------------------------- the case
def case_transparency(p, ctx):
    import gemseo.caches._hdf5_file_singleton as hfs
    import gemseo.caches.base_full_cache as bfc

    cfg = p["cfg"]
    set_out_specs(cfg)
    steps, inplace = plan(p)
    in_p6_class = cfg["cache"] == "memory" and inplace
    degrade = in_p6_class and ctx.known(P6)
    case_dir = tempfile.mkdtemp(dir=os.environ.get("VERIF_SCRATCH"))
    saved = (bfc.hash_data, hfs.hash_data)
    try:
        if cfg["weak_hash"]:
            bfc.hash_data = hfs.hash_data = weak_hash
        m = Machine(p, ctx, case_dir, degrade)
        for step in steps:
            kind = step["kind"]
            if kind in ("exec", "lin"):
                m.call(step)
            elif kind == "diff":
                m.diff(step)
            elif kind == "setdef":
                m.setdef(step)
            elif kind == "clear":
                m.clear()
            elif kind == "setcache":
                m.setcache(step)
            elif kind == "reopen":
                m.reopen(step)
            elif kind == "pickle":
                m.pickle_cache(step)
        m.sweep()
        # ---- classification
        f = m.flags
        cache = m.disc.cache
        if m.kind in FULL and cache is not None and any(len(v) > 1 for v in cache._hashes_to_indices.values()):
            f["hash_bucket_with_several_entries"] += 1
        ctx.cls("cache=" + cfg["cache"], f"tolerance={TOLS[cfg['tol']]:g}")
        for name in sorted(f):
            if f[name] and name not in ("body_runs", "sweep_requests"):
                ctx.cls("history_with_" + name)
        if cfg["sparse"]:
            ctx.cls("sparse_jacobian")
        if cfg["self_coupled"]:
            ctx.cls("self_coupled_variable")
        if cfg.get("scalar_out"):
            ctx.cls("float_typed_scalar_output")
        if cfg.get("a_default") and any(st_["kind"] in ("exec", "lin") and not st_["passed"] for st_ in steps):
            ctx.cls("history_with_fully_defaulted_call")
        if cfg.get("rev_defaults"):
            ctx.cls("defaults_in_reverse_grammar_order")
        if m.inplace_y:
            ctx.cls("body_updates_self_coupled_input_in_place")
        if m.approx:
            ctx.cls("jacobian_approximated_by_finite_differences")
        if cfg["weak_hash"] and (cfg["cache"] in FULL or m.kind in FULL):
            ctx.cls("colliding_hash")
        inplace_done = f["inplace_modified_caller_array"] > 0
        if f["exact_repeat"] and inplace_done and f["linearize"]:
            ctx.nontriv(("transparency", p))
            ctx.cls("nontrivial:repeat+inplace+linearize")
        ctx.extra["max_cache_entries"] = max(ctx.extra.get("max_cache_entries", 0), len(cache) if cache is not None else 0)
        ctx.extra["body_runs"] = ctx.extra.get("body_runs", 0) + f["body_runs"]
        ctx.extra["calls"] = ctx.extra.get("calls", 0) + sum(1 for s in steps if s["kind"] in ("exec", "lin")) + f["sweep_requests"]
        ctx.sample({"oracle": "transparency", "case": p})
    finally:
        bfc.hash_data, hfs.hash_data = saved
        forget_singletons(case_dir)
        shutil.rmtree(case_dir, ignore_errors=True)


# =========================================================================== process discipline (chain) as the subject
F4 = "chain_tolerance_hook_lost_after_set_cache"
F5 = "chain_cache_hit_then_members_linearised_at_their_last_inputs"
F6 = "approximated_jacobian_from_base_value_served_within_tolerance"


def chain_ref(x):
    """Outputs of the chain d1: x -> y, d2: (y, x) -> z."""
    y = np.array([x[0] * x[0] + x[1], x[0] * x[1] + 2.0 * x[1]])
    z = np.array([3.0 * y[0] + y[1] * y[1] + x[0]])
    return {"y": y, "z": z}


def chain_ref_jac(x):
    y = chain_ref(x)["y"]
    dy = np.array([[2.0 * x[0], 1.0], [x[1], x[0] + 2.0]])
    dz = np.array([[3.0, 2.0 * y[1]]]) @ dy + np.array([[1.0, 0.0]])
    return {"y": dy, "z": dz}


_CHAIN_CLASSES = {}


def chain_classes():
    if _CHAIN_CLASSES:
        return _CHAIN_CLASSES
    from gemseo.core.discipline.discipline import Discipline

    class D1(Discipline):
        def __init__(self):
            super().__init__("d1")
            self.io.input_grammar.update_from_data({"x": np.zeros(2)})
            self.io.output_grammar.update_from_data({"y": np.zeros(2)})
            self.n_run = 0

        def _run(self, input_data):
            self.n_run += 1
            return {"y": chain_ref(input_data["x"])["y"]}

        def _compute_jacobian(self, input_names=(), output_names=()):
            self.jac = {"y": {"x": chain_ref_jac(self.io.data["x"])["y"]}}

    class D2(Discipline):
        def __init__(self):
            super().__init__("d2")
            self.io.input_grammar.update_from_data({"y": np.zeros(2), "x": np.zeros(2)})
            self.io.output_grammar.update_from_data({"z": np.zeros(1)})
            self.n_run = 0

        def _run(self, input_data):
            self.n_run += 1
            x, y = input_data["x"], input_data["y"]
            return {"z": np.array([3.0 * y[0] + y[1] * y[1] + x[0]])}

        def _compute_jacobian(self, input_names=(), output_names=()):
            y = self.io.data["y"]
            self.jac = {"z": {"y": np.array([[3.0, 2.0 * y[1]]]), "x": np.array([[1.0, 0.0]])}}

    _CHAIN_CLASSES.update(d1=D1, d2=D2)
    return _CHAIN_CLASSES


def chain_histories():
    sub = st.fixed_dictionaries({"cache": st.sampled_from(["simple", "memory", "memory_shared"]), "tol": st.sampled_from([0, 1, 2, 2])})
    op = st.fixed_dictionaries({
        "op": st.sampled_from(["exec"] * 4 + ["lin"] * 5 + ["tol"] * 3 + ["setcache", "mode"]),
        "pt": st.integers(0, 3), "v": st.sampled_from([0, 0, 0, 1, 2]), "cache": st.sampled_from(["simple", "memory"]),
        "fd": st.booleans(),
    })
    return st.fixed_dictionaries({
        "subs": st.lists(sub, min_size=2, max_size=2),
        "fd": st.booleans(),
        "pool": st.lists(st.lists(st.integers(-6, 6), min_size=2, max_size=2), min_size=2, max_size=4),
        "ops": st.lists(op, min_size=3, max_size=12),
    })


def case_chain(p, ctx):
    """An MDOChain of two cached disciplines against a fully uncached twin and the numpy reference.

    All points lie on the 0.25 grid and are at least 0.0625 apart at every level of the chain, so that tolerance based
    matching (<= 1e-3) never merges two requested inputs: executions are exact whatever the tolerances (up to 1e-4 once
    perturbed points were executed); the tolerances otherwise only matter for the perturbed executions (step 1e-7) of an
    approximated Jacobian, for which gemseo documents that the
    cache tolerance is temporarily set to zero and that a process discipline propagates a change of its cache tolerance to
    the caches of its disciplines.
    """
    from gemseo.core.chains.chain import MDOChain

    cls = chain_classes()

    def make(cached):
        d1, d2 = cls["d1"](), cls["d2"]()
        for d, spec in zip((d1, d2), p["subs"]):
            if not cached:
                d.set_cache(d.CacheType.NONE)
            elif spec["cache"] == "simple":
                d.set_cache(d.CacheType.SIMPLE, tolerance=TOLS[spec["tol"]])
            else:
                d.set_cache(d.CacheType.MEMORY_FULL, tolerance=TOLS[spec["tol"]], is_memory_shared=spec["cache"] == "memory_shared")
        chain = MDOChain([d1, d2])
        if not cached:
            chain.set_cache(chain.CacheType.NONE)
        return chain, (d1, d2)

    def set_mode(chain, fd):
        if fd:
            chain.set_jacobian_approximation(chain.ApproximationMode.FINITE_DIFFERENCES)
            chain.linearization_mode = chain.ApproximationMode.FINITE_DIFFERENCES
        else:
            chain.linearization_mode = chain.LinearizationMode.AUTO

    chain, subs = make(True)
    twin, _ = make(False)
    fd = bool(p["fd"])
    for c in (chain, twin):
        set_mode(c, fd)
    hook_lost = False
    chain_full = False
    ever_fd = fd
    chain_seen, chain_jac = set(), set()  # points requested / linearised since the chain's cache was created (full cache)
    members_at = None  # point of the last request that really executed the members (None: unknown or a perturbed point)
    perturbed = False  # perturbed points of an approximated Jacobian were executed (and may sit in the caches)
    tainted = False  # an execution was served by such a perturbed point within a tolerance (same class as C05-F6; thorough tier, seed 5)
    flags = Counter()
    pool = []
    for pt in p["pool"]:
        if pt not in pool:
            pool.append(pt)
    for op in p["ops"]:
        kind = op["op"]
        if kind == "tol":
            same_value = float(chain.cache.tolerance) == TOLS[op["v"]]
            chain.cache.tolerance = TOLS[op["v"]]
            flags["tolerance_assigned_same_value" if same_value else "tolerance_assigned_new_value"] += 1
            continue
        if kind == "setcache":
            if op["cache"] == "simple":
                chain.set_cache(chain.CacheType.SIMPLE, tolerance=TOLS[op["v"]])
            else:
                chain.set_cache(chain.CacheType.MEMORY_FULL, tolerance=TOLS[op["v"]], is_memory_shared=False)
            ctx.check(float(chain.cache.tolerance) == TOLS[op["v"]], "chain_set_cache", f"chain.cache.tolerance={chain.cache.tolerance} after set_cache(tolerance={TOLS[op['v']]})")
            hook_lost = True
            chain_full = op["cache"] != "simple"
            chain_seen, chain_jac = set(), set()
            flags["set_cache_on_the_chain"] += 1
            continue
        if kind == "mode":
            fd = bool(op["fd"])
            ever_fd = ever_fd or fd
            for c in (chain, twin):
                set_mode(c, fd)
            continue
        x = np.array([k * GRID + 0.0 for k in pool[op["pt"] % len(pool)]])
        ref, ref_jac = chain_ref(x), chain_ref_jac(x)
        key = x.tobytes()
        chain_hit = chain_full and key in chain_seen
        if kind == "exec":
            got = {k: np.array(v) for k, v in chain.execute({"x": x.copy()}).items()}
            tgot = {k: np.array(v) for k, v in twin.execute({"x": x.copy()}).items()}
            # once perturbed points (x + 1e-7) were executed for an approximated Jacobian they are 'previously seen inputs
            # within the tolerance' of x for every tolerance >= 1e-7: their outputs (within 1e-4 of those of x, whereas two
            # grid points differ by >= 0.0625) are then acceptable
            osame = close if ever_fd else same
            for n in ("y", "z"):
                ctx.check(n in tgot and same(tgot[n], ref[n]), "chain_uncached_twin", f"uncached chain returned {n}={tgot.get(n)!r} at x={x.tolist()}, reference {ref[n]!r}")
                ctx.check(n in got and osame(got[n], ref[n]), "chain_outputs", f"cached chain returned {n}={got.get(n)!r} at x={x.tolist()}, reference {ref[n]!r}",
                          subs=p["subs"], chain_cache=type(chain.cache).__name__, chain_tolerance=float(chain.cache.tolerance))
            flags["execute"] += 1
            if perturbed and max([*(float(d.cache.tolerance) for d in subs), float(chain.cache.tolerance)]) >= 1e-7:
                # a perturbed point of an earlier approximation answered for x within the tolerance: the entries stored by
                # this execution hold its outputs under the key x and outlive a later reduction of the tolerances
                tainted = True
            if not chain_hit:
                members_at = key
            chain_seen.add(key)
            continue
        # ---- linearize
        sub_tols = [float(d.cache.tolerance) for d in subs]
        if fd and hook_lost and max(sub_tols) >= 1e-7:
            # the cache created by chain.set_cache() no longer propagates its tolerance: the perturbed executions hit the
            # entries of the members within their tolerance (known finding C05-F4)
            flags["approximated_jacobian_after_set_cache_with_member_tolerance"] += 1
            if ctx.known(F4):
                continue
        if not fd and chain_hit and key not in chain_jac and members_at != key:
            # a hit of the chain's own full cache does not execute the members, which are then linearised at the inputs of
            # their last execution (known finding C05-F5)
            flags["analytic_jacobian_after_chain_cache_hit_with_members_elsewhere"] += 1
            if ctx.known(F5):
                continue
        if fd and perturbed and (tainted or max([*sub_tols, float(chain.cache.tolerance)]) >= 1e-7):
            # the base value f(x) of the finite difference is served by entries stored under the tolerance, where a perturbed
            # point of an earlier approximation (x + 1e-7) answers for x: the error of the base value is of the order of the
            # step and the Jacobian is that of no input (known finding C05-F6)
            flags["approximated_jacobian_after_an_earlier_one_with_tolerance_above_the_step"] += 1
            if ctx.known(F6):
                continue
        if fd and max(sub_tols) >= 1e-7:
            flags["approximated_jacobian_with_member_tolerance_above_the_step"] += 1
        res = chain.linearize({"x": x.copy()}, compute_all_jacobians=True)
        tres = twin.linearize({"x": x.copy()}, compute_all_jacobians=True)
        tsame = close if fd else (lambda a, b: np.asarray(a).shape == np.asarray(b).shape and bool(np.allclose(a, b, rtol=1e-12, atol=1e-12)))
        # (the chain's cache may serve a Jacobian stored while finite differences were on)
        jsame = close if ever_fd else (lambda a, b: np.asarray(a).shape == np.asarray(b).shape and bool(np.allclose(a, b, rtol=1e-12, atol=1e-12)))
        for n in ("y", "z"):
            ctx.check(n in tres and "x" in tres[n] and tsame(dense(tres[n]["x"]), ref_jac[n]), "chain_uncached_twin",
                      f"uncached chain returned d{n}/dx={dense(tres[n]['x']).tolist() if n in tres and 'x' in tres[n] else None} at x={x.tolist()}, reference {ref_jac[n].tolist()}")
            ctx.check(n in res and "x" in res[n], "chain_jacobian", f"cached chain returned no block d{n}/dx")
            ctx.check(jsame(dense(res[n]["x"]), ref_jac[n]), "chain_jacobian",
                      f"cached chain returned d{n}/dx={dense(res[n]['x']).tolist()} at x={x.tolist()}, reference {ref_jac[n].tolist()} "
                      f"({'finite differences' if fd else 'analytic'}; member tolerances before the call {sub_tols}, chain cache "
                      f"{type(chain.cache).__name__} tolerance {float(chain.cache.tolerance)})", subs=p["subs"])
        flags["linearize_approximated" if fd else "linearize_analytic"] += 1
        if fd:
            members_at = None
            perturbed = True
        elif not chain_hit:
            members_at = key
        chain_seen.add(key)
        chain_jac.add(key)
    for name in sorted(flags):
        ctx.cls("chain:history_with_" + name)
    if flags["approximated_jacobian_with_member_tolerance_above_the_step"] and flags["execute"]:
        ctx.nontriv(("chain", p))
        ctx.cls("chain:nontrivial")
    ctx.sample({"oracle": "chain", "case": p})


# =========================================================================== inputs whose size changes between calls
def vs_body(inp):
    """Size-agnostic body: x is a 1-D array of any length, w has one component."""
    x, w = inp["x"], inp["w"]
    return {"y": np.array([float(np.sum(x * x)) + w[0]]), "n": np.array([float(x.size)])}


def vs_jac(inp):
    x = inp["x"]
    return {"y": {"x": 2.0 * x.reshape(1, -1), "w": np.array([[1.0]])}, "n": {"x": np.zeros((1, x.size)), "w": np.zeros((1, 1))}}


_VS_CLASS = []


def varsize_class():
    if _VS_CLASS:
        return _VS_CLASS[0]
    from gemseo.core.discipline.discipline import Discipline

    class VarSize(Discipline):
        def __init__(self, log):
            super().__init__("V")
            self.log = log
            self.io.input_grammar.update_from_data({"x": np.zeros(1), "w": np.zeros(1)})  # arrays of numbers, no size constraint
            self.io.output_grammar.update_from_data({"y": np.zeros(1), "n": np.zeros(1)})
            self.io.input_grammar.defaults = {"w": np.array([0.5])}

        def _run(self, input_data):
            inp = {"x": input_data["x"], "w": input_data["w"]}
            self.log.append(key_of(inp))
            return vs_body(inp)

        def _compute_jacobian(self, input_names=(), output_names=()):
            self.jac = vs_jac({"x": self.io.data["x"], "w": self.io.data["w"]})

    _VS_CLASS.append(VarSize)
    return VarSize


def varsize_histories():
    op = st.fixed_dictionaries({
        "op": st.sampled_from(["exec", "exec", "exec", "lin"]),
        "v": st.integers(0, 2),           # index of the value pool: constant vectors of that value / vectors starting with it
        "size": st.integers(1, 3),
        "const": st.sampled_from([True, True, False]),
        "pert": st.sampled_from([0, 0, 0, 1, 2]),
        "w": st.booleans(),
    })
    return st.fixed_dictionaries({
        "cache": st.sampled_from(["simple", "simple", "memory", "memory_shared", "hdf5"]),
        "tol": st.sampled_from([0, 1, 2, 2]),
        "values": st.lists(st.integers(-6, 6), min_size=3, max_size=3),
        "ops": st.lists(op, min_size=3, max_size=12),
    })


def case_varsize(p, ctx):
    """A discipline whose input x changes its size between calls (scalar, then a constant vector of that value, ...)."""
    cls = varsize_class()
    kind, tol = p["cache"], TOLS[p["tol"]]
    delta = tol / 8.0 if tol else 2.0**-20
    case_dir = tempfile.mkdtemp(dir=os.environ.get("VERIF_SCRATCH"))
    try:
        log, twin_log = [], []
        disc, twin = cls(log), cls(twin_log)
        twin.set_cache(twin.CacheType.NONE)
        if kind == "simple":
            disc.set_cache(disc.CacheType.SIMPLE, tolerance=tol)
        elif kind == "hdf5":
            disc.set_cache(disc.CacheType.HDF5, tolerance=tol, hdf_file_path=os.path.join(case_dir, "cache.h5"), hdf_node_path="n")
        else:
            disc.set_cache(disc.CacheType.MEMORY_FULL, tolerance=tol, is_memory_shared=kind == "memory_shared")
        seen = {}  # class (size, grid values) -> list of completed inputs
        sizes_of_value = {}
        flags = Counter()
        for op in p["ops"]:
            v = p["values"][op["v"]] * GRID + 0.0
            vals = [v] * op["size"] if op["const"] else [v + GRID * i for i in range(op["size"])]
            vals[0] = vals[0] + op["pert"] * delta
            x = {"x": np.array(vals), "w": np.array([1.25]) if op["w"] else np.array([0.5])}
            args = {"x": x["x"].copy()}
            if op["w"]:
                args["w"] = x["w"].copy()
            cls_key = (op["size"], tuple(np.round(x["x"] / GRID).tolist()), op["w"])
            cands = [x] + ([c for c in seen.get(cls_key, []) if key_of(c) != key_of(x)] if tol > 0 else [])
            ref, ref_jac = vs_body(x), vs_jac(x)
            n_log = len(log)
            if op["op"] == "exec":
                got = {k: np.array(val) for k, val in disc.execute(args).items()}
                tgot = {k: np.array(val) for k, val in twin.execute({k: a.copy() for k, a in args.items()}).items()}
                for n in ("y", "n"):
                    ctx.check(n in tgot and same(tgot[n], ref[n]), "varsize_uncached_twin", f"uncached twin returned {n}={tgot.get(n)!r}, body gives {ref[n]!r}")
                ok = any(all(n in got and same(got[n], vs_body(c)[n]) for n in ("y", "n")) for c in cands)
                ctx.check(ok, "varsize_outputs",
                          f"returned y={got.get('y')!r}, n={got.get('n')!r} for x={x['x'].tolist()}, w={x['w'].tolist()}; the body gives y={ref['y'].tolist()}, n={ref['n'].tolist()} "
                          f"({kind}, tolerance {tol}; earlier sizes of this value: {sorted(sizes_of_value.get(op['v'], []))})")
            else:
                res = disc.linearize(args, compute_all_jacobians=True)
                tres = twin.linearize({k: a.copy() for k, a in args.items()}, compute_all_jacobians=True)
                blocks = [(o, i) for o in ("y", "n") for i in ("x", "w")]
                for o, i in blocks:
                    ctx.check(o in tres and i in tres[o] and same(dense(tres[o][i]), ref_jac[o][i]), "varsize_uncached_twin", f"uncached twin returned a wrong d{o}/d{i}")
                    ctx.check(o in res and i in res[o], "varsize_jacobian", f"linearize returned no block d{o}/d{i}")
                ok = any(all(same(dense(res[o][i]), vs_jac(c)[o][i]) for o, i in blocks) for c in cands)
                ctx.check(ok, "varsize_jacobian",
                          f"linearize returned dy/dx={dense(res['y']['x']).tolist()} for x={x['x'].tolist()}; exact {ref_jac['y']['x'].tolist()} ({kind}, tolerance {tol})")
                flags["linearize"] += 1
            if kind in FULL:
                counts = Counter(log)
                ctx.check(not counts or max(counts.values()) <= 1, "varsize_run_once", f"the body ran twice for one input under a full cache ({kind}, tolerance {tol})")
            other_sizes = sizes_of_value.get(op["v"], set()) - {op["size"]}
            if op["const"] and op["pert"] == 0 and other_sizes:
                flags["constant_vector_after_another_size_of_the_same_value"] += 1
                if 1 in other_sizes or op["size"] == 1:
                    flags["scalar_and_constant_vector_of_the_same_value"] += 1
            if op["const"] and op["pert"] == 0:
                sizes_of_value.setdefault(op["v"], set()).add(op["size"])
            if cls_key in seen and len(log) == n_log:
                flags["repeat_served_without_run"] += 1
            seen.setdefault(cls_key, []).append(x)
        ctx.cls("varsize:cache=" + kind, f"varsize:tolerance={tol:g}")
        for name in sorted(flags):
            ctx.cls("varsize:history_with_" + name)
        if flags["scalar_and_constant_vector_of_the_same_value"]:
            ctx.nontriv(("varsize", p))
            ctx.cls("varsize:nontrivial")
        ctx.sample({"oracle": "varsize", "case": p})
    finally:
        forget_singletons(case_dir)
        shutil.rmtree(case_dir, ignore_errors=True)


ORACLES = {
    "transparency_light": case_transparency,
    "transparency_memory": case_transparency,
    "transparency_hdf5": case_transparency,
    "chain": case_chain,
    "varsize": case_varsize,
}


def run(ctx):
    ctx.drive("transparency_light", histories(["none", "simple", "simple"]), case_transparency, quick=180, thorough=3000)
    ctx.drive("transparency_memory", histories(["memory_shared", "memory"]), case_transparency, quick=180, thorough=3000)
    ctx.drive("transparency_hdf5", histories(["hdf5"], n_reopen=4), case_transparency, quick=160, thorough=2500)
    ctx.drive("chain", chain_histories(), case_chain, quick=150, thorough=2000)
    ctx.drive("varsize", varsize_histories(), case_varsize, quick=120, thorough=2000)
