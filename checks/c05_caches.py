"""C05 - Discipline caches are transparent.

A generated history of execute / linearize calls (repeated, new, nearly equal, partially
defaulted and in-place modified inputs) is applied to a harness Discipline under a drawn cache
policy and, in lock-step, to an uncached twin and to a plain-numpy reference of the body.
"""

from __future__ import annotations

import logging
import os
import shutil
import tempfile
from collections import Counter

import numpy as np
from hypothesis import strategies as st

logging.getLogger("gemseo").setLevel(logging.ERROR)

PROPERTY = "C05"
LEVEL = "exploration"
RULE = (
    "Hypothesis draws a configuration (cache none / SimpleCache / MemoryFullCache shared or not / HDF5Cache on a fresh file, "
    "root or nested node; tolerance 0, 1e-9 or 1e-3; JSON or Simple grammar; 2-3 inputs with defaults, optional self-coupled "
    "variable whose body returns a new array or updates the received array in place; dense or sparse Jacobian filled in a new dict or through _init_jacobian, all blocks or only the requested ones; "
    "real or deliberately colliding (2-bucket) input hash) and a history of 3-14 operations: execute / linearize "
    "(compute_all or differentiated subset, execute=True or, right after a call at the same input or at any input once outputs exist, execute=False) at a point of a pool of 2-4 grid points (or at the point of the previous call), optionally perturbed "
    "by less than the tolerance, optionally omitting defaulted inputs, passed as fresh arrays or as the caller's persistent "
    "arrays rewritten in place; add_differentiated_inputs/outputs; rebinding of a default; cache.clear(); re-creation of the "
    "discipline on the same HDF5 file/node (singleton kept or forgotten). After the history every cached entry is requested "
    "once more with fresh arrays. Every returned output / requested Jacobian block is compared (exactly) with the numpy "
    "reference at the completed input (tolerance t>0: at the input or at an earlier requested input within t), the uncached "
    "twin is compared with the reference, the body's run log is compared with 'at most once per distinct completed input' "
    "for full caches, caller arrays are compared before/after each call and a reopened HDF5 cache is compared entry by entry. "
    "Non-trivial = history with an exactly repeated completed input, an in-place modification of a caller array passed "
    "earlier, and a linearisation; distinct = structural hash of the drawn (configuration, pool, history)."
)
ASSUMPTIONS = [
    "inputs are float64 arrays of the declared sizes on a 0.25 grid (no NaN, no -0.0: keys are byte-hashed) plus perturbations "
    "of a[0]; points of different grid classes are >= 0.24 apart, points of one class are < tolerance/2 apart, so 'within t' is "
    "unambiguous for both the documented metric (norm of the cached array) and the implemented one (norm of the new array)",
    "linearize(execute=False) is generated right after a call at the same completed input and also at any other input once the "
    "discipline object holds output values (JobSchedulerDisciplineWrapper.linearize calls Discipline.linearize(execute=False) at "
    "new inputs, SimpleCache.cache_jacobian has a branch for it, and the harness Jacobian only needs the inputs); linearize "
    "without compute_all_jacobians only with non-empty differentiated inputs and outputs",
    "a body that updates the self-coupled array in place modifies the caller's array with or without a cache (gemseo hands the "
    "caller's array to the body): that array is exempt from the caller_arrays comparison, such a discipline always receives y "
    "explicitly (the body would corrupt the default array) and is only executed, not linearised (its input is destroyed)",
    "the caller never modifies arrays returned by the discipline, only arrays it passed in; defaults are rebound, not mutated",
    "cache.clear() is only applied to a non-empty cache (clear() of an empty HDF5Cache raises KeyError: outside the statement) "
    "and starts a new epoch for the run counter",
    "the colliding-hash configuration replaces gemseo.caches.*.hash_data by a deterministic 2-bucket hash for the duration of a "
    "case: the hash is only an index, so transparency must not depend on its quality",
    "with tolerance t>0 outputs and Jacobian may stem from different earlier inputs of the same class (each is 'of a previously "
    "seen input within t')",
]

TOLS = [0.0, 1e-9, 1e-3]
GRID = 0.25
OUT_SPECS = [("y", 2), ("z", 1)]  # plus ("s", 1), a float-typed scalar output, when cfg["scalar_out"] (set per case)
_BASE_OUT_SPECS = [("y", 2), ("z", 1)]
_SCALAR = [False]


def set_out_specs(cfg) -> None:
    """Select the outputs of the harness discipline for the current case."""
    _SCALAR[0] = bool(cfg.get("scalar_out"))
    OUT_SPECS[:] = _BASE_OUT_SPECS + ([("s", 1)] if _SCALAR[0] else [])
CACHE_TYPES = {
    "none": "",
    "simple": "SimpleCache",
    "memory_shared": "MemoryFullCache",
    "memory": "MemoryFullCache",
    "hdf5": "HDF5Cache",
}
FULL = ("memory_shared", "memory", "hdf5")
P6 = "memory_full_unshared_inplace_mutation"
F3 = "stale_jacobian_of_cache_hit_at_linearize_execute_false"


# --------------------------------------------------------------------------- generators
def _op(n_reopen=1):
    return st.fixed_dictionaries({
        "op": st.sampled_from(["exec"] * 9 + ["lin"] * 7 + ["diff"] * 2 + ["setdef", "clear"] + ["reopen"] * n_reopen),
        "again": st.sampled_from([False, False, False, True, True]),
        "base": st.integers(0, 3),
        "pert": st.sampled_from([0, 0, 0, 1, 1, 2, 3]),
        "mask": st.sampled_from([15, 15, 15, 0, 0, 1, 2, 3, 4, 5, 6, 7, 8, 11, 13, 14]),
        "held": st.booleans(),
        "all": st.booleans(),
        "exe": st.booleans(),
        "free": st.sampled_from([True, True, False]),  # execute=False also allowed at an input other than the one of the previous call
        "ins": st.integers(0, 14),
        "outs": st.integers(0, 2),
        "var": st.integers(0, 2),
        "forget": st.booleans(),
    })


def _base():
    k = st.integers(-6, 6)
    return st.fixed_dictionaries({
        "a": st.lists(k, min_size=2, max_size=2), "b": st.lists(k, min_size=1, max_size=1),
        "c": st.lists(k, min_size=2, max_size=2), "y": st.lists(k, min_size=2, max_size=2),
    })


def histories(caches, n_reopen=1):
    cfg = st.fixed_dictionaries({
        "cache": st.sampled_from(caches),
        "tol": st.sampled_from([0, 0, 1, 2, 2]),
        "sparse": st.booleans(),
        "self_coupled": st.booleans(),
        "n_in": st.sampled_from([2, 3]),
        "grammar": st.sampled_from(["json", "simple"]),
        "jac_init": st.booleans(),
        "jac_requested_only": st.booleans(),
        "weak_hash": st.sampled_from([False, False, False, True]),
        "node": st.sampled_from(["n", "a/b"]),
        "defaults": _base(),
        "scalar_out": st.booleans(),      # a float-typed (non-array) output
        "a_default": st.booleans(),       # every input has a default: execute({}) is reachable
        "rev_defaults": st.booleans(),    # defaults inserted in the reverse of the grammar order
        "inplace_body": st.sampled_from([False, False, True]),    # the body of a self-coupled discipline updates the received array of y in place
    })
    return st.fixed_dictionaries({
        "cfg": cfg,
        "pool": st.lists(_base(), min_size=2, max_size=4),
        "ops": st.lists(_op(n_reopen), min_size=3, max_size=14),
    })


# --------------------------------------------------------------------------- the body and its reference
def in_specs(cfg):
    """(name, size, has_default) of the inputs."""
    specs = [("a", 2, bool(cfg.get("a_default"))), ("b", 1, True)]
    if cfg["n_in"] == 3:
        specs.append(("c", 2, True))
    if cfg["self_coupled"]:
        specs.append(("y", 2, True))
    return specs


def inplace_body(cfg) -> bool:
    """Whether the body updates the self-coupled input array in place (and returns that same array)."""
    return bool(cfg.get("inplace_body")) and bool(cfg["self_coupled"])


_Z2 = np.zeros(2)


def body(inp):
    """The harness body: polynomial outputs from the (completed) inputs; missing optional inputs count as 0."""
    a, b = inp["a"], inp["b"]
    c, y = inp.get("c", _Z2), inp.get("y", _Z2)
    y_out = np.array([
        a[0] + 2.0 * a[1] + b[0] + (c[0] - c[1]) + 0.5 * y[0],
        a[0] * a[1] + 3.0 * b[0] * b[0] + c[1] + 0.25 * y[0] * y[1],
    ])
    z = np.array([7.0 * a[0] + 11.0 * a[1] + 13.0 * b[0] + 17.0 * c[0] + 19.0 * c[1] + 23.0 * y[0] + 29.0 * y[1] + a[0] * a[0]])
    out = {"y": y_out, "z": z}
    if _SCALAR[0]:
        out["s"] = float(a[0] * a[0] + 2.0 * b[0])
    return out


def body_jac(inp):
    """Exact dense Jacobian blocks {out: {in: array}} for the inputs present in inp."""
    a, b = inp["a"], inp["b"]
    y = inp.get("y", _Z2)
    jac = {
        "y": {"a": np.array([[1.0, 2.0], [a[1], a[0]]]), "b": np.array([[1.0], [6.0 * b[0]]])},
        "z": {"a": np.array([[7.0 + 2.0 * a[0], 11.0]]), "b": np.array([[13.0]])},
    }
    if _SCALAR[0]:
        jac["s"] = {"a": np.array([[2.0 * a[0], 0.0]]), "b": np.array([[2.0]])}
    if "c" in inp:
        jac["y"]["c"] = np.array([[1.0, -1.0], [0.0, 1.0]])
        jac["z"]["c"] = np.array([[17.0, 19.0]])
        if _SCALAR[0]:
            jac["s"]["c"] = np.zeros((1, 2))
    if "y" in inp:
        jac["y"]["y"] = np.array([[0.5, 0.0], [0.25 * y[1], 0.25 * y[0]]])
        jac["z"]["y"] = np.array([[23.0, 29.0]])
        if _SCALAR[0]:
            jac["s"]["y"] = np.zeros((1, 2))
    return jac


def key_of(inp) -> tuple:
    """Identity of a completed input: names and bytes."""
    return tuple((n, np.asarray(inp[n], dtype=float).tobytes()) for n in sorted(inp))


_CLASSES = {}


def harness_class(grammar: str):
    """The harness discipline class (one per grammar type), created lazily."""
    if grammar in _CLASSES:
        return _CLASSES[grammar]
    from gemseo.core.discipline.discipline import Discipline
    from scipy.sparse import csr_array

    class Harness(Discipline):
        default_grammar_type = Discipline.GrammarType.JSON if grammar == "json" else Discipline.GrammarType.SIMPLE

        def __init__(self, cfg, defaults, log):
            super().__init__("H")
            self.cfg = cfg
            self.log = log  # shared list of keys at which the body ran
            self.in_names = [s[0] for s in in_specs(cfg)]
            self.io.input_grammar.update_from_data({n: np.zeros(size) for n, size, _ in in_specs(cfg)})
            self.io.output_grammar.update_from_data({n: np.zeros(size) for n, size in _BASE_OUT_SPECS})
            if cfg.get("scalar_out"):
                self.io.output_grammar.update_from_types({"s": float})
            items = list(defaults.items())
            if cfg.get("rev_defaults"):
                items.reverse()
            self.io.input_grammar.defaults = {n: np.array(v, dtype=float) for n, v in items}
            self.n_jac = 0

        def _run(self, input_data):
            inp = {n: input_data[n] for n in self.in_names}
            self.log.append(key_of(inp))
            out = body(inp)
            if inplace_body(self.cfg):
                y = input_data["y"]  # the very array received as input
                y[...] = out["y"]
                out["y"] = y
            return out

        def _compute_jacobian(self, input_names=(), output_names=()):
            self.n_jac += 1
            inp = {n: self.io.data[n] for n in self.in_names}
            full = body_jac(inp)
            if self.cfg["jac_requested_only"]:
                outs, ins = list(output_names), list(input_names)
            else:
                outs, ins = [n for n, _ in OUT_SPECS], list(self.in_names)
            conv = csr_array if self.cfg["sparse"] else (lambda m: m)
            if self.cfg["jac_init"]:
                kind = self.InitJacobianType.SPARSE if self.cfg["sparse"] else self.InitJacobianType.DENSE
                self._init_jacobian(ins, outs, init_type=kind)
                for o in outs:
                    for i in ins:
                        self.jac[o][i] = conv(full[o][i])
            else:
                self.jac = {o: {i: conv(full[o][i]) for i in ins} for o in outs}

    _CLASSES[grammar] = Harness
    return Harness


def weak_hash(data) -> int:
    """A valid but poor hash: equal data give equal hashes, two buckets in all."""
    try:
        first = float(np.asarray(data["a"], dtype=float).ravel()[0])
        return 1000 + int(np.floor(first)) % 2
    except Exception:  # noqa: BLE001
        return 7


# --------------------------------------------------------------------------- resolving a payload into steps
def _subset(names, k):
    """Non-empty subset number k (modulo) of names."""
    n = len(names)
    bits = 1 + k % (2**n - 1)
    return [names[i] for i in range(n) if bits >> i & 1]


def plan(p):
    """Resolve the drawn operations into concrete steps (pure harness computation).

    Returns the steps and whether some caller array passed earlier is later modified in place.
    """
    cfg = p["cfg"]
    specs = in_specs(cfg)
    names = [s[0] for s in specs]
    defaulted = [s[0] for s in specs if s[2]]
    tol = TOLS[cfg["tol"]]
    delta = tol / 8.0 if tol else 2.0**-20
    pool = p["pool"]
    inplace_y = inplace_body(cfg)
    held = {}  # name -> current content of the caller's persistent array (None until first use)
    held_passed = set()
    inplace = False
    previous = None
    steps = []
    for op in p["ops"]:
        kind = op["op"]
        if kind in ("exec", "lin"):
            base = pool[op["base"] % len(pool)]
            passed = {}
            for n, size, has_default in specs:
                if has_default and not (op["mask"] >> defaulted.index(n)) & 1 and not (inplace_y and n == "y"):
                    continue  # (an in-place updating body always receives y explicitly: it would corrupt the default array)
                vals = [k * GRID + 0.0 for k in base[n]]
                if n == "a":
                    vals[0] = vals[0] + op["pert"] * delta
                passed[n] = vals
            if op.get("again") and previous is not None:
                passed = {n: list(v) for n, v in previous.items()}  # the same point as the previous call
            previous = passed
            modifies = False
            if op["held"]:
                for n, vals in passed.items():
                    if n in held_passed and held[n] != vals:
                        modifies = True
                    held[n] = vals
                    held_passed.add(n)
            inplace = inplace or modifies
            if inplace_y:
                kind = "exec"  # the body destroys its input y: the linearisation point would be undefined
            step = {"kind": kind, "passed": passed, "held": op["held"], "modifies": modifies, "partial": len(passed) < len(names)}
            if kind == "lin":
                step["all"] = op["all"]
                step["exe"] = op["exe"]
                step["free"] = bool(op.get("free"))
            steps.append(step)
        elif kind == "diff":
            steps.append({"kind": "diff", "ins": _subset(names, op["ins"]), "outs": _subset([n for n, _ in OUT_SPECS], op["outs"])})
        elif kind == "setdef":
            n = defaulted[op["var"] % len(defaulted)]
            steps.append({"kind": "setdef", "name": n, "value": [k * GRID + 0.0 for k in pool[op["base"] % len(pool)][n]]})
        elif kind == "clear":
            steps.append({"kind": "clear"})
        elif kind == "reopen":
            steps.append({"kind": "reopen", "forget": op["forget"]})
    return steps, inplace


# --------------------------------------------------------------------------- helpers for the oracles
def dense(m):
    from scipy.sparse import issparse

    return m.toarray() if issparse(m) else np.asarray(m)


def same(a, b) -> bool:
    a, b = np.asarray(a), np.asarray(b)
    return a.shape == b.shape and bool(np.array_equal(a, b))


def snapshot_entries(cache):
    """Canonical copy of all cache entries (dense arrays).

    An empty cache is not iterated (iterating an empty HDF5Cache raises AssertionError: outside the statement).
    """
    out = []
    if len(cache) == 0:
        return out
    for entry in cache.get_all_entries():
        out.append((
            {k: np.array(dense(v)) for k, v in entry.inputs.items()},
            {k: np.array(dense(v)) for k, v in entry.outputs.items()},
            {o: {i: np.array(dense(m)) for i, m in d.items()} for o, d in entry.jacobian.items()},
        ))
    return out


def entries_equal(e1, e2) -> str:
    """'' when two snapshots are equal, else a description of the first difference."""
    if len(e1) != len(e2):
        return f"{len(e1)} entries before, {len(e2)} after"
    for k, ((i1, o1, j1), (i2, o2, j2)) in enumerate(zip(e1, e2)):
        for label, d1, d2 in (("inputs", i1, i2), ("outputs", o1, o2)):
            if sorted(d1) != sorted(d2):
                return f"entry {k}: {label} names {sorted(d1)} before, {sorted(d2)} after"
            for n in d1:
                if not same(d1[n], d2[n]):
                    return f"entry {k}: {label}[{n}] {d1[n]!r} before, {d2[n]!r} after"
        if sorted(j1) != sorted(j2):
            return f"entry {k}: Jacobian outputs {sorted(j1)} before, {sorted(j2)} after"
        for o in j1:
            if sorted(j1[o]) != sorted(j2[o]):
                return f"entry {k}: Jacobian inputs of {o} {sorted(j1[o])} before, {sorted(j2[o])} after"
            for i in j1[o]:
                if not same(j1[o][i], j2[o][i]):
                    return f"entry {k}: d{o}/d{i} {j1[o][i]!r} before, {j2[o][i]!r} after"
    return ""


class Machine:
    """The discipline under test, its uncached twin and the reference model, run in lock-step."""

    def __init__(self, p, ctx, case_dir, degrade):
        self.p, self.ctx, self.cfg = p, ctx, p["cfg"]
        cfg = self.cfg
        self.kind = cfg["cache"]
        self.tol = TOLS[cfg["tol"]]
        self.specs = in_specs(cfg)
        self.names = [s[0] for s in self.specs]
        self.degrade = degrade
        self.file = os.path.join(case_dir, "cache.h5")
        self.defaults = {n: [k * GRID + 0.0 for k in cfg["defaults"][n]] for n, _, d in self.specs if d}
        self.log = []  # keys at which the body of the discipline under test ran (current epoch)
        self.twin_log = []
        self.held = {}  # the caller's persistent arrays
        self.seen = {}  # key -> completed input, all inputs requested so far
        self.seen_class = {}  # class key -> list of keys
        self.diff_ins, self.diff_outs = [], []
        self.last_key = None  # completed input of the previous call on the current discipline object
        self.has_outputs = False  # the current discipline object holds output values in its local data
        self.inplace_y = inplace_body(cfg)
        self.flags = Counter()
        cls = harness_class(cfg["grammar"])
        self.cls = cls
        self.disc = self._new_discipline()
        self.twin = cls(cfg, self.defaults, self.twin_log)
        self.twin.set_cache(cls.CacheType.NONE)

    def _new_discipline(self):
        d = self.cls(self.cfg, self.defaults, self.log)
        kind = self.kind
        if kind == "none":
            d.set_cache(d.CacheType.NONE)
        elif kind == "simple":
            d.set_cache(d.CacheType.SIMPLE, tolerance=self.tol)
        elif kind == "hdf5":
            d.set_cache(d.CacheType.HDF5, tolerance=self.tol, hdf_file_path=self.file, hdf_node_path=self.cfg["node"])
        else:
            d.set_cache(d.CacheType.MEMORY_FULL, tolerance=self.tol, is_memory_shared=(kind == "memory_shared"))
        if self.diff_ins:
            d.add_differentiated_inputs(list(self.diff_ins))
            d.add_differentiated_outputs(list(self.diff_outs))
        return d

    # ----- reference model
    def complete(self, passed):
        x = {}
        for n in self.names:
            if n in passed:
                x[n] = np.array(passed[n], dtype=float)
            else:
                x[n] = np.array(self.defaults[n], dtype=float)
        return x

    def class_key(self, x):
        """Grid class of a completed input (a[0] rounded to the grid: perturbations are < GRID/100)."""
        parts = []
        for n in self.names:
            v = np.array(x[n], dtype=float)
            if n == "a":
                v[0] = np.round(v[0] / GRID) * GRID + 0.0
            parts.append((n, v.tobytes()))
        return tuple(parts)

    def candidates(self, x):
        """Inputs whose results the discipline may return for x."""
        cands = [x]
        if self.tol > 0.0 and self.kind != "none":
            kx = key_of(x)
            for k in self.seen_class.get(self.class_key(x), []):
                if k != kx:
                    cands.append(self.seen[k])
        return cands

    def remember(self, x):
        k = key_of(x)
        if k not in self.seen:
            self.seen[k] = x
            self.seen_class.setdefault(self.class_key(x), []).append(k)

    # ----- steps
    def call(self, step):
        ctx, cfg = self.ctx, self.cfg
        passed_vals = step["passed"]
        x = self.complete(passed_vals)
        kx = key_of(x)
        use_held = step["held"] and not self.degrade
        if use_held:
            args = {}
            for n, vals in passed_vals.items():
                if n not in self.held:
                    self.held[n] = np.array(vals, dtype=float)
                else:
                    self.held[n][...] = vals  # in-place modification of an array passed earlier
                args[n] = self.held[n]
        else:
            args = {n: np.array(vals, dtype=float) for n, vals in passed_vals.items()}
        before = {n: v.copy() for n, v in args.items()}
        twin_args = {n: v.copy() for n, v in args.items()}
        was_seen = kx in self.seen
        class_seen = bool(self.seen_class.get(self.class_key(x)))
        n_log = len(self.log)
        lin = step["kind"] == "lin"
        requested = None
        if lin:
            compute_all = step["all"] or not self.diff_ins
            same_point = self.last_key == kx
            execute = step["exe"] or not (same_point or (step.get("free") and self.has_outputs))
            if not execute and not same_point:
                self.flags["linearize_execute_false_at_another_input"] += 1
            if not execute and self.tol > 0.0 and self.kind in FULL and kx not in self.log:
                # linearize(execute=False) at an input whose outputs are not cached (new input, or after cache.clear())
                # stores a Jacobian-only entry; with a tolerance that entry then shadows every later complete entry
                # within the tolerance (known finding C05-F2)
                self.flags["jacobian_only_entry_with_tolerance"] += 1
                if ctx.known("jacobian_only_entry_shadows_with_tolerance"):
                    execute = True
            if (not execute and not same_point and self.kind != "none"
                    and getattr(self.disc, "_has_jacobian", False) and self.disc.jac):
                # the Jacobian loaded from the cache for the previous input is still flagged valid (known finding C05-F3)
                self.flags["linearize_execute_false_with_jacobian_of_previous_cache_hit"] += 1
                if ctx.known(F3):
                    execute = True
            if compute_all:
                req_in, req_out = list(self.names), [n for n, _ in OUT_SPECS]
            else:
                req_in, req_out = list(self.diff_ins), list(self.diff_outs)
            requested = (req_in, req_out)
            res = self.disc.linearize(args, compute_all_jacobians=compute_all, execute=execute)
            got_jac = {}
            for o in req_out:
                ctx.check(o in res, "jacobian", f"linearize returned no Jacobian for output {o}", step=step)
                for i in req_in:
                    ctx.check(i in res[o], "jacobian", f"linearize returned no block d{o}/d{i}", step=step)
                    got_jac[(o, i)] = np.array(dense(res[o][i]))
            tres = self.twin.linearize(twin_args, compute_all_jacobians=compute_all, execute=execute)
            twin_jac = {(o, i): np.array(dense(tres[o][i])) for o in req_out for i in req_in}
            got = twin_got = None  # linearize returns Jacobians only
            if not execute:
                self.flags["linearize_execute_false"] += 1
            if not was_seen:
                self.flags["jacobian_before_output"] += 1
        else:
            res = self.disc.execute(args)
            got = {n: np.array(v) for n, v in res.items()}
            tres = self.twin.execute(twin_args)
            twin_got = {n: np.array(v) for n, v in tres.items()}
        # ---- caller arrays are never modified by the call
        for n, v in args.items():
            if n == "y" and self.inplace_y:
                continue  # updated by the body itself, with or without a cache
            ctx.check(same(v, before[n]), "caller_arrays", f"the call modified the caller's array {n}: {before[n]!r} -> {v!r}", step=step)
        # ---- twin against the reference (also the 'no cache' policy)
        ref_out = body(x)
        ref_jac = body_jac(x)
        if twin_got is not None:
            for n, _ in OUT_SPECS:
                ctx.check(n in twin_got and same(twin_got[n], ref_out[n]), "uncached_twin", f"uncached twin returned {n}={twin_got.get(n)!r}, body gives {ref_out[n]!r}", step=step)
        if lin:
            for (o, i), m in twin_jac.items():
                ctx.check(same(m, ref_jac[o][i]), "uncached_twin", f"uncached twin returned d{o}/d{i}={m!r}, body gives {ref_jac[o][i]!r}", step=step)
        # ---- outputs of the discipline under test
        cands = self.candidates(x)
        if got is not None:
            exp_names = sorted(set(self.names) | {n for n, _ in OUT_SPECS})
            ctx.check(sorted(got) == exp_names, "outputs", f"returned data has names {sorted(got)}, expected {exp_names}", step=step)
            matches = [c for c in cands if all(same(got[n], body(c)[n]) for n, _ in OUT_SPECS)]
            ctx.check(bool(matches), "outputs",
                      f"returned outputs { {n: np.asarray(got[n]).tolist() for n, _ in OUT_SPECS} } for input { {n: x[n].tolist() for n in x} }; "
                      f"the body gives { {n: np.asarray(v).tolist() for n, v in ref_out.items()} }"
                      + (f" ({len(cands) - 1} earlier inputs within the tolerance do not match either)" if self.tol else ""),
                      step=step, cache=self.kind, tolerance=self.tol)
            if not any(c is x for c in matches):
                self.flags["tolerance_hit_not_exact"] += 1
            if self.tol == 0.0 or self.kind == "none":
                for n in self.names:
                    if n not in dict(OUT_SPECS):
                        ctx.check(same(got[n], x[n]), "outputs", f"returned input {n}={got[n]!r}, passed/defaulted {x[n]!r}", step=step)
        # ---- requested Jacobian blocks
        if lin:
            req_in, req_out = requested
            jmatches = [c for c in cands if all(same(got_jac[(o, i)], body_jac(c)[o][i]) for o in req_out for i in req_in)]
            if not jmatches:
                bad = [(o, i) for o in req_out for i in req_in if not same(got_jac[(o, i)], ref_jac[o][i])]
                o, i = bad[0]
                ctx.fail("jacobian", f"linearize returned d{o}/d{i}={got_jac[(o, i)].tolist()} at input { {n: x[n].tolist() for n in x} }; "
                                     f"exact block {ref_jac[o][i].tolist()}" + (" (no earlier input within the tolerance matches either)" if self.tol else ""),
                         step=step, cache=self.kind, tolerance=self.tol, requested=[req_in, req_out])
        # ---- run counter
        ran = len(self.log) - n_log
        self.flags["body_runs"] += ran
        if self.kind in FULL:
            counts = Counter(self.log)
            worst = max(counts.values()) if counts else 0
            if worst > 1:
                k = next(k for k, c in counts.items() if c > 1)
                xin = {n: np.frombuffer(b, dtype=float).tolist() for n, b in k}
                ctx.fail("run_once", f"the body ran {worst} times for the input {xin} under a full cache ({self.kind}, tolerance {self.tol})", step=step)
        if was_seen:
            self.flags["exact_repeat"] += 1
            if ran == 0:
                self.flags["exact_repeat_served_without_run"] += 1
        elif class_seen and self.tol > 0:
            self.flags["near_repeat_within_tolerance"] += 1
        if step["held"] and step["modifies"]:
            self.flags["inplace_modified_caller_array" + ("_degraded_to_fresh" if self.degrade else "")] += 1
        if step["partial"]:
            self.flags["partial_input_uses_defaults"] += 1
        if lin:
            self.flags["linearize"] += 1
        self.remember(x)
        self.last_key = kx
        if not lin or execute:
            self.has_outputs = True
            if getattr(self, "jacobian_first", None) == kx and self.kind != "none":
                self.flags["outputs_requested_right_after_their_jacobian_was_cached_first"] += 1
            self.jacobian_first = None
        elif not same_point and ran == 0:
            self.jacobian_first = kx  # a Jacobian was just cached for an input that was not the executed one

    def diff(self, step):
        self.diff_ins = sorted(set(self.diff_ins) | set(step["ins"]))
        self.diff_outs = sorted(set(self.diff_outs) | set(step["outs"]))
        for d in (self.disc, self.twin):
            d.add_differentiated_inputs(list(step["ins"]))
            d.add_differentiated_outputs(list(step["outs"]))
        self.flags["add_differentiated"] += 1

    def setdef(self, step):
        self.defaults[step["name"]] = list(step["value"])
        for d in (self.disc, self.twin):
            d.default_input_data[step["name"]] = np.array(step["value"], dtype=float)
        self.flags["default_rebound"] += 1

    def clear(self):
        cache = self.disc.cache
        if cache is None or len(cache) == 0:
            return
        cache.clear()
        self.ctx.check(len(cache) == 0, "clear", f"len(cache)={len(cache)} after clear()")
        del self.log[:]
        self.flags["clear"] += 1

    def reopen(self, step):
        if self.kind != "hdf5":
            return
        ctx = self.ctx
        old = self.disc.cache
        n_before = len(old)
        before = snapshot_entries(old)
        ctx.check(len(before) == n_before, "entries", f"len(cache)={n_before} but get_all_entries() yields {len(before)} entries")
        self.disc = None
        if step["forget"]:
            forget_singletons(os.path.dirname(self.file))
        self.disc = self._new_discipline()
        new = self.disc.cache
        ctx.check(len(new) == n_before, "reopen", f"len(cache)={len(new)} after re-instantiation on the same file/node, {n_before} before")
        after = snapshot_entries(new)
        diff = entries_equal(before, after)
        ctx.check(not diff, "reopen", "entries differ after re-instantiation on the same file/node: " + diff)
        self.last_key = None
        self.has_outputs = False
        self.flags["reopen_nonempty" if n_before else "reopen_empty"] += 1

    def sweep(self):
        """Request every cached entry once more with fresh arrays."""
        cache = self.disc.cache
        if cache is None:
            return
        entries = snapshot_entries(cache)
        if self.kind in FULL:
            self.ctx.check(len(entries) == len(cache), "entries", f"len(cache)={len(cache)} but get_all_entries() yields {len(entries)} entries")
        for inputs, outputs, _ in entries[:6]:
            if sorted(inputs) != sorted(self.names) or any(np.asarray(inputs[n]).shape != (size,) for n, size, _ in self.specs):
                self.flags["sweep_entry_with_unexpected_input_names_or_shapes"] += 1
                continue
            if key_of(inputs) not in self.seen:
                self.flags["sweep_entry_input_never_requested"] += 1
                continue
            passed = {n: np.asarray(inputs[n], dtype=float).tolist() for n in self.names}
            self.call({"kind": "exec", "passed": passed, "held": False, "modifies": False, "partial": False, "sweep": True})
            if self.inplace_y:
                continue
            # ... and linearised: a Jacobian stored in the wrong entry shows up here
            self.call({"kind": "lin", "passed": passed, "held": False, "modifies": False, "partial": False, "sweep": True,
                       "all": True, "exe": True})
            self.flags["sweep_requests"] += 1


def forget_singletons(directory: str) -> None:
    """Close and forget the HDF5 file singletons of files under directory."""
    from gemseo.caches._hdf5_file_singleton import HDF5FileSingleton

    root = os.path.realpath(directory)
    for key in list(HDF5FileSingleton.instances):
        if key[1].startswith(root):
            inst = HDF5FileSingleton.instances.pop(key)
            handle = getattr(inst, "_HDF5FileSingleton__file", None)
            if handle is not None:
                try:
                    handle.close()
                except Exception:  # noqa: BLE001
                    pass


# --------------------------------------------------------------------------- the case
def case_transparency(p, ctx):
    import gemseo.caches._hdf5_file_singleton as hfs
    import gemseo.caches.base_full_cache as bfc

    cfg = p["cfg"]
    set_out_specs(cfg)
    steps, inplace = plan(p)
    in_p6_class = cfg["cache"] == "memory" and inplace
    degrade = in_p6_class and ctx.known(P6)
    case_dir = tempfile.mkdtemp(dir=os.environ.get("VERIF_SCRATCH"))
    saved = (bfc.hash_data, hfs.hash_data)
    try:
        if cfg["weak_hash"]:
            bfc.hash_data = hfs.hash_data = weak_hash
        m = Machine(p, ctx, case_dir, degrade)
        for step in steps:
            kind = step["kind"]
            if kind in ("exec", "lin"):
                m.call(step)
            elif kind == "diff":
                m.diff(step)
            elif kind == "setdef":
                m.setdef(step)
            elif kind == "clear":
                m.clear()
            elif kind == "reopen":
                m.reopen(step)
        m.sweep()
        # ---- classification
        f = m.flags
        cache = m.disc.cache
        if cfg["cache"] in FULL and cache is not None and any(len(v) > 1 for v in cache._hashes_to_indices.values()):
            f["hash_bucket_with_several_entries"] += 1
        ctx.cls("cache=" + cfg["cache"], f"tolerance={TOLS[cfg['tol']]:g}")
        for name in sorted(f):
            if f[name] and name not in ("body_runs", "sweep_requests"):
                ctx.cls("history_with_" + name)
        if cfg["sparse"]:
            ctx.cls("sparse_jacobian")
        if cfg["self_coupled"]:
            ctx.cls("self_coupled_variable")
        if cfg.get("scalar_out"):
            ctx.cls("float_typed_scalar_output")
        if cfg.get("a_default") and any(st_["kind"] in ("exec", "lin") and not st_["passed"] for st_ in steps):
            ctx.cls("history_with_fully_defaulted_call")
        if cfg.get("rev_defaults"):
            ctx.cls("defaults_in_reverse_grammar_order")
        if m.inplace_y:
            ctx.cls("body_updates_self_coupled_input_in_place")
        if cfg["weak_hash"] and cfg["cache"] in FULL:
            ctx.cls("colliding_hash")
        inplace_done = f["inplace_modified_caller_array"] > 0
        if f["exact_repeat"] and inplace_done and f["linearize"]:
            ctx.nontriv(("transparency", p))
            ctx.cls("nontrivial:repeat+inplace+linearize")
        ctx.extra["max_cache_entries"] = max(ctx.extra.get("max_cache_entries", 0), len(cache) if cache is not None else 0)
        ctx.extra["body_runs"] = ctx.extra.get("body_runs", 0) + f["body_runs"]
        ctx.extra["calls"] = ctx.extra.get("calls", 0) + sum(1 for s in steps if s["kind"] in ("exec", "lin")) + f["sweep_requests"]
        ctx.sample({"oracle": "transparency", "case": p})
    finally:
        bfc.hash_data, hfs.hash_data = saved
        forget_singletons(case_dir)
        shutil.rmtree(case_dir, ignore_errors=True)


ORACLES = {
    "transparency_light": case_transparency,
    "transparency_memory": case_transparency,
    "transparency_hdf5": case_transparency,
}


def run(ctx):
    ctx.drive("transparency_light", histories(["none", "simple", "simple"]), case_transparency, quick=180, thorough=3000)
    ctx.drive("transparency_memory", histories(["memory_shared", "memory"]), case_transparency, quick=180, thorough=3000)
    ctx.drive("transparency_hdf5", histories(["hdf5"], n_reopen=4), case_transparency, quick=160, thorough=2500)
