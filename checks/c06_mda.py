"""C06 - Every MDA algorithm converges to the multidisciplinary fixed point.

A generated contractive coupled system (vlib/gen/coupled.py: linear or mildly non-linear, any
coupling graph, unequal sizes) is solved by 1-3 generated MDA configurations; the data returned
by ``mda.execute`` is handed to the plain-numpy model of the system, which re-executes every
discipline on it and compares with the exact solution.
"""

from __future__ import annotations

import logging
import math
import warnings

import numpy as np
from hypothesis import strategies as st

from vlib.gen.coupled import CoupledSystem, NonFiniteInput, build_disciplines, coupled_systems, describe_graph, input_values

logging.getLogger("gemseo").setLevel(logging.ERROR)

PROPERTY = "C06"
LEVEL = "exploration"
RULE = (
    "Hypothesis draws a contractive coupled system (2-5 disciplines, output sizes 1-3, 1-3 design inputs, rings of "
    "2-5 disciplines wired forward into several strongly connected components, weakly coupled pre/post disciplines, "
    "self-coupled disciplines, optional tanh terms, optional non-coupling outputs, drawn list order and names; "
    "max-norm contraction factor q in {0.05,0.1,0.2,0.3} by construction), input and start values on a half-integer "
    "grid (or start values = exact solution rounded to 1/64, one case in three), and 1-3 MDA configurations: class in {Jacobi, GaussSeidel, NewtonRaphson, QuasiNewton, GSNewton, Sequential "
    "of two solvers (the first one optionally with its own looser tolerance 1e-2 / 1e-4), MDAChain with each inner MDA "
    "(optionally with every cycle handed over as one MDOChain / MDOParallelChain process discipline)}, every AccelerationMethod, over-relaxation in {0.6,0.8,1,1.2,1.3}, "
    "tolerance in {1e-6,1e-10,1e-13}, every ResidualScaling, warm start with a second execution at perturbed inputs, "
    "a permutation of the discipline list, Newton linear solver / matrix type, SciPy root method with or without "
    "gradient, Simple or JSON grammars.  Every configuration's returned data must (1) be reproduced by re-executing "
    "each discipline of the numpy model on it and (2) equal the exact solution, within the bound implied by the "
    "requested tolerance; (3) configurations agree pairwise.  Non-trivial = the system has a cycle through >=2 "
    "disciplines whose coupling outputs have unequal sizes and the MDA needed >=2 iterations; distinct = structural "
    "hash of (system, inputs, configuration).  A second drive runs, on cheap linear rings (2-4 disciplines), MDAJacobi "
    "and MDAGaussSeidel with every acceleration method x over-relaxation factor in {0.6,0.8,1,1.2}, a drawn scaling: per case the two "
    "combinations Jacobi + MinimumPolynomial at 0.6 and 0.8 plus both classes x all accelerations at one drawn factor, same oracles (non-trivial = >= 2 iterations), plus one hand-off sequence (plain Jacobi converged to 100 x tolerance, then plain "
    "Jacobi / Gauss-Seidel with just the iteration budget needed from there by the contraction estimate).  A third drive runs "
    "MDAJacobi with three accelerations and a hand-off sequence on a ring of two followed by a chain of 2-3 weakly coupled "
    "disciplines in a drawn list order."
)
ASSUMPTIONS = [
    "well-posed = the one-sweep map of the system is a max-norm contraction with factor q <= 0.3 (by construction), "
    "hence cond_inf(I - dG/dv) <= (1+q)/(1-q) <= 1.86",
    "over-relaxation factors stay in [0.6, 1.3] (gemseo's two-step relaxation converges for q(|w|+|1-w|) < 1)",
    "max_mda_iter = 200 (10 for some MDAGSNewton cases so that the Newton stage runs); the unchanged tree needs far fewer",
    "residual bound rho per scaling: NO_SCALING -> ||R||_inf <= tol; the other scalings -> the documented criterion with "
    "every initial residual component bounded by (1+q)||v0-v*||_inf and replaced by 1 when it may be exactly 0 (upper "
    "bound, the initial residual itself is not re-derived); MDAQuasiNewton (SciPy's own criteria, relative to |F0| or "
    "|x|) -> 100 * tol * sqrt(n) * max(1, (1+q)||v0-v*||_inf, ||v*||_inf)",
    "fixed-point bound: defect <= 2 q rho + 1e-12 (1 + ||v*||_inf) (rounding allowance); exact-solution bound: that / (1-q)",
    "MDANewtonRaphson / MDAGSNewton / sequences containing them are given all-strongly-coupled systems only (documented "
    "ValueError otherwise, which is checked) - other systems reach them through MDAChain",
    "MDAQuasiNewton: the result of scipy.optimize.root (dropped by gemseo) is observed through a pass-through wrapper of "
    "gemseo.mda.quasi_newton.root; a run in which SciPy itself reports a failure (budget exhausted, 'not making good "
    "progress', ...), or (hybr/lm without gradient) is stuck on a tiny non-zero coupling component because of MINPACK's "
    "relative finite-difference step, is inconclusive (classes 'inconclusive:*'), not a violation; a run in which SciPy "
    "reports success must satisfy rho = 100 tol sqrt(n) max(1, (1+q)||v0-v*||_inf, ||v*||_inf): SciPy's criteria (relative "
    "step tol for hybr/lm, |F| <= tol |F0| and |dx| <= tol |x| for the nonlin_solve methods, ||F||_2 <= sqrt(n) tol + tol "
    "||F0||_2 for df-sane) bound the coupling residual by (1+q) tol sqrt(n) max(1, r0, vmax), the factor 100 is a safety "
    "margin (largest ratio observed over 3600 quasi-Newton runs: 0.56), the defect bound is 2 rho + rounding allowance",
    "Newton linear solvers are DEFAULT (direct), GMRES and LGMRES: BiCGStab-type breakdowns are a property of those methods",
    "while the known finding C06-F8 is open, MDAQuasiNewton configurations are held to oracles (1)-(3) on the couplings "
    "inside cycles only (the other outputs are those of SciPy's last trial point)",
    "hand-off sequences: the first MDA (plain Jacobi, NO_SCALING) stops with ||residual||_2 <= 100 tol, i.e. a max-norm error "
    "<= 100 tol/(1-q); plain Jacobi / Gauss-Seidel sweeps contract that error by q per sweep, so the last MDA gets the k "
    "sweeps with sqrt(n)(1+q) q^k 100/(1-q) <= 1, plus 3; they are run without warm start (with warm_start every sub-MDA "
    "restarts from its own previous solution instead of its predecessor's result, which the estimate does not cover)",
    "MDAGSNewton configurations may use 'simplified' discipline Jacobians (coupling partials halved, still contractive): the "
    "Newton stage then converges linearly; they always get the full iteration budget",
    "parallel execution (n_processes > 1) belongs to C13",
]

ACCELERATIONS = ["NoTransformation", "Aitken", "Alternate2Delta", "AlternateDeltaSquared", "MinimumPolynomial", "Secant"]
OMEGAS = [1.0, 1.0, 0.6, 0.8, 1.2, 1.3]
TOLERANCES = [1e-6, 1e-10, 1e-13]
SCALINGS = [
    "no_scaling", "no_scaling", "no_scaling", "initial_residual_norm", "initial_subresidual_norm", "n_coupling_variables",
    "initial_residual_component", "scaled_initial_residual_component",
]
SOLVERS = ["MDAJacobi", "MDAGaussSeidel", "MDANewtonRaphson", "MDAQuasiNewton"]
NEEDS_ALL_STRONG = {"MDANewtonRaphson", "MDAGSNewton"}
QN_METHODS = ["hybr", "lm", "broyden1", "broyden2", "anderson", "krylov", "df-sane"]
NEWTON_LINEAR_SOLVERS = ["DEFAULT", "DEFAULT", "GMRES", "LGMRES"]
BUDGET = 200


# --------------------------------------------------------------------------- strategies
@st.composite
def _solver_cfg(draw, names=SOLVERS):
    acc = draw(st.sampled_from(ACCELERATIONS))
    # Aitken with relaxation is a known finding (C06-F1): keep it reachable but rare
    omega = draw(st.sampled_from(OMEGAS if acc != "Aitken" else [1.0, 1.0, 1.0, 1.0, 1.0, 0.6, 1.3]))
    return {
        "cls": draw(st.sampled_from(names)),
        "acc": acc,
        "omega": omega,
        "nr_solver": draw(st.sampled_from(NEWTON_LINEAR_SOLVERS)),
        "nr_matrix": draw(st.sampled_from(["matrix", "matrix", "linear_operator"])),
        "qn_method": draw(st.sampled_from(QN_METHODS)),
        "qn_grad": draw(st.booleans()),
    }


@st.composite
def configurations(draw):
    kind = draw(st.sampled_from(["solver", "solver", "solver", "chain", "chain", "gsnewton", "gsnewton", "sequential"]))
    cfg = {
        "kind": kind,
        "tol": draw(st.sampled_from(TOLERANCES)),
        "scaling": draw(st.sampled_from(SCALINGS)),
        "warm": draw(st.booleans()),
        "twice": draw(st.booleans()),
        "perm": draw(st.permutations(list(range(5)))),
        "budget": BUDGET,
    }
    if kind == "solver":
        cfg["solver"] = draw(_solver_cfg())
    elif kind == "chain":
        cfg["inner"] = draw(st.one_of(_solver_cfg(), _solver_cfg(), _solver_cfg(), st.just({"cls": "MDAGSNewton"})))
        if cfg["inner"]["cls"] == "MDAGSNewton":
            cfg["budget"] = draw(st.sampled_from([10, BUDGET]))
        # every cycle of >= 2 disciplines handed over as ONE process discipline (MDOChain / MDOParallelChain of its
        # members), self-coupled at the wrapper level: the MDAChain has to put an inner MDA around it
        cfg["wrap"] = draw(st.sampled_from([None, None, "MDOChain", "MDOParallelChain"]))
        # the documented setting sub_coupling_structures: one CouplingStructure per inner MDA, in the order in which
        # MDAChain creates them
        cfg["sub_cs"] = draw(st.booleans())
    elif kind == "gsnewton":
        cfg["gs"] = draw(_solver_cfg(["MDAGaussSeidel"]))
        cfg["nr"] = draw(_solver_cfg(["MDANewtonRaphson"]))
        cfg["budget"] = draw(st.sampled_from([10, BUDGET]))
        # the settings of the two stages given as dictionaries or as Pydantic settings models
        cfg["settings_as"] = draw(st.sampled_from(["dict", "model", "model"]))
        # "simplified" discipline Jacobians (coupling partials halved): the Newton stage converges linearly
        cfg["inexact_jac"] = draw(st.booleans())
        if cfg["inexact_jac"]:
            cfg["budget"] = BUDGET
    else:
        cfg["seq"] = [draw(_solver_cfg()), draw(_solver_cfg())]
        cfg["first_budget"] = draw(st.sampled_from([1, 2, 3, BUDGET]))
        # a cheap starter with its own, looser tolerance (it then gets the budget to reach it): the sequence
        # must go on until ITS tolerance is met
        cfg["first_tol"] = draw(st.sampled_from([None, None, 1e-2, 1e-4]))
        if cfg["first_tol"] is not None:
            cfg["first_budget"] = BUDGET
        # hand-off: plain Jacobi converged to 100 x the tolerance, then plain Jacobi / Gauss-Seidel with just the iteration
        # budget needed from there (computed from the contraction factor in the case function): the last MDA has to
        # start from the result of the first one
        cfg["handoff"] = draw(st.integers(0, 2)) == 0
        if cfg["handoff"]:
            plain = {"acc": "NoTransformation", "omega": 1.0}
            cfg["seq"] = [{**cfg["seq"][0], **plain, "cls": "MDAJacobi"},
                          {**cfg["seq"][1], **plain, "cls": draw(st.sampled_from(["MDAJacobi", "MDAGaussSeidel"]))}]
            cfg["first_tol"] = None
            cfg["scaling"] = "no_scaling"  # the hand-off point is then known: ||residual||_2 <= 100 tol
            # with warm_start every sub-MDA restarts from ITS OWN previous solution, not from its predecessor's result:
            # the budget estimate below would not apply to a second execution
            cfg["warm"] = False
    return cfg


@st.composite
def cases(draw):
    shape = draw(st.sampled_from(["any", "any", "any", "any", "two_cycles", "tail"]))
    system = draw(coupled_systems(two_cycles=shape == "two_cycles", tail=shape == "tail"))
    values = draw(input_values(system))
    delta = {v["name"]: [draw(st.sampled_from([-0.5, 0.0, 0.25, 1.0])) for _ in range(v["size"])] for v in system["x"]}
    configs = draw(st.lists(configurations(), min_size=1, max_size=3))
    return {"system": system, "values": values, "delta": delta, "configs": configs,
            "start": draw(st.sampled_from(["grid", "grid", "near"])),
            "grammar": draw(st.sampled_from(["SimpleGrammar", "SimpleGrammar", "SimpleGrammar", "JSONGrammar"]))}


# --------------------------------------------------------------------------- building the real MDA
def _solver_settings(s: dict) -> dict:
    """Settings specific to a solver class (besides tolerance / budget / warm start)."""
    cls = s["cls"]
    if cls == "MDAQuasiNewton":
        return {"method": s["qn_method"], "use_gradient": s["qn_grad"], "n_processes": 1}
    out = {"acceleration_method": s["acc"], "over_relaxation_factor": s["omega"]}
    if cls != "MDAGaussSeidel":
        out["n_processes"] = 1
    if cls == "MDANewtonRaphson":
        out["newton_linear_solver_name"] = s["nr_solver"]
    return out


def _mda_class(name: str):
    from gemseo.mda.factory import MDAFactory

    return MDAFactory().get_class(name)


def build_mda(cfg: dict, discs: list):
    common = {"tolerance": cfg["tol"], "max_mda_iter": cfg["budget"], "warm_start": cfg["warm"]}
    kind = cfg["kind"]
    if kind == "solver":
        s = cfg["solver"]
        mda = _mda_class(s["cls"])(discs, **common, **_solver_settings(s))
        if s["cls"] == "MDANewtonRaphson":
            mda.matrix_type = s["nr_matrix"]
    elif kind == "chain":
        s = cfg["inner"]
        if s["cls"] == "MDAGSNewton":
            # MDAGSNewton takes its two settings dictionaries as constructor arguments, which
            # MDAChain cannot forward: the defaults of the two stages are used
            inner = {}
        else:
            inner = _solver_settings(s)
        extra = {}
        if cfg.get("sub_cs"):
            extra["sub_coupling_structures"] = sub_coupling_structures(discs)
        mda = _mda_class("MDAChain")(discs, inner_mda_name=s["cls"], inner_mda_settings=inner, n_processes=1, **extra, **common)
        if s["cls"] == "MDANewtonRaphson":
            for sub in mda.inner_mdas:
                sub.matrix_type = s["nr_matrix"]
    elif kind == "gsnewton":
        nr, gs = _solver_settings(cfg["nr"]), _solver_settings(cfg["gs"])
        if cfg.get("settings_as") == "model":
            from gemseo.mda.gauss_seidel_settings import MDAGaussSeidel_Settings
            from gemseo.mda.newton_raphson_settings import MDANewtonRaphson_Settings

            nr, gs = MDANewtonRaphson_Settings(**nr), MDAGaussSeidel_Settings(**gs)
        mda = _mda_class("MDAGSNewton")(discs, gauss_seidel_settings=gs, newton_settings=nr, **common)
        mda.mda_sequence[1].matrix_type = cfg["nr"]["nr_matrix"]
    else:
        subs = []
        for k, s in enumerate(cfg["seq"]):
            sub_common = dict(common)
            if k == 0:
                sub_common["max_mda_iter"] = cfg["first_budget"]
                if cfg.get("first_tol") is not None:
                    sub_common["tolerance"] = max(cfg["first_tol"], cfg["tol"])
            elif cfg.get("last_budget") is not None:
                sub_common["max_mda_iter"] = cfg["last_budget"]
            sub = _mda_class(s["cls"])(discs, **sub_common, **_solver_settings(s))
            if s["cls"] == "MDANewtonRaphson":
                sub.matrix_type = s["nr_matrix"]
            subs.append(sub)
        mda = _mda_class("MDASequential")(discs, mda_sequence=subs, **common)
    mda.scaling = mda.ResidualScaling(cfg["scaling"])
    return mda


def sub_coupling_structures(discs: list) -> list:
    """One CouplingStructure per inner MDA of MDAChain(discs), in the order in which MDAChain consumes them."""
    from gemseo.core.coupling_structure import CouplingStructure
    from gemseo.mda.base_mda import BaseMDA

    structure = CouplingStructure(discs)
    out = []
    for parallel_tasks in structure.sequence:
        for component in parallel_tasks:
            if len(component) > 1 or (structure.is_self_coupled(component[0]) and not isinstance(component[0], BaseMDA)):
                out.append(CouplingStructure([d for d in discs if d in component]))
    return out


def handoff_budgets(model: CoupledSystem, tol: float) -> tuple[float, int]:
    """Tolerance of the first MDA and iteration budget of the last MDA of a hand-off sequence.

    The first MDA (plain Jacobi, NO_SCALING, full budget) stops with ||residual||_2 <= 100 tol, i.e. a max-norm
    error <= 100 tol / (1-q).  Plain Jacobi / Gauss-Seidel sweeps contract the max-norm error by q and the 2-norm
    of the residual is at most sqrt(n) (1+q) times the error: k sweeps with
    sqrt(n) (1+q) q^k 100 tol / (1-q) <= tol suffice (+2 as a margin; the first sweep of an MDA only measures).
    From the initial point the same k sweeps leave an error of about rate^k e0, far above the tolerance.
    """
    q, n = model.q, max(model.n_v, 1)
    target = (1.0 - q) / (100.0 * math.sqrt(n) * (1.0 + q))
    need = int(math.ceil(math.log(target) / math.log(q)))
    return 100.0 * tol, need + 3


def wrap_cycles(model: CoupledSystem, discs: list, order: list, kind: str) -> list:
    """Replace the members of every cycle of >= 2 disciplines by one process discipline (in list order).

    The wrapper (MDOChain: members executed one after the other; MDOParallelChain: all on the same data) is not
    an MDA: it is a self-coupled discipline whose fixed point is the one of its members.
    """
    from gemseo.core.chains.chain import MDOChain
    from gemseo.core.chains.parallel_chain import MDOParallelChain

    group_of = {i: k for k, comp in enumerate(model.sccs()) if len(comp) > 1 for i in comp}
    out, done = [], {}
    for disc, i in zip(discs, order):
        k = group_of.get(i)
        if k is None:
            out.append(disc)
        elif k not in done:
            members = [d for d, j in zip(discs, order) if group_of.get(j) == k]
            if kind == "MDOChain":
                done[k] = MDOChain(members, name=f"Chain{k}")
            else:
                done[k] = MDOParallelChain(members, name=f"Parallel{k}", use_threading=True, n_processes=1)
            out.append(done[k])
    return out


def solver_parts(cfg: dict) -> list[dict]:
    """The elementary solver settings taking part in a configuration."""
    kind = cfg["kind"]
    if kind == "solver":
        return [cfg["solver"]]
    if kind == "chain":
        return [cfg["inner"]] if cfg["inner"]["cls"] != "MDAGSNewton" else [{"cls": "MDAGSNewton"}]
    if kind == "gsnewton":
        return [cfg["gs"], cfg["nr"]]
    return list(cfg["seq"])


def needs_all_strong(cfg: dict) -> bool:
    if cfg["kind"] == "chain":
        return False
    if cfg["kind"] == "gsnewton":
        return True
    return any(s["cls"] in NEEDS_ALL_STRONG for s in solver_parts(cfg))


def uses_quasi_newton(cfg: dict) -> bool:
    return any(s["cls"] == "MDAQuasiNewton" for s in solver_parts(cfg))


def is_aitken_with_relaxation(cfg: dict) -> bool:
    """Ledger class: Aitken acceleration combined with an over-relaxation factor != 1."""
    return any(s.get("acc") == "Aitken" and s.get("omega", 1.0) != 1.0 and s["cls"] != "MDAQuasiNewton" for s in solver_parts(cfg))


def is_sequential_ending_with_silent_quasi_newton(cfg: dict) -> bool:
    """Ledger class: MDASequential whose last MDA is a quasi-Newton MDA without 'MDA residuals norm' output."""
    if cfg["kind"] != "sequential":
        return False
    last = cfg["seq"][-1]
    return last["cls"] == "MDAQuasiNewton" and last["qn_method"] not in ("broyden1", "broyden2")


def is_quasi_newton_without_strong_couplings(cfg: dict, info: dict, model: CoupledSystem | None = None) -> bool:
    """Ledger class C06-F4: a top-level MDAQuasiNewton whose weakly coupled disciplines are not chained.

    MDAQuasiNewton executes all its disciplines on the same data at every residual evaluation (and once more
    after the solve): (a) without any cycle nothing is iterated; (b) a weakly coupled discipline that depends
    on a cycle and feeds another discipline hands over values that lag one evaluation behind, so that the
    outputs downstream are stale and, when a cycle is downstream, the residual seen by SciPy is not a function
    of the unknowns (SciPy then often reports 'not making good progress', which gemseo ignores).
    """
    if cfg["kind"] not in ("solver", "sequential") or not uses_quasi_newton(cfg):
        return False
    if info["n_scc_ge2"] == 0 and info["n_self_coupled"] == 0:
        return True
    if model is None:
        return False
    succ = model.graph()
    in_cycle = {i for c in model.sccs() if len(c) > 1 or c[0] in succ[c[0]] for i in c}
    downstream = set(in_cycle)  # disciplines depending on a cycle
    frontier = set(in_cycle)
    while frontier:
        frontier = {k for i in frontier for k in succ[i]} - downstream
        downstream |= frontier
    return any(i not in in_cycle and succ[i] for i in downstream)


UNGUARDED_ACCELERATIONS = {"Aitken", "Secant", "AlternateDeltaSquared"}


def _solver_mdas(mda) -> list:
    subs = getattr(mda, "inner_mdas", None) or getattr(mda, "mda_sequence", None)
    if subs:
        return [m for sub in subs for m in _solver_mdas(sub)]
    return [mda]


def is_nan_on_stagnation(mda, aborted: bool = False) -> bool:
    """Ledger class (observed after the run): an MDA accelerated by Aitken / Secant / AlternateDeltaSquared whose
    residual history turned NaN (0/0 in the acceleration formula once successive residuals are identical).

    ``aborted``: the run was stopped by a harness discipline receiving NaN, i.e. before the NaN
    residual was recorded; the signature is then two identical last residuals.
    """
    for sub in _solver_mdas(mda):
        acc = str(getattr(sub, "acceleration_method", ""))
        if acc not in UNGUARDED_ACCELERATIONS:
            continue
        hist = [float(h) for h in sub.residual_history]
        if any(math.isnan(h) for h in hist):
            return True
        if aborted and len(hist) >= 2 and hist[-1] == hist[-2]:
            return True
    return False


def is_fd_step_degenerate(cfg: dict, model: CoupledSystem, out, sol: dict) -> bool:
    """MINPACK's forward-difference step h = 1.5e-8 |x_j| is useless for a coupling component that is tiny but not 0.

    hybr / lm without analytic gradient then see a zero Jacobian column and stop at a non-solution
    (a SciPy limitation on badly scaled unknowns, not a gemseo one): such a run is inconclusive.
    """
    if not any(s["cls"] == "MDAQuasiNewton" and s["qn_method"] in ("hybr", "lm") and not s["qn_grad"] for s in solver_parts(cfg)):
        return False
    for name in model.couplings():
        val = np.asarray(out.get(name), dtype=float).reshape(-1)
        if val.shape != sol[name].shape:
            return False
        stuck = (np.abs(val) > 0) & (np.abs(val) < 1e-9) & (np.abs(sol[name]) > 1e3 * np.abs(val))
        if bool(np.any(stuck)):
            return True
    return False


def execute_and_check(ctx, mda, model, cfg, x, sol, e0, label):
    """Run the MDA and apply oracles (1) and (2); None when the run falls in a known / inconclusive class."""
    from vlib.core import Violation

    del SCIPY_RESULTS[:]
    ctx.run()  # evaluations = generated systems + MDA executions judged by the oracles
    try:
        with _record_scipy_results():
            out = mda.execute(x)
    except NonFiniteInput as exc:  # raised by the harness disciplines: the MDA iterates on NaN / inf
        if is_nan_on_stagnation(mda, aborted=True) and ctx.known("acceleration_nan_on_stagnation"):
            return None
        ctx.fail("fixed_point", f"{label}: {exc}", cfg=cfg)
    except Exception as exc:
        if is_nan_on_stagnation(mda) and ctx.known("acceleration_nan_on_stagnation"):
            return None
        if is_scipy_nonlin_breakdown(exc, cfg) and ctx.known("quasi_newton_zero_solution"):
            # same family as C06-F2: SciPy's nonlin_solve breaks down (here on exactly singular secant updates)
            # and MDAQuasiNewton lets the exception through instead of returning
            ctx.cls("excluded:scipy_nonlin_breakdown_exception")
            return None
        raise
    if is_nan_on_stagnation(mda) and ctx.known("acceleration_nan_on_stagnation"):
        return None
    try:
        return check_returned(ctx, model, cfg, x, out, sol, e0, label)
    except Violation:
        if quasi_newton_budget_exhausted(mda, cfg) or any(not ok for ok, _ in SCIPY_RESULTS):
            ctx.cls("inconclusive:quasi_newton_scipy_reports_failure")
            ctx.note("MDAQuasiNewton runs in which SciPy itself reports a failure (budget exhausted, 'not making good "
                     "progress', ...) are counted as inconclusive (non-convergence of the third-party method)")
            return None
        if is_fd_step_degenerate(cfg, model, out, sol):
            ctx.cls("inconclusive:scipy_fd_step_degenerate")
            ctx.note("MDAQuasiNewton hybr/lm without gradient: runs stuck on a tiny non-zero coupling component "
                     "(MINPACK relative finite-difference step) are counted as inconclusive, not as violations")
            return None
        raise


def is_subresidual_scaling_without_resolved_variables(cfg: dict, info: dict) -> bool:
    """Ledger class: INITIAL_SUBRESIDUAL_NORM / INITIAL_RESIDUAL_COMPONENT on a top-level Gauss-Seidel MDA of a system without any cycle."""
    return (cfg["scaling"] in ("initial_subresidual_norm", "initial_residual_component", "scaled_initial_residual_component") and cfg["kind"] in ("solver", "sequential")
            and any(s["cls"] == "MDAGaussSeidel" for s in solver_parts(cfg)) and info["n_scc_ge2"] == 0 and info["n_self_coupled"] == 0)


SCIPY_RESULTS: list = []  # (success, message) of every scipy.optimize.root call of the current execution


class _record_scipy_results:
    """Observe the OptimizeResult of the scipy.optimize.root calls made by MDAQuasiNewton (gemseo drops it).

    Observation only: the wrapper forwards the arguments and returns SciPy's result unchanged.
    """

    def __enter__(self):
        import gemseo.mda.quasi_newton as module

        self.module, self.original = module, module.root

        def root(*args, **kwargs):
            result = self.original(*args, **kwargs)
            SCIPY_RESULTS.append((bool(result.success), str(result.message)))
            return result

        module.root = root
        return self

    def __exit__(self, *exc):
        self.module.root = self.original
        return False


def quasi_newton_budget_exhausted(mda, cfg: dict) -> bool:
    """A SciPy root method used all its evaluations / iterations (SciPy reports a failure that gemseo only logs)."""
    return any(type(sub).__name__ == "MDAQuasiNewton" and int(getattr(sub, "current_iter", 0)) >= cfg["budget"] for sub in _solver_mdas(mda))


def is_gauss_seidel_with_stale_weak_outputs(cfg: dict, model: CoupledSystem, order: list) -> bool:
    """Ledger class: a top-level Gauss-Seidel MDA in whose list order a weakly coupled discipline lags >= 2 sweeps.

    lag(d) = max over the producers p of the inputs of d of lag(p) (+1 when p is listed after d); disciplines in a
    cycle have lag 0 (their couplings are what the stop criterion watches).
    """
    if cfg["kind"] not in ("solver", "sequential") or not any(s["cls"] == "MDAGaussSeidel" for s in solver_parts(cfg)):
        return False
    succ = model.graph()
    in_cycle = {i for c in model.sccs() if len(c) > 1 or c[0] in succ[c[0]] for i in c}
    pos = {d: k for k, d in enumerate(order)}
    lag = {i: 0 for i in in_cycle}

    def lag_of(d):
        if d not in lag:
            lag[d] = 0  # weak disciplines form a DAG: no infinite recursion
            lag[d] = max((lag_of(model.producer[n]) + (pos[model.producer[n]] > pos[d])
                          for n in model.inputs_of[d] if n in model.producer), default=0)
        return lag[d]

    # with an acceleration or a relaxation the last move of the iterates is not bounded by the residual that the stop
    # criterion watches: a single sweep of lag already leaves such a discipline stale by more than the tolerance
    # (Alternate2Delta: 2.1e-6 at tolerance 1e-6; thorough tier, seed 6) - same root cause, same ledger entry
    transformed = any(s["cls"] == "MDAGaussSeidel" and (s.get("acc", "NoTransformation") != "NoTransformation" or float(s.get("omega", 1.0)) != 1.0)
                      for s in solver_parts(cfg))
    return any(lag_of(d) >= (1 if transformed else 2) for d in range(len(succ)) if d not in in_cycle)


NONLIN_SOLVE_METHODS = {"broyden1", "broyden2", "anderson", "krylov"}


def is_quasi_newton_zero_solution(cfg: dict, model: CoupledSystem, solutions: list[dict]) -> bool:
    """Ledger class: a SciPy nonlin_solve method whose unknowns are identically 0 at the exact solution.

    A plain MDAQuasiNewton resolves the strong couplings of all the cycles together; inside an
    MDAChain there is one MDAQuasiNewton per cycle.
    """
    if not any(s["cls"] == "MDAQuasiNewton" and s["qn_method"] in NONLIN_SOLVE_METHODS for s in solver_parts(cfg)):
        return False
    succ = model.graph()
    groups = []
    for comp in model.sccs():
        if len(comp) > 1 or comp[0] in succ[comp[0]]:
            ins = {n for i in comp for n in model.inputs_of[i]}
            groups.append([n for i in comp for n in model.outputs_of[i] if n in ins])
    if cfg["kind"] != "chain":
        groups = [[n for g in groups for n in g]]
    return any(g and all(not np.any(sol[n]) for n in g) for g in groups for sol in solutions)


def is_scipy_nonlin_breakdown(exc: BaseException, cfg: dict) -> bool:
    """Outcome-based part of the ledger class C06-F2: an exception raised by scipy.optimize._nonlin itself."""
    import traceback

    if not any(s_["cls"] == "MDAQuasiNewton" and s_["qn_method"] in NONLIN_SOLVE_METHODS for s_ in solver_parts(cfg)):
        return False
    frames = traceback.extract_tb(exc.__traceback__)
    in_scipy = bool(frames) and "scipy/optimize/_nonlin" in frames[-1].filename
    return in_scipy and isinstance(exc, (ArithmeticError, ValueError))  # ZeroDivisionError, OverflowError, ...


def iterations_of(mda) -> int:
    subs = getattr(mda, "inner_mdas", None) or getattr(mda, "mda_sequence", None)
    if subs:
        return sum(iterations_of(m) for m in subs)
    n = len(mda.residual_history)
    return n if n else int(getattr(mda, "current_iter", 0))


# --------------------------------------------------------------------------- the oracle
def residual_bound(cfg: dict, model: CoupledSystem, e0: float, vmax: float) -> float:
    """Upper bound rho of the max-norm of the last coupling residual allowed by the documented stop criterion.

    ``e0`` bounds the max-norm distance between any point at which an initial residual is taken
    and the solution, so every initial residual component is at most (1+q) e0 in magnitude (the
    sweep maps are q-contractions); an initial residual that is exactly 0 is replaced by 1 by gemseo.
    """
    tol, n = cfg["tol"], max(model.n_v, 1)
    r0 = (1.0 + model.q) * e0
    smax = max(model.sizes[name] for name in model.out_names)
    if uses_quasi_newton(cfg):
        # SciPy's own criteria, when it reports success (a reported failure is inconclusive, see execute_and_check):
        #   hybr / lm        relative step  <= tol            -> error <= tol ||y||_2 <= tol sqrt(n) vmax
        #   nonlin_solve     |F|_inf <= tol |F0|_inf and |dx|_inf <= tol |y|_inf  -> residual <= tol r0
        #   df-sane          ||F||_2 <= sqrt(n) tol + tol ||F0||_2               -> residual <= tol sqrt(n) (1 + r0)
        # and residual <= (1+q) error: all below tol sqrt(n) max(1, r0, vmax) (1+q); a safety factor ~75 is granted
        return 100.0 * tol * math.sqrt(n) * max(1.0, r0, vmax)
    return {
        "no_scaling": tol,  # ||R||_2 <= tol
        "n_coupling_variables": tol * math.sqrt(n),  # ||R||_2 <= tol sqrt(n_resolved)
        "initial_residual_norm": tol * max(1.0, math.sqrt(n) * r0),  # ||R||_2 <= tol ||R0||_2
        "initial_subresidual_norm": tol * max(1.0, math.sqrt(smax) * r0),  # per variable
        "initial_residual_component": tol * max(1.0, r0),  # per component
        "scaled_initial_residual_component": tol * math.sqrt(n) * max(1.0, r0),  # ||R / R0||_2 <= tol sqrt(n)
    }[cfg["scaling"]]


def check_returned(ctx, model, cfg, x, out, sol, e0, label):
    vmax = max((float(np.max(np.abs(v), initial=0.0)) for v in sol.values()), default=0.0)
    rho = residual_bound(cfg, model, e0, vmax)
    rounding = 1e-12 * (1.0 + vmax)
    data = dict(x)
    for name in model.out_names:
        val = out.get(name) if hasattr(out, "get") else None
        ctx.check(val is not None, "returned_data", f"{label}: output {name} is missing from the returned data", cfg=cfg)
        arr = np.asarray(val)
        ctx.check(arr.shape == (model.sizes[name],), "returned_data", f"{label}: output {name} has shape {arr.shape}", cfg=cfg)
        ctx.check(bool(np.all(np.isfinite(arr.astype(float)))), "fixed_point",
                  f"{label}: output {name} is not finite: {arr!r}", cfg=cfg)
        data[name] = arr.astype(float)
    # known finding C06-F8: MDAQuasiNewton keeps the non-resolved outputs of its last trial point; while it is
    # open, quasi-Newton configurations are only held to the outputs that are couplings inside a cycle
    names = model.out_names
    if uses_quasi_newton(cfg) and ctx.known("quasi_newton_outputs_of_last_trial_point", count=False):
        succ = model.graph()
        names = []
        for comp in model.sccs():
            if len(comp) > 1 or comp[0] in succ[comp[0]]:
                ins = {n for i in comp for n in model.inputs_of[i]}
                names += [n for i in comp for n in model.outputs_of[i] if n in ins]
        ctx.cls("quasi_newton_checked_on_strong_couplings_only")
    # (1) fixed point: every discipline re-executed on the returned data reproduces it.
    # a discipline output was computed from coupling inputs that moved by at most rho since, and every
    # discipline is q-Lipschitz in the max norm w.r.t. its coupling inputs: the defect is at most q * rho
    # (a factor 2 is granted; MDAQuasiNewton has its own, looser rho)
    # With an acceleration or a relaxation the returned iterate is the transformed one: its distance to the point at
    # which the disciplines were last executed is not controlled by q (Aitken: 8e-7 at tolerance 1e-6 with q = 0.2 on a
    # weakly coupled discipline lagging one sweep; thorough tier, seed 5). The defect is then held to the requested
    # tolerance itself (rho), with the same factor 2.
    transformed = any(s.get("acc", "NoTransformation") != "NoTransformation" or float(s.get("omega", 1.0)) != 1.0 for s in solver_parts(cfg))
    tau = (2.0 * rho if uses_quasi_newton(cfg) or transformed else 2.0 * model.q * rho) + rounding
    defect, where = model.defect(data, names)
    ctx.check(defect <= tau, "fixed_point",
              f"{label}: re-executing {where} on the returned data changes it by {defect:.3e} > {tau:.3e} "
              f"(tolerance {cfg['tol']}, scaling {cfg['scaling']})", cfg=cfg, defect=defect, bound=tau)
    # (2) exact solution: ||v - v*|| <= defect bound / (1 - q)
    err = max((float(np.max(np.abs(data[n] - sol[n]), initial=0.0)) for n in names), default=0.0)
    bound = tau / (1.0 - model.q) + rounding
    ctx.check(err <= bound, "exact_solution", f"{label}: distance to the exact solution {err:.3e} > {bound:.3e}", cfg=cfg, error=err, bound=bound)
    return data, bound, defect / tau if tau > 0 else 0.0


def case_mda(p, ctx):
    with warnings.catch_warnings():
        warnings.simplefilter("ignore")  # SciPy's quasi-Newton methods warn a lot
        _case_mda(p, ctx)


def _case_mda(p, ctx):
    model = CoupledSystem(p["system"])
    info = describe_graph(model)
    values = {k: np.array(v, dtype=float) for k, v in p["values"].items()}
    x1 = {n: values[n] for n in model.x_names}
    x2 = {n: values[n] + np.array(p["delta"][n], dtype=float) for n in model.x_names}
    sol1, sol2 = model.solve(x1), model.solve(x2)
    couplings = model.couplings()
    defaults = dict(p["values"])
    if p.get("start") == "near":
        # start values = the exact solution rounded to multiples of 1/64: small initial residuals, which
        # is where the criteria relative to the initial residual differ most from the absolute one
        for n in model.out_names:
            values[n] = np.round(64.0 * sol1[n]) / 64.0 + 0.0
            defaults[n] = values[n].tolist()
        ctx.cls("start_near_solution")
    start = {n: values[n] for n in model.out_names}
    e0_1 = max((float(np.max(np.abs(start[n] - sol1[n]))) for n in couplings), default=0.0)
    e0_2 = max((float(np.max(np.abs(start[n] - sol2[n]))) for n in couplings), default=0.0)
    e0_w = max((float(np.max(np.abs(sol1[n] - sol2[n]))) for n in couplings), default=0.0)
    e0 = max(e0_1, e0_2, e0_w)
    for key in ("n_scc_ge2", "n_self_coupled", "n_weak"):
        ctx.cls(f"{key}={min(info[key], 2)}{'+' if info[key] >= 2 else ''}")
    ctx.cls("system_linear" if info["linear"] else "system_nonlinear", f"n_disc={info['n_disc']}", f"q={model.q}")
    if info["unequal_sizes_in_cycle"]:
        ctx.cls("cycle_with_unequal_sizes")
    results = []
    for cfg in p["configs"]:
        parts = solver_parts(cfg)
        tag = cfg["kind"] + ":" + "+".join(s["cls"] for s in parts)
        n_disc = info["n_disc"]
        order = [i for i in cfg["perm"] if i < n_disc]
        factor = 0.5 if cfg.get("inexact_jac") else 1.0
        discs_all = build_disciplines(model, defaults, p["grammar"], reject_non_finite=True, coupling_jacobian_factor=factor)
        discs = [discs_all[i] for i in order]
        if cfg["kind"] == "sequential" and cfg.get("handoff"):
            first_tol, last = handoff_budgets(model, cfg["tol"])
            cfg = {**cfg, "first_budget": BUDGET, "first_tol": first_tol, "last_budget": last}
        if needs_all_strong(cfg) and not info["all_strong"]:
            # documented rejection by MDANewtonRaphson ...
            try:
                build_mda(cfg, discs)
            except ValueError:
                ctx.cls("rejected_weakly_coupled_newton")
            else:
                ctx.fail("documented_rejection", f"{tag}: a system with weakly coupled disciplines was accepted", cfg=cfg)
            # ... which recommends MDAChain: the same settings are then used for the inner MDAs
            if cfg["kind"] == "solver":
                cfg = {**cfg, "kind": "chain", "inner": cfg["solver"]}
            elif cfg["kind"] == "gsnewton":
                cfg = {**cfg, "kind": "chain", "inner": {"cls": "MDAGSNewton"}}
            else:
                continue
            parts = solver_parts(cfg)
            tag = cfg["kind"] + ":" + "+".join(s["cls"] for s in parts)
            discs_all = build_disciplines(model, defaults, p["grammar"], reject_non_finite=True, coupling_jacobian_factor=factor)
            discs = [discs_all[i] for i in order]
        if is_aitken_with_relaxation(cfg) and ctx.known("aitken_with_relaxation"):
            continue
        if is_sequential_ending_with_silent_quasi_newton(cfg) and ctx.known("sequential_ending_with_quasi_newton_without_residual_output"):
            continue
        if is_quasi_newton_without_strong_couplings(cfg, info, model) and ctx.known("quasi_newton_without_strong_couplings"):
            continue
        if is_subresidual_scaling_without_resolved_variables(cfg, info) and ctx.known("subresidual_scaling_without_resolved_variables"):
            continue
        if is_gauss_seidel_with_stale_weak_outputs(cfg, model, order) and ctx.known("gauss_seidel_stale_weakly_coupled_outputs"):
            continue
        if is_quasi_newton_zero_solution(cfg, model, [sol1, sol2] if cfg["twice"] else [sol1]) and ctx.known("quasi_newton_zero_solution"):
            continue
        if cfg["kind"] == "chain" and cfg.get("wrap") and info["n_scc_ge2"] >= 1:
            discs = wrap_cycles(model, discs, order, cfg["wrap"])
            ctx.cls("cycle_wrapped_in_" + cfg["wrap"])
        if cfg["kind"] == "chain" and cfg.get("sub_cs"):
            ctx.cls("sub_coupling_structures_given" + ("_two_or_more_cycles" if info["n_scc_ge2"] + info["n_self_coupled"] >= 2 else ""))
        if cfg["kind"] == "gsnewton":
            ctx.cls("gsnewton_settings_as_" + cfg.get("settings_as", "dict"), *(["inexact_discipline_jacobians"] if cfg.get("inexact_jac") else []))
            nr = cfg["nr"]
            if cfg["budget"] < BUDGET and (nr.get("acc", "NoTransformation") != "NoTransformation" or float(nr.get("omega", 1.0)) != 1.0):
                # the small budget of 10 iterations presumes the quadratic convergence of a plain Newton stage; a relaxed or
                # accelerated Newton stage converges linearly (omega = 0.6: factor 0.4) and gemseo then stops on the budget,
                # with a warning, before the criterion is met (thorough tier, seed 6): such stages get the full budget
                cfg = {**cfg, "budget": BUDGET}
                ctx.cls("gsnewton_transformed_newton_stage_gets_the_full_budget")
        if cfg["kind"] == "sequential" and cfg.get("handoff"):
            ctx.cls("sequential_handoff")
        if cfg["kind"] == "sequential" and cfg.get("first_tol") is not None and cfg["first_tol"] > cfg["tol"]:
            ctx.cls(f"sequential_starter_tolerance={cfg['first_tol']}")
        mda = build_mda(cfg, discs)
        ctx.cls("cfg:" + tag, "scaling:" + cfg["scaling"], f"tol={cfg['tol']}")
        for s in parts:
            if s["cls"] == "MDAQuasiNewton":
                ctx.cls("qn:" + s["qn_method"] + ("+grad" if s["qn_grad"] else ""))
            elif "acc" in s:
                ctx.cls("acc:" + s["acc"], f"omega={s['omega']}")
        res = execute_and_check(ctx, mda, model, cfg, x1, sol1, e0, f"{tag} run 1")
        n_it = iterations_of(mda)
        if res is None:
            continue
        data, bound, ratio = res
        ctx.extra["max_iterations"] = max(ctx.extra.get("max_iterations", 0), n_it)
        key = "max_defect_over_bound_quasi_newton" if uses_quasi_newton(cfg) else "max_defect_over_bound_" + cfg["scaling"]
        ctx.extra[key] = max(ctx.extra.get(key, 0.0), round(ratio, 4))
        if n_it >= cfg["budget"]:
            ctx.cls("budget_reached")
        results.append((tag, data, bound))
        if cfg["twice"]:
            label = f"{tag} run 2 ({'warm' if cfg['warm'] else 'cold'} start)"
            if execute_and_check(ctx, mda, model, cfg, x2, sol2, e0, label) is None:
                continue
            ctx.cls("second_run_warm" if cfg["warm"] else "second_run_cold")
        if info["n_scc_ge2"] >= 1 and info["unequal_sizes_in_cycle"] and n_it >= 2:
            ctx.nontriv((p["system"], p["values"], cfg))
            ctx.cls("nontrivial")
    # (3) all configurations agree
    for a in range(len(results)):
        for b in range(a + 1, len(results)):
            ta, da, ba = results[a]
            tb, db, bb = results[b]
            diff = max((float(np.max(np.abs(da[n] - db[n]), initial=0.0)) for n in model.out_names), default=0.0)
            ctx.check(diff <= ba + bb, "agreement", f"{ta} and {tb} differ by {diff:.3e} > {ba + bb:.3e}")
    ctx.sample({"oracle": "mda", "case": p})


# --------------------------------------------------------------------------- acceleration x relaxation drive
ACC_OMEGAS = [0.6, 0.8, 1.0, 1.2]
ACC_COMBINATIONS = [(cls, acc, omega) for cls in ("MDAJacobi", "MDAGaussSeidel") for acc in ACCELERATIONS for omega in ACC_OMEGAS]
# combinations in which a wrong pairing (iterate, residual) inside RelaxationAcceleration only shows on a few
# percent of the systems: run on every case
ACC_ALWAYS = [("MDAJacobi", "MinimumPolynomial", 0.6), ("MDAJacobi", "MinimumPolynomial", 0.8)]


@st.composite
def acceleration_cases(draw):
    system = draw(coupled_systems(max_disc=4, all_strong=True, nonlinear=False, extra_outputs=False))
    omega = draw(st.sampled_from(ACC_OMEGAS))  # per case: both classes x every acceleration at one over-relaxation factor
    drawn = [k for k, c in enumerate(ACC_COMBINATIONS) if c[2] == omega and tuple(c) not in ACC_ALWAYS]
    return {"system": system, "values": draw(input_values(system)), "tol": draw(st.sampled_from([1e-6, 1e-10])),
            "scaling": draw(st.sampled_from(SCALINGS + ["initial_subresidual_norm"] * 8)),
            # "consistent": the start value of the output of one discipline is what this discipline computes from the
            # other start values: its initial sub-residual is exactly 0 in a Jacobi sweep
            "start": draw(st.sampled_from(["grid", "grid", "near", "consistent", "consistent"])), "which": draw(st.integers(0, 3)),
            "combinations": [list(c) for c in ACC_ALWAYS] + [list(ACC_COMBINATIONS[k]) for k in drawn]}


def _plain(cls: str, acc: str = "NoTransformation", omega: float = 1.0) -> dict:
    return {"cls": cls, "acc": acc, "omega": omega, "nr_solver": "DEFAULT", "nr_matrix": "matrix", "qn_method": "hybr", "qn_grad": False}


def run_handoff(ctx, model, defaults, x, sol, e0, tol, last_cls, order=None):
    """MDASequential([plain Jacobi to 100 tol, plain Jacobi / Gauss-Seidel with the budget needed from there]); same oracles."""
    first_tol, last = handoff_budgets(model, tol)
    cfg = {"kind": "sequential", "tol": tol, "scaling": "no_scaling", "warm": False, "twice": False, "perm": [0, 1, 2, 3, 4],
           "budget": BUDGET, "seq": [_plain("MDAJacobi"), _plain(last_cls)], "first_budget": BUDGET, "first_tol": first_tol,
           "last_budget": last, "handoff": True}
    order = list(range(len(model.outputs_of))) if order is None else order
    if is_gauss_seidel_with_stale_weak_outputs(cfg, model, order) and ctx.known("gauss_seidel_stale_weakly_coupled_outputs"):
        return None
    discs = build_disciplines(model, defaults, "SimpleGrammar", reject_non_finite=True)
    mda = build_mda(cfg, [discs[i] for i in order])
    ctx.cls("structured_handoff:" + last_cls)
    return execute_and_check(ctx, mda, model, cfg, x, sol, e0, f"hand-off MDAJacobi+{last_cls}")


def case_acceleration(p, ctx):
    """Every acceleration method x over-relaxation factor x {Jacobi, Gauss-Seidel} on cheap linear rings; same oracles."""
    with warnings.catch_warnings():
        warnings.simplefilter("ignore")
        model = CoupledSystem(p["system"])
        values = {k: np.array(v, dtype=float) for k, v in p["values"].items()}
        x = {n: values[n] for n in model.x_names}
        sol = model.solve(x)
        defaults = dict(p["values"])
        if p.get("start") == "near":  # as in the main drive: small initial residuals
            for n in model.out_names:
                values[n] = np.round(64.0 * sol[n]) / 64.0 + 0.0
                defaults[n] = values[n].tolist()
        elif p.get("start") == "consistent":
            i = p.get("which", 0) % len(model.outputs_of)
            for n, v in model.run(i, values).items():
                values[n] = v + 0.0
                defaults[n] = v.tolist()
            ctx.cls("acc_drive_start_consistent")
        e0 = max((float(np.max(np.abs(values[n] - sol[n]))) for n in model.couplings()), default=0.0)
        results = []
        for cls, acc, omega in p["combinations"]:
            cfg = {"kind": "solver", "tol": p["tol"], "scaling": p["scaling"], "warm": False, "twice": False, "perm": [0, 1, 2, 3, 4],
                   "budget": BUDGET, "solver": {"cls": cls, "acc": acc, "omega": omega, "nr_solver": "DEFAULT", "nr_matrix": "matrix",
                                                "qn_method": "hybr", "qn_grad": False}}
            if is_aitken_with_relaxation(cfg) and ctx.known("aitken_with_relaxation"):
                continue
            mda = build_mda(cfg, build_disciplines(model, defaults, "SimpleGrammar", reject_non_finite=True))
            tag = f"{cls}/{acc}/{omega}"
            ctx.cls("acc_drive:" + tag, "acc_drive_scaling:" + p["scaling"])
            res = execute_and_check(ctx, mda, model, cfg, x, sol, e0, tag)
            if res is None:
                continue
            n_it = iterations_of(mda)
            ctx.extra["max_iterations_acceleration_drive"] = max(ctx.extra.get("max_iterations_acceleration_drive", 0), n_it)
            results.append((tag, res[0], res[1]))
            if n_it >= 2 and len(model.sizes) > 0:
                ctx.nontriv(("acc", p["system"], p["values"], p["tol"], tag))
        res = run_handoff(ctx, model, defaults, x, sol, e0, p["tol"], "MDAJacobi" if p.get("which", 0) % 2 == 0 else "MDAGaussSeidel")
        if res is not None:
            results.append(("hand-off sequence", res[0], res[1]))
        for a in range(len(results)):
            for b in range(a + 1, len(results)):
                diff = max((float(np.max(np.abs(results[a][1][n] - results[b][1][n]), initial=0.0)) for n in model.out_names), default=0.0)
                ctx.check(diff <= results[a][2] + results[b][2], "agreement",
                          f"{results[a][0]} and {results[b][0]} differ by {diff:.3e} > {results[a][2] + results[b][2]:.3e}")


# --------------------------------------------------------------------------- tail drive
@st.composite
def tail_cases(draw):
    system = draw(coupled_systems(tail=True))
    return {"system": system, "values": draw(input_values(system)), "tol": draw(st.sampled_from([1e-6, 1e-10])),
            "perm": draw(st.permutations(list(range(5)))), "last": draw(st.sampled_from(["MDAJacobi", "MDAGaussSeidel"]))}


def case_tail(p, ctx):
    """A ring of two followed by a chain of 2-3 weakly coupled disciplines: MDAJacobi (whose residual has to cover the
    couplings between the weakly coupled disciplines, several sweeps late) with three accelerations, and a hand-off sequence."""
    with warnings.catch_warnings():
        warnings.simplefilter("ignore")
        model = CoupledSystem(p["system"])
        values = {k: np.array(v, dtype=float) for k, v in p["values"].items()}
        x = {n: values[n] for n in model.x_names}
        sol = model.solve(x)
        e0 = max((float(np.max(np.abs(values[n] - sol[n]))) for n in model.couplings()), default=0.0)
        order = [i for i in p["perm"] if i < len(model.outputs_of)]
        for acc in ("NoTransformation", "Alternate2Delta", "MinimumPolynomial"):
            cfg = {"kind": "solver", "tol": p["tol"], "scaling": "no_scaling", "warm": False, "twice": False, "perm": p["perm"],
                   "budget": BUDGET, "solver": _plain("MDAJacobi", acc)}
            discs = build_disciplines(model, p["values"], "SimpleGrammar", reject_non_finite=True)
            mda = build_mda(cfg, [discs[i] for i in order])
            ctx.cls("tail_drive:MDAJacobi/" + acc)
            if execute_and_check(ctx, mda, model, cfg, x, sol, e0, "tail MDAJacobi/" + acc) is not None and iterations_of(mda) >= 2:
                ctx.nontriv(("tail", p["system"], p["values"], p["tol"], acc, order))
        run_handoff(ctx, model, p["values"], x, sol, e0, p["tol"], p["last"], order)


ORACLES = {"mda": case_mda, "acceleration": case_acceleration, "tail": case_tail}


def run(ctx):
    ctx.drive("mda", cases(), case_mda, quick=450, thorough=2500)
    ctx.drive("acceleration", acceleration_cases(), case_acceleration, quick=110, thorough=600)
    ctx.drive("tail", tail_cases(), case_tail, quick=60, thorough=400)
