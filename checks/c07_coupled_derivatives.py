"""C07 - Coupled total derivatives satisfy the implicit-function equations.

A generated contractive coupled system (vlib/gen/coupled.py) is converged by an MDA at tolerance
1e-14, linearised for 1-3 successive (input subset, output subset) requests, and every returned
block is compared with the closed form  d v*/dx = (I - dG/dv)^-1 dG/dx  built by the plain-numpy
model from the exact partial Jacobians with dense numpy.linalg.solve.
"""

from __future__ import annotations

import logging
import warnings

import numpy as np
from hypothesis import strategies as st
from scipy.sparse.linalg import LinearOperator

from vlib.core import Violation
from vlib.gen.coupled import CoupledSystem, build_disciplines, coupled_systems, describe_graph, input_values

logging.getLogger("gemseo").setLevel(logging.ERROR)


class _Collector(logging.Handler):
    """Keeps the warnings of the linear solver wrappers (non-convergence is only logged by gemseo)."""

    def __init__(self):
        super().__init__(logging.WARNING)
        self.messages = []

    def emit(self, record):
        self.messages.append(record.getMessage())


_LINEAR_SOLVER_LOG = _Collector()
_logger = logging.getLogger("gemseo.algos.linear_solvers")
_logger.setLevel(logging.WARNING)
_logger.propagate = False
_logger.addHandler(_LINEAR_SOLVER_LOG)

PROPERTY = "C07"
LEVEL = "exploration"
RULE = (
    "Hypothesis draws a contractive coupled system (2-5 disciplines, output sizes 1-3, 1-3 design inputs of size 1-2, "
    "rings, several strongly connected components, weakly coupled pre/post and self-coupled disciplines, tanh terms, "
    "non-coupling outputs, dense, sparse or matrix-free JacobianOperator partial Jacobians, optionally disciplines in "
    "residual/state form (state solved by the discipline, or by a Newton MDA), feed-forward systems two cases in seven, optionally design inputs whose whole effect is scaled by 1e-10 or 1e-13), input "
    "values, an MDA (GaussSeidel, Jacobi, NewtonRaphson, MDAChain with either inner MDA and chain_linearize on/off; "
    "tolerance 1e-14), a linearisation configuration (mode auto/direct/adjoint, matrix or linear operator, LU on/off, "
    "linear solver among DEFAULT/LGMRES/GMRES/BICGSTAB/BICG/CGS/GCROT/TFQMR at tolerance 1e-12) and 1-3 successive "
    "requests (non-empty subsets of the inputs and outputs, accumulated with add_differentiated_inputs/outputs on the "
    "same MDA object), optionally followed by a linearisation at perturbed inputs or of all dependent (input, output) pairs.  Every "
    "returned block must have the shape (output size, input size) and equal the closed-form implicit-function "
    "derivative.  Non-trivial = >=2 strongly coupled disciplines whose coupling outputs have unequal sizes and a "
    "request that is a strict subset of the inputs or outputs; distinct = structural hash of (system, inputs, "
    "configuration, requests)."
)
ASSUMPTIONS = [
    "well-conditioned = the one-sweep map of the system is a max-norm contraction with factor q <= 0.3 (by construction): "
    "cond_inf(dR/dy) <= (1+q)/(1-q) <= 1.86",
    "the linearisation point is the MDA solution at tolerance 1e-14 (NO_SCALING): its distance to the exact solution "
    "changes the Jacobian of the mildly non-linear systems by less than 1e-12",
    "tolerances: |d o/d x_k - closed form| <= tol (2 m_k + max|closed form block|), m_k = largest |partial derivative| of any "
    "discipline output w.r.t. x_k at the solution (0.5-1.5 for ordinary inputs, 1e-13 times that for badly scaled ones): "
    "right-hand sides (direct) and final products (adjoint) are proportional to those partials and the linear solves are "
    "accurate relatively to their right-hand side; tol = 1e-9 for DEFAULT / LU, 1e-7 for the named Krylov solvers",
    "a badly scaled design input (all its partials times 1e-10 or 1e-13) belongs to the domain: dR/dy stays well conditioned",
    "a RuntimeError 'breakdown' raised, NaN returned or a non-convergence logged (gemseo then uses the unconverged solution) by a named Krylov solver (BICGSTAB, BICG, CGS, GCROT, TFQMR, GMRES, LGMRES) is "
    "inconclusive for that solver (class 'inconclusive:krylov_breakdown'), CG is not used (needs a symmetric matrix)",
    "BICG and CGS (irregular convergence) can return a diverged iterate with info == 0 and no log: such a failure is re-run with the DEFAULT "
    "solver, all else equal; if that passes the case is inconclusive for the solver (class 'inconclusive:irregular_krylov_silent_divergence'), "
    "otherwise the original violation is reported",
    "LU factorisation is requested with the sparse matrix type only (documented ValueError with linear operators, checked)",
    "MDANewtonRaphson is given all-strongly-coupled systems only (others reach it through MDAChain)",
    "residual/state-form disciplines solve their own state equations (state_equations_are_solved=True) except, when drawn, in "
    "single-ring systems under MDANewtonRaphson (alone or inside an MDAChain), where the MDA resolves the state from the "
    "residual and its partials (state_equations_are_solved=False)",
]

MODES = ["auto", "direct", "adjoint"]
LINEAR_SOLVERS = ["DEFAULT", "DEFAULT", "LGMRES", "GMRES", "BICGSTAB", "BICG", "CGS", "GCROT", "TFQMR"]
KRYLOV = {"LGMRES", "GMRES", "BICGSTAB", "BICG", "CGS", "GCROT", "TFQMR"}
MDAS = ["MDAGaussSeidel", "MDAJacobi", "MDANewtonRaphson", "MDAChain", "MDAChain"]


@st.composite
def cases(draw):
    shape = draw(st.sampled_from(["any", "any", "any", "ring", "feed_forward", "feed_forward", "state_ring"]))
    system = draw(coupled_systems(state_form=True if shape == "state_ring" else draw(st.booleans()), operator_jacobians=True,
                                  input_scales=draw(st.integers(0, 2)) == 0,
                                  all_strong=True if shape in ("ring", "state_ring") else None, acyclic=shape == "feed_forward",
                                  max_disc=3 if shape == "feed_forward" else 5, more_self_coupled=True))
    values = draw(input_values(system))
    n_in = len(system["x"])
    out_names = [o["name"] for d in system["discs"] for o in d["outputs"]]
    requests = draw(st.lists(
        st.fixed_dictionaries({
            "inputs": st.lists(st.integers(0, n_in - 1), min_size=1, max_size=n_in, unique=True),
            "outputs": st.lists(st.integers(0, len(out_names) - 1), min_size=1, max_size=min(len(out_names), 4), unique=True),
            "dependent": st.sampled_from([True, True, True, False]),
        }), min_size=1, max_size=3))
    matrix = draw(st.sampled_from(["matrix", "matrix", "linear_operator"] if shape != "feed_forward" else ["matrix"] * 3 + ["linear_operator"]))
    # LU with a linear operator is a documented rejection: kept rare; feed-forward systems (integer -I blocks only in
    # the residual Jacobian) get the LU option more often
    if matrix != "matrix":
        lu = draw(st.integers(0, 7)) == 0
    else:
        lu = draw(st.booleans()) or (shape == "feed_forward" and draw(st.booleans()))
    newton_ring = shape == "state_ring"
    return {
        "system": system, "values": values, "requests": requests,
        # residual/state-form disciplines leave their state to the MDA (state_equations_are_solved=False) where an MDA
        # able to resolve it is used: a single ring under MDANewtonRaphson (directly or as the inner MDA of an MDAChain)
        "state_unsolved": True if newton_ring else draw(st.booleans()),
        "mda": draw(st.sampled_from(MDAS if not newton_ring else ["MDANewtonRaphson", "MDAChain"])),
        "inner": draw(st.sampled_from(["MDAJacobi", "MDAGaussSeidel", "MDANewtonRaphson"] if not newton_ring else ["MDANewtonRaphson"])),
        "chain_linearize": draw(st.booleans()),
        "mode": draw(st.sampled_from(MODES)),
        "matrix": matrix,
        "lu": lu,
        "solver": draw(st.sampled_from(LINEAR_SOLVERS)),
        "final": draw(st.sampled_from(["none", "none", "new_point", "all_pairs"])),
        "delta": {v["name"]: [draw(st.sampled_from([-0.5, 0.0, 0.25, 1.0])) for _ in range(v["size"])] for v in system["x"]},
        "perm": draw(st.permutations(list(range(5)))),
        "grammar": draw(st.sampled_from(["SimpleGrammar", "SimpleGrammar", "SimpleGrammar", "JSONGrammar"])),
    }


def build_mda(p: dict, discs: list, info: dict):
    from gemseo.mda.factory import MDAFactory

    common = {"tolerance": 1e-14, "max_mda_iter": 60, "use_lu_fact": p["lu"], "linear_solver": p["solver"],
              "linear_solver_tolerance": 1e-12}
    name = p["mda"]
    if name == "MDANewtonRaphson" and not info["all_strong"]:
        name = "MDAChain"  # documented: weakly coupled disciplines need an MDAChain
        inner = "MDANewtonRaphson"
    else:
        inner = p["inner"]
    factory = MDAFactory()
    # the Newton linear systems have at most 15 well-conditioned unknowns: Krylov methods need at most that many
    # iterations; the cap only matters when the operator is wrong (mutated trees would otherwise take minutes per case)
    newton = {"newton_linear_solver_settings": {"maxiter": 100}}
    if name == "MDAChain":
        inner_settings = {} if inner == "MDAGaussSeidel" else {"n_processes": 1}
        if inner == "MDANewtonRaphson":
            inner_settings.update(newton)
        mda = factory.create("MDAChain", discs, inner_mda_name=inner, inner_mda_settings=inner_settings, n_processes=1,
                             chain_linearize=p["chain_linearize"], **common)
        tag = f"MDAChain[{inner}{',chain_linearize' if p['chain_linearize'] else ''}]"
    elif name == "MDAGaussSeidel":
        mda = factory.create(name, discs, **common)
        tag = name
    else:
        mda = factory.create(name, discs, n_processes=1, **(newton if name == "MDANewtonRaphson" else {}), **common)
        tag = name
    mda.scaling = mda.ResidualScaling.NO_SCALING
    for sub in [mda, *getattr(mda, "inner_mdas", [])]:
        sub.matrix_type = p["matrix"]
        sub.linearization_mode = p["mode"]
    return mda, tag


def reads_state_of_other_discipline(model: CoupledSystem, out_name: str, transitively: bool = False) -> bool:
    """Ledger class: the requested output belongs to a discipline reading a state variable of another discipline.

    ``transitively`` (MDAChain with chain_linearize: the inner MDAs are linearised for the couplings they hand
    downstream, then the chain rule is applied): ... or to a discipline downstream of such a discipline.
    """
    readers = {i for i in range(len(model.inputs_of))
               if {w for j, (w, _, _) in model.state_of.items() if j != i}.intersection(model.inputs_of[i])}
    if transitively:
        succ = model.graph()
        frontier = set(readers)
        while frontier:
            frontier = {k for i in frontier for k in succ[i]} - readers
            readers |= frontier
    return model.producer[out_name] in readers


def reachable_outputs(model: CoupledSystem, x_name: str) -> set:
    """Outputs that depend (structurally, through the declared inputs) on the design input ``x_name``."""
    seen_disc, names, frontier = set(), set(), {x_name}
    while frontier:
        nxt = set()
        for i, ins in enumerate(model.inputs_of):
            if i not in seen_disc and frontier.intersection(ins):
                seen_disc.add(i)
                nxt.update(model.outputs_of[i])
        names.update(nxt)
        frontier = nxt
    return names


def _forward(model: CoupledSystem, req_in) -> set:
    fwd = set(req_in)
    changed = True
    while changed:
        changed = False
        for i, ins in enumerate(model.inputs_of):
            if fwd.intersection(ins) and not fwd.issuperset(model.outputs_of[i]):
                fwd.update(model.outputs_of[i])
                changed = True
    return fwd


def _backward(model: CoupledSystem, req_out) -> set:
    bwd = set(req_out)
    changed = True
    while changed:
        changed = False
        for i, outs in enumerate(model.outputs_of):
            if bwd.intersection(outs) and not bwd.issuperset(model.inputs_of[i]):
                bwd.update(model.inputs_of[i])
                changed = True
    return bwd


def upstream_cycle_not_on_path(model: CoupledSystem, req_in: list, req_out: list) -> bool:
    """Ledger class: a cycle on the differentiation path reads a strong coupling of another cycle."""
    succ = model.graph()
    groups = [c for c in model.sccs() if len(c) > 1 or c[0] in succ[c[0]]]
    fwd, bwd = _forward(model, req_in), _backward(model, req_out)
    strong = []
    for g in groups:
        ins = {n for i in g for n in model.inputs_of[i]}
        strong.append({n for i in g for n in model.outputs_of[i] if n in ins})
    for k, g in enumerate(groups):
        g_in = {n for i in g for n in model.inputs_of[i]}
        g_out = {n for i in g for n in model.outputs_of[i]}
        if not (fwd.intersection(g_in) and bwd.intersection(g_out)):
            continue
        for h, other in enumerate(groups):
            if h != k and strong[h].intersection(g_in):
                return True
    return False


def state_form_discipline_not_on_path(model: CoupledSystem, req_in: list, req_out: list) -> bool:
    """Ledger class: a discipline in residual/state form does not lie between the requested inputs and outputs."""
    if not model.state_of:
        return False
    fwd, bwd = _forward(model, req_in), _backward(model, req_out)
    return any(not (fwd.intersection(model.inputs_of[i]) and bwd.intersection(model.outputs_of[i])) for i in model.state_of)


def minimal_couplings_empty(model: CoupledSystem, req_in: list, req_out: list) -> bool:
    """Ledger class: no coupling variable lies on a dependency path from the requested inputs to the requested outputs
    (every requested input reaching a requested output: the other case is its own class)."""
    if model.state_of:
        return False  # residual names are always part of the assembled system
    if has_structurally_zero_row_or_column(model, req_in, req_out):
        return False
    fwd = set(req_in)
    changed = True
    while changed:
        changed = False
        for i, ins in enumerate(model.inputs_of):
            if fwd.intersection(ins) and not fwd.issuperset(model.outputs_of[i]):
                fwd.update(model.outputs_of[i])
                changed = True
    bwd = set(req_out)
    changed = True
    while changed:
        changed = False
        for i, outs in enumerate(model.outputs_of):
            if bwd.intersection(outs) and not bwd.issuperset(model.inputs_of[i]):
                bwd.update(model.inputs_of[i])
                changed = True
    return not (fwd & bwd).intersection(model.couplings())


def has_structurally_zero_row_or_column(model: CoupledSystem, req_in: list, req_out: list) -> bool:
    """Ledger class: a requested input reaching no requested output, or a requested output reached by no requested input."""
    reach = {i: reachable_outputs(model, i) for i in req_in}
    if any(not reach[i].intersection(req_out) for i in req_in):
        return True
    return any(all(o not in reach[i] for i in req_in) for o in req_out)


class _KrylovBreakdown(Exception):
    """A named Krylov solver returned NaN / inf (lucky breakdown not reported by SciPy)."""


def resolve_request(model: CoupledSystem, req: dict, used_x: list) -> tuple[list, list]:
    """Names of a drawn request (indices modulo).

    With ``req["dependent"]`` (3 requests out of 4) the request is completed / pruned by construction so that
    it has no structurally zero row or column (known finding C07-F2): outputs that depend on no design input
    are dropped, inputs reaching no requested output are replaced by one that does.
    """
    ins = [used_x[i % len(used_x)] for i in req["inputs"]]
    outs = [model.out_names[i % len(model.out_names)] for i in req["outputs"]]
    if not req.get("dependent", False):
        return sorted(set(ins)), sorted(set(outs))
    reach = {x: reachable_outputs(model, x) for x in used_x}
    dependent = [o for o in model.out_names if any(o in reach[x] for x in used_x)]
    outs = [o if o in dependent else dependent[k % len(dependent)] for k, o in enumerate(outs)] if dependent else outs
    ins = [x for x in ins if reach[x].intersection(outs)]
    for o in outs:
        if not any(o in reach[x] for x in ins):
            ins.append(next(x for x in used_x if o in reach[x]))
    return sorted(set(ins)), sorted(set(outs))


def input_magnitudes(model: CoupledSystem, x: dict, sol: dict) -> dict:
    """Largest |partial derivative| of any discipline output w.r.t. each design input at the solution.

    The error of a total-derivative block w.r.t. ``x_k`` is relative to this magnitude: the right-hand sides
    (direct mode) or the final products (adjoint mode) are proportional to the partial Jacobians w.r.t. ``x_k``,
    and the linear solves are accurate relatively to their right-hand side (``rtol``).
    """
    data = dict(x)
    data.update(sol)
    _, jx = model.system_jacobians(data)
    return {n: float(np.max(np.abs(jx[:, model.x_offset[n]: model.x_offset[n] + model.sizes[n]]), initial=0.0)) for n in model.x_names}


def compare(ctx, p, model, tag, jac, expected, in_names, out_names, label, magnitude):
    tol = 1e-7 if p["solver"] in KRYLOV and not (p["lu"] and p["matrix"] == "matrix") else 1e-9
    if p["solver"] in KRYLOV and any("did not converge" in m for m in _LINEAR_SOLVER_LOG.messages):
        raise _KrylovBreakdown  # logged by gemseo, the unconverged solution is used: inconclusive for that solver
    ctx.check(hasattr(jac, "keys"), "shape", f"{tag} {label}: linearize returned {type(jac).__name__}")
    for o in out_names:
        ctx.check(o in jac, "requested_pairs", f"{tag} {label}: requested output {o} is missing from the Jacobian")
        for i in in_names:
            ctx.check(i in jac[o], "requested_pairs", f"{tag} {label}: d{o}/d{i} is missing from the Jacobian")
    for o, row in jac.items():
        if o not in model.sizes or o not in model.producer:
            continue
        for i, blk in row.items():
            if i not in model.x_offset:
                continue
            chained = tag.startswith("MDAChain") and p["chain_linearize"]
            if model.state_of and reads_state_of_other_discipline(model, o, chained) and ctx.known("function_reads_state_variable", count=False):
                ctx.cls("block_excluded:function_reads_state_variable")
                continue
            if isinstance(blk, LinearOperator):  # matrix-free result (chain rule over JacobianOperator partials)
                ctx.cls("block_returned_as_operator")
                arr = np.asarray(blk.dot(np.eye(blk.shape[1])))
            else:
                arr = blk.toarray() if hasattr(blk, "toarray") else np.asarray(blk)
            exp = expected[o][i]
            ctx.check(arr.shape == exp.shape, "shape", f"{tag} {label}: d{o}/d{i} has shape {arr.shape}, expected {exp.shape}")
            if p["solver"] in KRYLOV and not np.all(np.isfinite(arr)) and not (p["lu"] and p["matrix"] == "matrix"):
                raise _KrylovBreakdown
            ctx.check(bool(np.all(np.isfinite(arr))), "closed_form", f"{tag} {label}: d{o}/d{i} is not finite")
            err = float(np.max(np.abs(arr - exp), initial=0.0))
            # relative to the input's own scale: 1 + max|exp| for the usual inputs (partials of magnitude 0.5-1.5)
            bound = tol * (2.0 * magnitude[i] + float(np.max(np.abs(exp), initial=0.0))) + 1e-300
            requested = o in out_names and i in in_names
            ctx.check(err <= bound, "closed_form" if requested else "unrequested_pairs",
                      f"{tag} {label}: d{o}/d{i} differs from the implicit-function closed form by {err:.3e} > {bound:.1e} "
                      f"(mode {p['mode']}, {p['matrix']}, lu={p['lu']}, solver {p['solver']})",
                      got=arr, expected=exp)
            ctx.extra["max_error_over_bound"] = max(ctx.extra.get("max_error_over_bound", 0.0), round(err / bound, 6))


IRREGULAR_KRYLOV = {"BICG", "CGS"}  # SciPy documents their irregular convergence; they can report success on a diverged iterate


def case_derivatives(p, ctx):
    from vlib.core import Violation

    with warnings.catch_warnings():
        warnings.simplefilter("ignore")
        try:
            _case_derivatives(p, ctx)
        except Violation as violation:
            if p["solver"] not in IRREGULAR_KRYLOV or violation.oracle not in ("closed_form", "unrequested_pairs"):
                raise
            # Silent divergence of SciPy's bicg / cgs (info == 0, nothing logged, entries of 1e10; found by the thorough
            # tier at seed 5): the same request with the robust default solver - everything else identical, so gemseo's
            # assembly is the same - decides whether the failure is the SciPy routine's (inconclusive) or gemseo's.
            try:
                _case_derivatives(dict(p, solver="DEFAULT"), ctx)
            except Violation:
                raise violation from None
            ctx.cls("inconclusive:irregular_krylov_silent_divergence")
            ctx.note("bicg / cgs returned a diverged solution as converged while the default solver satisfies the closed form: inconclusive for that solver")


def _case_derivatives(p, ctx):
    del _LINEAR_SOLVER_LOG.messages[:]
    model = CoupledSystem(p["system"])
    info = describe_graph(model)
    values = {k: np.array(v, dtype=float) for k, v in p["values"].items()}
    x1 = {n: values[n] for n in model.x_names}
    # inputs that no discipline reads are not inputs of the MDA
    used_x = [n for n in model.x_names if any(n in names for names in model.inputs_of)]
    if not used_x:
        ctx.cls("no_design_input_is_read")
        return
    order = [i for i in p["perm"] if i < info["n_disc"]]
    newton = p["mda"] == "MDANewtonRaphson" or (p["mda"] == "MDAChain" and p["inner"] == "MDANewtonRaphson")
    unsolved = bool(p.get("state_unsolved")) and bool(model.state_of) and newton and info["all_strong"] and info["n_scc_ge2"] == 1 \
        and info["largest_scc"] == info["n_disc"]
    if unsolved:
        ctx.cls("state_resolved_by_the_mda")
    if info["n_scc_ge2"] == 0 and info["n_self_coupled"] == 0:
        ctx.cls("feed_forward_system")
    discs_all = build_disciplines(model, p["values"], p["grammar"], state_solved=not unsolved, reject_non_finite=True)
    discs = [discs_all[i] for i in order]
    lu_with_operator = p["lu"] and p["matrix"] == "linear_operator"
    mda, tag = build_mda(p, discs, info)
    ctx.cls("mda:" + tag, "mode:" + p["mode"], "matrix:" + p["matrix"], "solver:" + p["solver"], "lu" if p["lu"] else "no_lu",
            "system_linear" if info["linear"] else "system_nonlinear")
    if model.state_of:
        ctx.cls("state_form_discipline")
    for key in ("n_scc_ge2", "n_self_coupled", "n_weak"):
        ctx.cls(f"{key}={min(info[key], 2)}{'+' if info[key] >= 2 else ''}")
    sol1 = model.solve(x1)
    exp1 = model.total_derivatives(x1, sol1)
    mag1 = input_magnitudes(model, x1, sol1)
    if any(v != 1.0 for v in model.x_scale.values()):
        ctx.cls("badly_scaled_design_input")
    if any(d.get("jac") == "operator" for d in p["system"]["discs"]):
        ctx.cls("operator_partial_jacobians")
    req_in, req_out = [], []
    strict = False

    def excluded_by_known_finding() -> bool:
        if has_structurally_zero_row_or_column(model, req_in, req_out) and ctx.known("requested_input_without_dependent_output"):
            return True
        if minimal_couplings_empty(model, req_in, req_out) and ctx.known("request_without_coupling_on_path"):
            return True
        if upstream_cycle_not_on_path(model, req_in, req_out) and ctx.known("upstream_cycle_not_on_path"):
            return True
        return state_form_discipline_not_on_path(model, req_in, req_out) and ctx.known("state_form_discipline_not_on_path")

    try:
        for k, req in enumerate(p["requests"]):
            ins, outs = resolve_request(model, req, used_x)
            req_in = sorted(set(req_in) | set(ins))
            req_out = sorted(set(req_out) | set(outs))
            if excluded_by_known_finding():
                return
            mda.add_differentiated_inputs(ins)
            mda.add_differentiated_outputs(outs)
            try:
                jac = mda.linearize(x1)
            except ValueError as exc:
                if lu_with_operator and "LU" in str(exc):
                    ctx.cls("rejected_lu_with_linear_operator")  # documented
                    return
                raise
            uses_assembly = not (tag.startswith("MDAChain") and p["chain_linearize"])
            if lu_with_operator and uses_assembly:
                ctx.fail("documented_rejection", f"{tag}: LU factorisation with a linear operator was accepted")
            compare(ctx, p, model, tag, jac, exp1, req_in, req_out, f"request {k + 1}", mag1)
            if len(req_in) < len(used_x) or len(req_out) < len(model.out_names):
                strict = True
        if p["final"] == "new_point":
            x2 = {n: values[n] + np.array(p["delta"][n], dtype=float) for n in model.x_names}
            sol2 = model.solve(x2)
            try:
                jac = mda.linearize(x2)
            except ValueError as exc:
                if lu_with_operator and "LU" in str(exc):
                    ctx.cls("rejected_lu_with_linear_operator")  # documented (an inner MDA reached only now)
                    return
                raise
            compare(ctx, p, model, tag, jac, model.total_derivatives(x2, sol2), req_in, req_out, "new point",
                    input_magnitudes(model, x2, sol2))
            ctx.cls("final:new_point")
        elif p["final"] == "all_pairs":
            # every design input that is read x every output depending on a design input
            reach = {x: reachable_outputs(model, x) for x in used_x}
            req_out = sorted(set(req_out) | {o for o in model.out_names if any(o in reach[x] for x in used_x)})
            req_in = sorted(set(req_in) | {x for x in used_x if reach[x]})
            if excluded_by_known_finding():
                return
            mda.add_differentiated_inputs(req_in)
            mda.add_differentiated_outputs(req_out)
            try:
                jac = mda.linearize(x1)
            except ValueError as exc:
                if lu_with_operator and "LU" in str(exc):
                    ctx.cls("rejected_lu_with_linear_operator")  # documented (an inner MDA reached only now)
                    return
                raise
            compare(ctx, p, model, tag, jac, exp1, req_in, req_out, "all pairs", mag1)
            ctx.cls("final:all_pairs")
    except _KrylovBreakdown:
        ctx.cls("inconclusive:krylov_breakdown")
        ctx.note("NaN returned by / logged non-convergence of a named Krylov solver is counted as inconclusive for that solver")
        return
    except RuntimeError as exc:
        if p["solver"] in KRYLOV and "breakdown" in str(exc):
            ctx.cls("inconclusive:krylov_breakdown")
            ctx.note("a 'breakdown' RuntimeError of a named Krylov solver is counted as inconclusive for that solver")
            return
        raise
    n_req_in = sum(model.sizes[n] for n in req_in)
    n_req_out = sum(model.sizes[n] for n in req_out)
    if p["mode"] == "adjoint" and n_req_out > n_req_in:
        ctx.cls("adjoint_with_more_outputs_than_inputs")
    if p["mode"] == "direct" and n_req_out < n_req_in:
        ctx.cls("direct_with_more_inputs_than_outputs")
    if len(p["requests"]) > 1:
        ctx.cls("several_successive_requests")
    if strict:
        ctx.cls("strict_subset_request")
    if info["n_scc_ge2"] >= 1 and info["unequal_sizes_in_cycle"] and strict:
        ctx.nontriv((p["system"], p["values"], {k: v for k, v in p.items() if k not in ("system", "values")}))
        ctx.cls("nontrivial")
    ctx.sample({"oracle": "derivatives", "case": p})


ORACLES = {"derivatives": case_derivatives}


def run(ctx):
    ctx.drive("derivatives", cases(), case_derivatives, quick=450, thorough=3000)
