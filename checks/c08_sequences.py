"""C08 - Execution sequences respect data dependencies and composition is exact.

Graph part: a labelled digraph (with self-loops) is realised through the input/output names of
grammar-only disciplines; ``CouplingStructure`` is asked for its sequence and coupling sets and
both are judged by an own boolean reachability closure (no networkx).

Composition part: the same realisation is given linear contractive semantics
(y = A ext + B y + c, ||B||_inf = q <= 0.3); ``MDAChain`` / ``MDOChain`` /
``MDOInitializationChain`` outputs are compared with ``numpy.linalg.solve`` on the whole system.
"""

from __future__ import annotations

import logging

import numpy as np
from hypothesis import strategies as st

from vlib.gen.graphs import LinearSystem
from vlib.gen.graphs import Realisation
from vlib.gen.graphs import all_permutations
from vlib.gen.graphs import edges_from_code
from vlib.gen.graphs import graph_disciplines
from vlib.gen.graphs import nth_permutation

logging.getLogger("gemseo").setLevel(logging.ERROR)

PROPERTY = "C08"
LEVEL = "exploration"
RULE = (
    "Graph part: EVERY digraph with self-loops on n<=3 nodes (2+16+512 adjacency matrices) x EVERY listing "
    "order is enumerated in both tiers; of the 65536 graphs on 4 nodes the quick tier takes a seed-dependent "
    "arithmetic slice (stride 23, ~2850 graphs, canonical order + 2 seed-derived permutations) and the thorough "
    "tier all of them x all 24 orders, split by shard; n=5..9 are drawn by Hypothesis (Erdos-Renyi with edge "
    "percentage 5-50, or planted blocks = rings chained by forward edges, relabelled), with optional second "
    "outputs, multi-variable edges, a shared external input, duplicated discipline names and inputs that are optional "
    "(non-required, with a default) in the consumer's grammar - the graph does not depend on that; the n<=3 enumeration is "
    "repeated with all / mixed optional inputs and, for n=3, with a second output of node 0 consumed by node 2 only. A graph is "
    "realised as disciplines (node i outputs v_i; edge i->j makes v_i an input of j; a self-loop makes v_i an "
    "input of i; input-less nodes get a private input). Oracle: own boolean Floyd-Warshall closure. "
    "Composition part: Hypothesis draws n=2..6 graphs, sizes, integer coefficients, q in {0.1,0.2,0.3}, inner "
    "MDA, parallel stages, listing order, optional inputs and whether cycle groups / self-coupled nodes are handed to MDAChain "
    "wrapped in one MDOChain node, and whether the setting sub_coupling_structures is given (one CouplingStructure per inner "
    "MDA in sequence order); reference = numpy.linalg.solve of (I-B) y = A ext + c. "
    "Nodes may also carry a state variable (residual_to_state_variable) in every generator; the n<=3 enumeration is repeated with "
    "state variables on all / some nodes. The composition part also builds a direct MDOInitializationChain where some (consumer, "
    "input) pairs have no default while other consumers of the same variable keep theirs. "
    "Duplicated output names (optionally use_deep_copy=True with members overwriting their own input copy): Hypothesis draws 2-4 affine members writing 1-2 of three names from a shared input, a listing order "
    "and a consumer; MDOParallelChain, MDOChain([MDOParallelChain, consumer]) and MDOChain(members, consumer) must return the value "
    "of the member listed LAST for every name (non-trivial: the writers of a name disagree). "
    "Non-trivial = (graph, listing order) with an SCC of size >=2 and >=2 stages (composition: additionally "
    "executed through MDAChain); distinct = structural hash of (n, edges, options, order)."
)
ASSUMPTIONS = [
    "each variable is produced by exactly one discipline (check_disciplines_consistency's notion of a consistent set)",
    "the order of the members inside a group is checked against the DependencyGraph class docstring "
    "('same order as in the passed disciplines'); the order of groups inside a stage is not constrained",
    "strong_couplings must equal the variables consumed inside their producer's own group (a variable in a cycle, or read by "
    "its own producer); weak_couplings / all_couplings are only required to lie between the narrowest and the widest reading "
    "of their docstrings (unconsumed outputs of weak disciplines, variables read only by their own producer)",
    "composition: coupling matrix scaled to infinity norm q<=0.3, inner MDA tolerance 1e-12 without residual scaling, "
    "max_mda_iter=200; fixed-point outputs are compared with the direct solve within 1e-9*(1+|y|) "
    "(error <= q/(1-q) * residual), acyclic chains within 1e-12*(1+|y|)",
    "get_output_couplings / get_input_couplings: strong=True must be the exact strong set restricted to the discipline; "
    "strong=False must be the discipline's names among the structure's own all_couplings (bounded as above) and contain the strong ones",
    "MDAChain(initialize_defaults=True): coupling inputs are left without default only as far as the documented greedy initialisation "
    "(own simulation) can compute them; never on wrapped MDOChain nodes",
    "members of a parallel chain writing the same name: the priority of the last listed member is read from MDOParallelChain._execute's "
    "comment and from the sequential MDOChain semantics",
    "state variables (residual_to_state_variable; both input and output of their discipline) are not couplings and make no "
    "self-loop for the reference; they are tolerated in strong_couplings / all_couplings / weak_couplings where the wide reading "
    "puts them; in the composition part a state passes through unchanged with a zero residual",
    "direct MDOInitializationChain with partial defaults: only the schedule (a discipline runs after the producers of its inputs "
    "without default) is required in general; the data are compared with the whole-system solve when the order respects every edge "
    "of an acyclic system",
    "in-place writers are used only inside MDOParallelChain(use_deep_copy=True, n_processes=1)",
    "n >= 10 nodes are not explored",
]

STRIDE_N4 = 46


# --------------------------------------------------------------------------- graph part
def _realise(p) -> Realisation:
    n = int(p["n"])
    edges = edges_from_code(n, int(p["code"])) if "code" in p else p["edges"]
    x_nodes = [i % n for i in p.get("x_nodes", [])]
    return Realisation(n, edges, p.get("two_out"), x_nodes, p.get("opt"), p.get("state"))


def _orders(p, n):
    if p.get("orders", "all") == "all":
        return all_permutations(n)
    out = []
    for o in p["orders"]:
        if isinstance(o, int):
            out.append(nth_permutation(n, o))
        else:
            out.append([int(v) for v in o])
    return out


def check_structure(ctx, cs, listed, node_of, real: Realisation, order):
    """Judge CouplingStructure ``cs`` built from ``listed`` (disciplines in listing order)."""
    n = real.n
    seq = cs.sequence
    info = {"order": order}
    # (1) every discipline exactly once
    stage_of, group_idx, members_seen = {}, {}, []
    g = 0
    ctx.check(isinstance(seq, list), "sequence_shape", "sequence is not a list", **info)
    for s, stage in enumerate(seq):
        ctx.check(isinstance(stage, list) and len(stage) > 0, "sequence_shape", f"stage {s} is empty or not a list", **info)
        for group in stage:
            ctx.check(isinstance(group, tuple) and len(group) > 0, "sequence_shape", f"stage {s} holds an empty group", **info)
            for d in group:
                node = node_of.get(id(d))
                ctx.check(node is not None, "each_once", "sequence holds an object that is not a passed discipline", **info)
                ctx.check(node not in stage_of, "each_once", f"discipline of node {node} appears twice", **info)
                stage_of[node] = s
                group_idx[node] = g
                members_seen.append(node)
            g += 1
    ctx.check(len(stage_of) == n, "each_once", f"{n - len(stage_of)} disciplines are missing from the sequence", **info)
    # (2) groups are exactly the classes of mutual reachability
    for i in range(n):
        for j in range(i + 1, n):
            same_ref = real.comp[i] == real.comp[j]
            same_got = group_idx[i] == group_idx[j]
            ctx.check(same_ref == same_got, "groups",
                      f"nodes {i},{j}: mutually reachable={same_ref} but grouped together={same_got}", **info)
    # (3) producers strictly before consumers across groups
    for i in range(n):
        for j in range(n):
            if real.adj[i][j] and real.comp[i] != real.comp[j]:
                ctx.check(stage_of[i] < stage_of[j], "stage_order",
                          f"edge {i}->{j}: producer in stage {stage_of[i]}, consumer in stage {stage_of[j]}", **info)
    # (4) members in listing order
    pos = {node: k for k, node in enumerate(order)}
    for stage in seq:
        for group in stage:
            ps = [pos[node_of[id(d)]] for d in group]
            ctx.check(ps == sorted(ps), "group_member_order", f"group members are not in listing order: positions {ps}", **info)
    # (5) coupling sets
    strong_ref = {i for i in range(n) if real.is_strong(i)}
    got = [node_of.get(id(d)) for d in cs.strongly_coupled_disciplines]
    ctx.check(len(got) == len(set(got)) and set(got) == strong_ref, "strongly_coupled_disciplines",
              f"got nodes {sorted(got, key=str)}, reference {sorted(strong_ref)}", **info)
    got = [node_of.get(id(d)) for d in cs.weakly_coupled_disciplines]
    ctx.check(len(got) == len(set(got)) and set(got) == set(range(n)) - strong_ref, "weakly_coupled_disciplines",
              f"got nodes {sorted(got, key=str)}, reference {sorted(set(range(n)) - strong_ref)}", **info)
    exact = True
    for attr, (low, up) in (("strong_couplings", real.strong_couplings_bounds()),
                            ("weak_couplings", real.weak_couplings_bounds()),
                            ("all_couplings", real.all_couplings_bounds())):
        val = list(getattr(cs, attr))
        ctx.check(len(val) == len(set(val)), attr, f"{attr} holds duplicates: {val}", **info)
        ctx.check(low <= set(val) <= up, attr,
                  f"{attr}={sorted(val)} but must contain {sorted(low)} and be contained in {sorted(up)}", **info)
        exact = exact and low == up
    # (5b) per-discipline accessors: strong=True / False must be the discipline's names among the structure's own
    # strong_couplings / all_couplings (themselves bounded by the reference above), so that the accessors agree with the
    # global sets whichever reading of a self-only or state variable is taken; the strong ones are among the others
    strong_low, strong_up = real.strong_couplings_bounds()
    strong_got = set(cs.strong_couplings)
    all_got = set(cs.all_couplings)
    for d in listed:
        node = node_of[id(d)]
        for kind, names in (("output", real.full_outs(node)), ("input", real.full_ins(node))):
            getter = cs.get_output_couplings if kind == "output" else cs.get_input_couplings
            got_strong = list(getter(d, strong=True))
            got_all = list(getter(d, strong=False))
            ref_strong = sorted(set(names) & strong_got)
            ref_all = sorted(set(names) & all_got)
            ctx.check(sorted(got_strong) == ref_strong and len(got_strong) == len(set(got_strong))
                      and set(names) & strong_low <= set(got_strong) <= set(names) & strong_up, f"get_{kind}_couplings",
                      f"node {node}: get_{kind}_couplings(strong=True)={got_strong}, reference {sorted(set(names) & strong_low)}", **info)
            ctx.check(sorted(got_all) == ref_all and len(got_all) == len(set(got_all)), f"get_{kind}_couplings",
                      f"node {node}: get_{kind}_couplings(strong=False)={got_all}, but its names among all_couplings are {ref_all}", **info)
            ctx.check(set(got_strong) <= set(got_all), f"get_{kind}_couplings",
                      f"node {node}: strong {kind} couplings {got_strong} are not among the non-strong ones {got_all}", **info)
    return len(seq), exact


def classify_graph(ctx, real: Realisation, n_stages: int, exact: bool, p, order):
    n = real.n
    sizes = sorted({len(real.group_of(i)) for i in range(n)})
    n_groups = len(set(real.comp))
    has_scc = sizes[-1] >= 2
    ctx.cls(f"n={n}")
    if has_scc:
        ctx.cls("scc>=2")
    if n_stages >= 2:
        ctx.cls("stages>=2")
    if has_scc and n_stages >= 2:
        ctx.cls("NONTRIVIAL_scc>=2_and_stages>=2")
        ctx.nontriv(("graph", n, p.get("code"), p.get("edges"), p.get("two_out"), p.get("x_nodes"), p.get("dup"), p.get("opt"), p.get("state"), order))
    if sum(1 for i in range(n) if len(real.group_of(i)) >= 2 and real.comp[i] == i) >= 2:
        ctx.cls("two_or_more_scc>=2")
    if any(real.self_loop):
        ctx.cls("self_loop")
    if any(real.self_loop[i] and len(real.group_of(i)) == 1 for i in range(n)):
        ctx.cls("self_loop_singleton")
    if any(real.self_loop[i] and len(real.group_of(i)) > 1 for i in range(n)):
        ctx.cls("self_loop_inside_scc")
    if any(not any(real.adj[i]) and not any(real.adj[j][i] for j in range(n)) for i in range(n)):
        ctx.cls("isolated_node")
    if not has_scc and not any(real.self_loop):
        ctx.cls("acyclic")
    if n_groups == 1 and n > 1:
        ctx.cls("single_scc")
    if exact:
        ctx.cls("coupling_sets_pinned_exactly")
    if any(real.producer.get(name) not in (None, j) for j, name in real.optional):
        ctx.cls("edge_through_optional_input")
    if any(real.state):
        ctx.cls("node_with_state_variable")
        if any(real.state[i] and real.self_loop[i] for i in range(n)):
            ctx.cls("state_variable_and_genuine_self_loop")
    strong = real.strong_couplings_bounds()[0]
    if any(real.is_strong(i) and name not in strong and any(real.is_strong(j) and j != i for j in real.consumers(name))
           for name, i in real.producer.items()):
        ctx.cls("variable_from_a_cycle_to_another_group_only")
    if order != sorted(order):
        ctx.cls("permuted_listing")


def case_graph(p, ctx):
    from gemseo.core.coupling_structure import CouplingStructure

    real = _realise(p)
    n = real.n
    discs = graph_disciplines(real, bool(p.get("dup")))
    node_of = {id(d): i for i, d in enumerate(discs)}
    if p.get("dup"):
        ctx.cls("duplicated_names")
    if any(real.two_out):
        ctx.cls("second_output")
    for k, order in enumerate(_orders(p, n)):
        if k and not ctx.replaying:
            ctx.case("graph_order")  # every (graph, listing order) pair is one evaluated case
        listed = [discs[i] for i in order]
        cs = CouplingStructure(listed)
        n_stages, exact = check_structure(ctx, cs, listed, node_of, real, order)
        classify_graph(ctx, real, n_stages, exact, p, order)
    if n >= 3:
        ctx.sample({"oracle": "graph", "case": p})


def small_graph_payloads(ctx):
    """All graphs on n<=3 nodes, all listing orders (split by shard in the thorough tier)."""
    k = 0
    for n in (1, 2, 3):
        for code in range(2 ** (n * n)):
            if k % ctx.n_shards == ctx.shard:
                yield {"n": n, "code": code, "orders": "all", "dup": False}
            k += 1
    # duplicate-name path on every graph with 2 and 3 nodes, canonical and reversed order
    for n in (2, 3):
        for code in range(2 ** (n * n)):
            if k % ctx.n_shards == ctx.shard:
                yield {"n": n, "code": code, "orders": [0, -1], "dup": True}
            k += 1
    # every graph with 3 nodes where node 0 has a second output w0 that only node 2 may consume (v0 goes to nodes 0, 1):
    # variables flowing from one cycle to another group without being consumed inside their own group
    for code in range(2 ** 9):
        if k % ctx.n_shards == ctx.shard:
            edges = [[i, j, 2 if (i == 0 and j == 2) else 1] for i, j, _ in edges_from_code(3, code)]
            yield {"n": 3, "edges": edges, "two_out": [True, False, False], "orders": [0, -1], "dup": False}
        k += 1
    # every graph with 1..3 nodes where all / some nodes also have a state variable (residual_to_state_variable)
    for n in (1, 2, 3):
        for code in range(2 ** (n * n)):
            if k % ctx.n_shards == ctx.shard:
                yield {"n": n, "code": code, "orders": [0, -1], "dup": False, "state": [1]}
                if n > 1:
                    yield {"n": n, "code": code, "orders": [1], "dup": False, "state": [0, 1, 0]}
            k += 1
    # every graph with 2 and 3 nodes again with optional (non-required, defaulted) inputs: all of them, then a mixed pattern
    for n in (2, 3):
        for code in range(2 ** (n * n)):
            if k % ctx.n_shards == ctx.shard:
                yield {"n": n, "code": code, "orders": [0, -1, 2], "dup": False, "opt": [1]}
                yield {"n": n, "code": code, "orders": [1, -2], "dup": False, "opt": [1, 0, 0, 1, 0]}
            k += 1


def n4_payloads(ctx):
    total = 2 ** 16
    if ctx.tier == "thorough":
        for code in range(ctx.shard, total, ctx.n_shards):
            yield {"n": 4, "code": code, "orders": "all", "dup": code % 5 == 0,
                   "opt": [] if code % 3 else [(code >> 4) & 1, 1, (code >> 7) & 1, (code >> 9) & 1, 0]}
    else:
        count = max(1, int(total // STRIDE_N4 * ctx.budget_scale))
        offset = (ctx.seed * 7919) % total
        for k in range(count):
            code = (offset + k * STRIDE_N4) % total
            yield {"n": 4, "code": code, "orders": [0, (code * 7 + ctx.seed * 13) % 24, (code * 11 + ctx.seed * 5 + 1) % 24],
                   "dup": k % 7 == 0, "opt": [] if k % 3 else [(code >> 4) & 1, 1, (code >> 7) & 1, (code >> 9) & 1, 0]}


@st.composite
def random_graphs(draw):
    n = draw(st.integers(5, 9))
    planted = draw(st.booleans())
    edges = []
    if planted:
        # blocks (rings) chained by forward edges, then relabelled
        label = draw(st.permutations(list(range(n))))
        sizes, left = [], n
        while left > 0:
            s = draw(st.integers(1, min(4, left)))
            sizes.append(s)
            left -= s
        blocks, start = [], 0
        for s in sizes:
            blocks.append(list(range(start, start + s)))
            start += s
        for b in blocks:
            if len(b) >= 2:
                for k, u in enumerate(b):
                    edges.append([label[u], label[b[(k + 1) % len(b)]], draw(st.integers(1, 3))])
        pct = draw(st.integers(10, 60))
        for a in range(len(blocks)):
            for b in range(a + 1, len(blocks)):
                if draw(st.integers(0, 99)) < pct:
                    u = blocks[a][draw(st.integers(0, len(blocks[a]) - 1))]
                    v = blocks[b][draw(st.integers(0, len(blocks[b]) - 1))]
                    edges.append([label[u], label[v], draw(st.integers(1, 3))])
        for u in range(n):
            if draw(st.integers(0, 99)) < 15:
                edges.append([u, u, draw(st.integers(1, 3))])
    else:
        pct = draw(st.integers(5, 50))
        cells = draw(st.lists(st.integers(0, 99), min_size=n * n, max_size=n * n))
        for i in range(n):
            for j in range(n):
                if cells[i * n + j] < (pct if i != j else pct // 2):
                    edges.append([i, j, 1 + cells[i * n + j] % 3])
    two_out = draw(st.one_of(st.just([False] * n), st.lists(st.booleans(), min_size=n, max_size=n)))
    x_nodes = draw(st.lists(st.integers(0, n - 1), max_size=3, unique=True))
    order = draw(st.permutations(list(range(n))))
    return {"n": n, "edges": edges, "two_out": two_out, "x_nodes": x_nodes, "orders": [list(order)],
            "dup": draw(st.integers(0, 4)) == 0,
            "opt": draw(st.one_of(st.just([]), st.lists(st.integers(0, 1), min_size=1, max_size=7))),
            "state": draw(st.one_of(st.just([]), st.just([]), st.lists(st.integers(0, 1), min_size=1, max_size=4)))}


# --------------------------------------------------------------------------- composition part
@st.composite
def systems(draw):
    n = draw(st.integers(2, 6))
    kind = draw(st.sampled_from(["any", "any", "acyclic", "blocks", "blocks", "fed_cycle"]))
    edges = []
    if kind == "fed_cycle" and n < 3:
        kind = "any"
    if kind == "fed_cycle":
        # a weakly coupled source feeding a ring (and possibly a downstream discipline), relabelled
        label = draw(st.permutations(list(range(n))))
        ring = list(range(1, n if n == 3 else n - 1))
        for k, u in enumerate(ring):
            edges.append([label[u], label[ring[(k + 1) % len(ring)]], draw(st.integers(1, 3))])
        edges.append([label[0], label[ring[draw(st.integers(0, len(ring) - 1))]], 1])
        if n > 3:
            edges.append([label[ring[0]], label[n - 1], 1])
    elif kind == "acyclic":
        topo = draw(st.permutations(list(range(n))))
        for a in range(n):
            for b in range(a + 1, n):
                if draw(st.integers(0, 99)) < 45:
                    edges.append([topo[a], topo[b], draw(st.integers(1, 3))])
    elif kind == "blocks":
        label = draw(st.permutations(list(range(n))))
        cut = draw(st.integers(1, n - 1))
        blocks = [list(range(cut)), list(range(cut, n))]
        for b in blocks:
            if len(b) >= 2:
                for k, u in enumerate(b):
                    edges.append([label[u], label[b[(k + 1) % len(b)]], draw(st.integers(1, 3))])
        edges.append([label[blocks[0][0]], label[blocks[1][-1]], 1])
        for u in range(n):
            if draw(st.integers(0, 99)) < 15:
                edges.append([u, u, 1])
    else:
        pct = draw(st.integers(10, 50))
        for i in range(n):
            for j in range(n):
                if draw(st.integers(0, 99)) < (pct if i != j else pct // 2):
                    edges.append([i, j, draw(st.integers(1, 3))])
    nx = draw(st.integers(1, 2))
    # one case in three (always for 'fed_cycle'): MDAChain has to initialise missing default values itself
    init_mode = kind == "fed_cycle" or draw(st.integers(0, 2)) == 0
    return {
        "n": n, "edges": edges,
        "two_out": draw(st.one_of(st.just([False] * n), st.lists(st.booleans(), min_size=n, max_size=n))),
        "x_nodes": draw(st.lists(st.integers(0, n - 1), min_size=1, max_size=n, unique=True)),
        "order": list(draw(st.permutations(list(range(n))))),
        "dup": draw(st.integers(0, 5)) == 0,
        "sizes": draw(st.lists(st.integers(1, 2), min_size=n, max_size=n)),
        "coef": draw(st.lists(st.sampled_from([-3, -2, -1, 1, 2, 3]), min_size=1, max_size=7)),
        "q": draw(st.sampled_from([0.1, 0.2, 0.3])),
        "nx": nx,
        "x": draw(st.lists(st.integers(-4, 4), min_size=nx, max_size=nx)),
        "p": draw(st.integers(-4, 4)),
        "inner": draw(st.sampled_from(["MDAJacobi", "MDAGaussSeidel"])),
        "parallel": draw(st.booleans()),
        "init_defaults": True if init_mode else draw(st.booleans()),
        # inputs that are optional (non-required, with a default value) in the consumer's grammar
        "opt": draw(st.one_of(st.just([]), st.lists(st.integers(0, 1), min_size=1, max_size=7))),
        # with initialize_defaults: coupling inputs (flags cycled over the (consumer, coupling input) pairs) that get NO default
        # value; MDAChain has to compute them with its initialization chain
        "no_default": draw(st.lists(st.sampled_from([1, 1, 0]), min_size=1, max_size=6)) if init_mode else [],
        # nodes that also carry a state variable (residual_to_state_variable), flags cycled over the nodes
        "state": draw(st.one_of(st.just([]), st.just([]), st.lists(st.integers(0, 1), min_size=1, max_size=3))),
        # direct MDOInitializationChain: (consumer, coupling input) pairs without default (other consumers keep theirs)
        "init_flags": draw(st.lists(st.sampled_from([1, 0, 0]), min_size=2, max_size=6)),
        # give MDAChain the non-default setting sub_coupling_structures: one CouplingStructure per inner MDA, in sequence order
        "sub_cs": draw(st.booleans()),
        # cycle groups / self-coupled nodes (index modulo their number) handed to MDAChain as ONE MDOChain node
        "wrap": [] if init_mode else draw(st.one_of(st.just([]), st.lists(st.integers(0, 3), min_size=1, max_size=2, unique=True))),
    }


def _compare(ctx, sub, out, ref, system, rtol, what, order):
    for name in system.out_names:
        ctx.check(name in out, sub, f"{what}: output {name} is missing from the returned data", order=order)
        got = np.asarray(out[name], dtype=float)
        ctx.check(got.shape == ref[name].shape, sub, f"{what}: {name} has shape {got.shape}, expected {ref[name].shape}", order=order)
        err = float(np.max(np.abs(got - ref[name])))
        tol = rtol * (1.0 + float(np.max(np.abs(ref[name]))))  # tolerance: rtol * (1 + |y|_inf)
        ctx.check(err <= tol, sub, f"{what}: {name}={got.tolist()} but the whole-system solve gives {ref[name].tolist()} (err {err:.3e} > {tol:.1e})",
                  order=order)
    for i in range(system.real.n):
        if system.real.state[i]:
            # the state passes through unchanged (default 0) and its residual is zero
            for name in (f"s{i}", f"r{i}"):
                ctx.check(name in out and np.array_equal(np.asarray(out[name], dtype=float), np.zeros(1)), sub,
                          f"{what}: state/residual variable {name}={out.get(name)!r}, expected [0.]", order=order)


def feasible_missing_defaults(real: Realisation, system, flags, order):
    """(consumer, coupling input) pairs left without default such that the documented greedy initialisation succeeds.

    Own simulation of 'run every discipline whose inputs are all available (defaults, given data, outputs of the
    disciplines already run)'; while it gets stuck, a default is given back to the first stuck pair.
    """
    pairs = [(j, u) for j in range(real.n) for u in real.ins[j] if u in system.offset]
    missing = {pair for k, pair in enumerate(pairs) if int(flags[k % len(flags)])}
    while True:
        available, done = set(real.external), set()
        progress = True
        while progress:
            progress = False
            for j in order:
                if j not in done and all(u in available or (j, u) not in missing for u in real.ins[j]):
                    done.add(j)
                    available.update(real.outs[j])
                    progress = True
        if len(done) == real.n:
            return missing
        stuck = sorted(pair for pair in missing if pair[0] not in done and pair[1] not in available)
        missing.discard(stuck[0])


def case_composition(p, ctx):
    from gemseo.core.chains.chain import MDOChain
    from gemseo.core.chains.initialization_chain import MDOInitializationChain
    from gemseo.core.coupling_structure import CouplingStructure
    from gemseo.mda.mda_chain import MDAChain

    n = int(p["n"])
    real = Realisation(n, p["edges"], p.get("two_out"), [i % n for i in p["x_nodes"]], p.get("opt"), p.get("state"))
    system = LinearSystem(real, p["sizes"], p["coef"], float(p["q"]), int(p["nx"]))
    order = [int(v) for v in p["order"]]
    ext = {}
    for name in real.external:
        ext[name] = np.array([v / 2.0 for v in p["x"]]) if name == "x" else np.array([p["p"] / 2.0 + int(name[1:])])
    ref = system.solve(ext)
    acyclic = not any(real.self_loop) and all(len(real.group_of(i)) == 1 for i in range(n))
    dup = bool(p.get("dup"))

    # (a) MDAChain in the listing order
    has_cycle = any(real.is_strong(i) for i in range(n))
    missing = set()
    if p.get("no_default") and p["init_defaults"] and has_cycle and n > 1 and not p.get("wrap"):
        missing = feasible_missing_defaults(real, system, p["no_default"], order)
    discs = system.disciplines(dup, no_default=missing)
    listed = [discs[i] for i in order]
    # optionally hand whole cycle groups / self-coupled nodes to MDAChain as ONE MDOChain node (a self-coupled process
    # discipline, alone in its group, which the MDA chain has to converge); the flat reference is unchanged
    strong_groups = sorted({real.comp[i] for i in range(n) if real.is_strong(i)})
    wrapped = sorted({strong_groups[int(w) % len(strong_groups)] for w in p.get("wrap", [])}) if strong_groups else []
    if wrapped:
        new_listed, done = [], set()
        for i in order:
            g = real.comp[i]
            if g in wrapped:
                if g not in done:
                    done.add(g)
                    new_listed.append(MDOChain([discs[j] for j in order if real.comp[j] == g], name=f"W{g}"))
            else:
                new_listed.append(discs[i])
        listed = new_listed
    inner_settings = {"n_processes": 1} if p["inner"] == "MDAJacobi" else {}
    extra = {}
    mda_levels = []
    if p.get("sub_cs"):
        # "The coupling structures to be used by the inner MDAs": one per group needing an MDA (several members, or a
        # self-coupled discipline that is not itself an MDA), in the order of the execution sequence, which a user
        # reads from CouplingStructure(disciplines).sequence
        from gemseo.mda.base_mda import BaseMDA

        cs0 = CouplingStructure(listed)
        subs = []
        for level, stage in enumerate(cs0.sequence):
            for group in stage:
                if len(group) > 1 or (cs0.is_self_coupled(group[0]) and not isinstance(group[0], BaseMDA)):
                    ids = {id(d) for d in group}
                    subs.append(CouplingStructure([d for d in listed if id(d) in ids]))
                    mda_levels.append(level)
        if subs:
            extra["sub_coupling_structures"] = subs
        expected_groups = [[id(d) for d in group] for stage in cs0.sequence for group in stage]
    mda = MDAChain(
        listed, inner_mda_name=p["inner"], tolerance=1e-12, max_mda_iter=200, inner_mda_settings=inner_settings,
        mdachain_parallelize_tasks=bool(p["parallel"]), mdachain_parallel_settings={"n_processes": 1} if p["parallel"] else {},
        initialize_defaults=bool(p["init_defaults"]), **extra,
    )
    if extra:
        got_groups = [[id(d) for d in group] for stage in mda.coupling_structure.sequence for group in stage]
        if got_groups != expected_groups:
            # the order in which the structures are consumed would not be the one they were built in: unsound case
            ctx.cls("comp_sequence_not_reproducible_case_skipped")
            return
    mda.scaling = mda.ResidualScaling.NO_SCALING
    node_of = {id(d): i for i, d in enumerate(discs)}
    if wrapped:
        n_stages = len(mda.coupling_structure.sequence)  # the structure oracle applies to the flat list only
    else:
        n_stages, _ = check_structure(ctx, mda.coupling_structure, listed, node_of, real, order)
    out = mda.execute({k: v.copy() for k, v in ext.items()})
    for sub in mda.inner_mdas:
        # a non-converged inner MDA is C06's subject, not a composition error: do not judge such a case
        if not (float(sub.normed_residual) <= 1e-12):
            ctx.cls("inner_mda_not_converged_case_skipped")
            return
    _compare(ctx, "mda_chain", out, ref, system, 1e-9, f"MDAChain({p['inner']})", order)
    for name, v in ext.items():
        ctx.check(np.array_equal(np.asarray(out[name]), v), "mda_chain", f"external input {name} was altered: {out[name]!r}", order=order)
    for d in discs:
        ctx.check(d.n_runs >= 1, "mda_chain", f"discipline of node {d.node} was never executed", order=order)

    # (b), (c) acyclic: the chain built from the sequence, and the initialization chain
    if acyclic:
        discs_b = system.disciplines(dup)
        cs = CouplingStructure([discs_b[i] for i in order])
        flat = [d for stage in cs.sequence for group in stage for d in group]
        out_b = MDOChain(flat).execute({k: v.copy() for k, v in ext.items()})
        _compare(ctx, "mdo_chain", out_b, ref, system, 1e-12, "MDOChain(sequence)", order)
        for d in discs_b:
            ctx.check(d.n_runs == 1, "mdo_chain", f"discipline of node {d.node} was executed {d.n_runs} times by the chain", order=order)
        discs_c = system.disciplines(dup, coupling_defaults=False)
        init = MDOInitializationChain([discs_c[i] for i in order], available_data_names=list(ext))
        seen = set(ext)
        for d in init.disciplines:
            missing = [u for u in real.ins[d.node] if u not in seen]
            ctx.check(not missing, "initialization_chain", f"node {d.node} is scheduled before its inputs {missing} are available", order=order)
            seen.update(real.outs[d.node])
        ctx.check(sorted(d.node for d in init.disciplines) == list(range(n)), "initialization_chain",
                  "the initialization chain does not hold every discipline exactly once", order=order)
        out_c = init.execute({k: v.copy() for k, v in ext.items()})
        _compare(ctx, "initialization_chain", out_c, ref, system, 1e-12, "MDOInitializationChain", order)
        ctx.cls("comp_acyclic")
    # (d) MDOInitializationChain on the same disciplines, SOME (consumer, coupling input) pairs having no default value while the
    # other consumers of the same variable keep theirs: its order must run every discipline after the producers of its inputs
    # without default; when that order happens to respect every edge of an acyclic system the data are the whole-system ones
    flags = p.get("init_flags") or [1, 0]
    missing_d = feasible_missing_defaults(real, system, flags, order)
    if missing_d:
        discs_d = system.disciplines(dup, no_default=missing_d)
        init_d = MDOInitializationChain([discs_d[i] for i in order], available_data_names=list(ext))
        ctx.check(sorted(d.node for d in init_d.disciplines) == list(range(n)), "initialization_chain_partial_defaults",
                  "the initialization chain does not hold every discipline exactly once", order=order)
        seen_d = set(ext)
        topological = True
        for d in init_d.disciplines:
            lacking = [u for u in real.ins[d.node] if (d.node, u) in missing_d and u not in seen_d]
            ctx.check(not lacking, "initialization_chain_partial_defaults",
                      f"node {d.node} has no default for {lacking} and is scheduled before their producers", order=order)
            topological = topological and all(u in seen_d for u in real.ins[d.node])
            seen_d.update(real.outs[d.node])
        out_d = init_d.execute({k: v.copy() for k, v in ext.items()})
        for name in system.out_names:
            ctx.check(name in out_d, "initialization_chain_partial_defaults", f"output {name} is missing", order=order)
        if acyclic and topological:
            _compare(ctx, "initialization_chain_partial_defaults", out_d, ref, system, 1e-12, "MDOInitializationChain(partial defaults)", order)
        ctx.cls("comp_init_chain_with_partial_defaults")
        consumers_of = {}
        for j in range(n):
            for u in real.ins[j]:
                consumers_of.setdefault(u, []).append(j)
        if any(any((j2, u) not in missing_d for j2 in consumers_of[u]) for j, u in missing_d):
            ctx.cls("comp_init_chain_variable_with_and_without_default")
    has_scc = any(len(real.group_of(i)) >= 2 for i in range(n))
    ctx.cls(f"comp_n={n}", f"comp_inner={p['inner']}")
    if has_scc:
        ctx.cls("comp_scc>=2")
    if n_stages >= 2:
        ctx.cls("comp_stages>=2")
    if has_scc and n_stages >= 2:
        ctx.cls("comp_NONTRIVIAL")
        ctx.nontriv(("comp", n, p["edges"], p.get("two_out"), p["x_nodes"], order, p["sizes"], p["coef"], p["q"], p["inner"], p.get("opt"), p.get("wrap"), p.get("state")))
    if any(real.self_loop[i] and len(real.group_of(i)) == 1 for i in range(n)):
        ctx.cls("comp_self_loop_singleton")
    if any(real.self_loop[i] and len(real.group_of(i)) > 1 for i in range(n)):
        ctx.cls("comp_self_loop_inside_scc")
    if p["parallel"] and any(len(stage) > 1 for stage in mda.coupling_structure.sequence):
        ctx.cls("comp_parallel_stage")
    if dup:
        ctx.cls("comp_duplicated_names")
    if wrapped:
        ctx.cls("comp_cycle_group_wrapped_in_one_MDOChain_node")
    if any(real.state):
        ctx.cls("comp_node_with_state_variable")
        if any(real.state[i] and real.self_loop[i] for i in range(n)):
            ctx.cls("comp_state_variable_and_genuine_self_loop")
    if missing:
        ctx.cls("comp_initialize_defaults_with_missing_defaults")
        if any(real.is_strong(j) and not real.is_strong(real.producer[u]) for j, u in missing):
            ctx.cls("comp_strong_discipline_without_default_for_a_weak_upstream_coupling")
    if extra:
        ctx.cls("comp_sub_coupling_structures_given")
        if len(set(mda_levels)) >= 2:
            ctx.cls("comp_sub_coupling_structures_with_inner_MDAs_in_>=2_levels")
    if any(real.producer.get(name) not in (None, j) for j, name in real.optional):
        ctx.cls("comp_edge_through_optional_input")
    if order != sorted(order):
        ctx.cls("comp_permuted_listing")
    ctx.sample({"oracle": "composition", "case": p})


# --------------------------------------------------------------------------- duplicated output names in a parallel chain
POOL = ["y0", "y1", "y2"]


@st.composite
def shared_outputs(draw):
    n = draw(st.integers(2, 4))
    nx = draw(st.integers(1, 2))
    return {
        "members": [{"writes": draw(st.lists(st.integers(0, 2), min_size=1, max_size=2, unique=True)),
                     "coef": draw(st.lists(st.sampled_from([-3, -2, -1, 1, 2, 3]), min_size=1, max_size=5))} for _ in range(n)],
        "order": list(draw(st.permutations(list(range(n))))),
        "sizes": draw(st.lists(st.integers(1, 2), min_size=3, max_size=3)),
        "nx": nx, "x": draw(st.lists(st.integers(-4, 4), min_size=nx, max_size=nx)),
        "consumer": draw(st.lists(st.sampled_from([-2, -1, 1, 2]), min_size=1, max_size=4)),
        "threads": draw(st.sampled_from([1, 1, 2])),
        "dup": draw(st.integers(0, 3)) == 0,
        # use_deep_copy=True: every member gets its own copy of the inputs, members flagged in 'inplace' overwrite theirs
        "deep_copy": draw(st.booleans()),
        "inplace": draw(st.lists(st.integers(0, 1), min_size=1, max_size=4)),
    }


def case_parallel_priority(p, ctx):
    """Members of one MDOParallelChain computing variables of the same name: the member listed last prevails
    (MDOParallelChain._execute: 'Update data according to input order of priority'), as in a sequential MDOChain."""
    from gemseo.core.chains.chain import MDOChain
    from gemseo.core.chains.parallel_chain import MDOParallelChain
    from gemseo.core.discipline import Discipline

    sizes = {name: int(p["sizes"][k]) for k, name in enumerate(POOL)}
    inplace = p.get("inplace") or [0]
    nx = int(p["nx"])
    x = np.array([v / 2.0 for v in p["x"]])
    order = [int(v) for v in p["order"]]

    def affine(k, name, coef):
        m = np.zeros((sizes[name], nx))
        c = np.zeros(sizes[name])
        idx = k + POOL.index(name)
        for a in range(m.shape[0]):
            for b in range(nx):
                m[a, b] = coef[idx % len(coef)]
                idx += 1
            c[a] = coef[idx % len(coef)] / 2.0 + k
            idx += 1
        return m, c

    maps = {k: {POOL[w]: affine(k, POOL[w], mem["coef"]) for w in mem["writes"]} for k, mem in enumerate(p["members"])}
    written = [name for name in POOL if any(name in maps[k] for k in maps)]
    cons = {name: np.array([[p["consumer"][(i + a) % len(p["consumer"])] for a in range(sizes[name])]], dtype=float)
            for i, name in enumerate(written)}

    class _Member(Discipline):
        default_grammar_type = Discipline.GrammarType.SIMPLE

        def __init__(self, k, may_write_inputs=False):
            super().__init__("D" if p["dup"] else f"D{k}")
            self.k = k
            self.scramble = may_write_inputs and bool(int(inplace[k % len(inplace)]))
            self.io.input_grammar.update_from_names(["x"])
            self.io.output_grammar.update_from_names(list(maps[k]))
            self.io.input_grammar.defaults["x"] = np.zeros(nx)

        def _run(self, input_data):
            out = {name: m @ np.asarray(input_data["x"], dtype=float) + c for name, (m, c) in maps[self.k].items()}
            if self.scramble:
                input_data["x"][...] = 99.0 + self.k  # its own deep copy: must not be seen by the other members
            return out

    class _Consumer(Discipline):
        default_grammar_type = Discipline.GrammarType.SIMPLE

        def __init__(self):
            super().__init__("consumer")
            self.io.input_grammar.update_from_names(written)
            self.io.output_grammar.update_from_names(["z"])
            for name in written:
                self.io.input_grammar.defaults[name] = np.zeros(sizes[name])

        def _run(self, input_data):
            return {"z": sum(cons[name] @ np.asarray(input_data[name], dtype=float) for name in written) + 1.0}

    # reference: the whole system at once, the last listed writer of a name prevailing
    ref = {}
    for k in order:
        for name, (m, c) in maps[k].items():
            ref[name] = m @ x + c
    ref["z"] = sum(cons[name] @ ref[name] for name in written) + 1.0

    def compare(out, names, what):
        for name in names:
            ctx.check(name in out, "parallel_priority", f"{what}: {name} is missing", order=order)
            got = np.asarray(out[name], dtype=float)
            # tolerance: same affine arithmetic on both sides, 1e-12 * (1 + |ref|)
            ctx.check(got.shape == ref[name].shape and float(np.max(np.abs(got - ref[name]))) <= 1e-12 * (1 + float(np.max(np.abs(ref[name])))),
                      "parallel_priority", f"{what}: {name}={got.tolist()}, but the last listed discipline computing it gives {ref[name].tolist()}",
                      order=order)

    data = {"x": x.copy()}
    deep = bool(p.get("deep_copy"))
    # in-place writers only with use_deep_copy=True (otherwise the inputs are read-only), run one after the other
    threads = 1 if deep else int(p["threads"])
    out = MDOParallelChain([_Member(k, deep) for k in order], n_processes=threads, use_deep_copy=deep).execute({"x": x.copy()})
    compare(out, written, "MDOParallelChain")
    ctx.check(np.array_equal(np.asarray(out["x"]), x), "parallel_priority", f"the chain input x was altered: {out['x']!r}", order=order)
    out = MDOChain([MDOParallelChain([_Member(k, deep) for k in order], n_processes=threads, use_deep_copy=deep), _Consumer()]).execute({"x": x.copy()})
    compare(out, [*written, "z"], "MDOChain([MDOParallelChain, consumer])")
    out = MDOChain([*[_Member(k) for k in order], _Consumer()]).execute(dict(data))
    compare(out, [*written, "z"], "MDOChain(members, consumer)")

    shared = [name for name in written if sum(name in maps[k] for k in maps) >= 2]
    differ = [name for name in shared
              if len({tuple((maps[k][name][0] @ x + maps[k][name][1]).tolist()) for k in maps if name in maps[k]}) >= 2]
    ctx.cls(f"par_members={len(order)}")
    if shared:
        ctx.cls("par_name_with_>=2_writers")
    if differ:
        ctx.cls("par_NONTRIVIAL_writers_disagree")
        ctx.nontriv(("par", p))
    if order != sorted(order):
        ctx.cls("par_permuted_listing")
    if deep:
        ctx.cls("par_use_deep_copy")
        if any(int(inplace[k % len(inplace)]) for k in order[:-1]):
            ctx.cls("par_deep_copy_and_in_place_writer_before_another_member")
    ctx.sample({"oracle": "parallel_priority", "case": p})


ORACLES = {"graph": case_graph, "graph_random": case_graph, "composition": case_composition, "parallel_priority": case_parallel_priority}


def run(ctx):
    done_small = ctx.enumerate("graph", small_graph_payloads(ctx), case_graph)
    if done_small and not ctx.extra.get("exhaustive_interrupted"):
        ctx.extra["exhaustive_n_le_3"] = True
    else:
        ctx.extra["exhaustive_n_le_3"] = False
    done_4 = ctx.enumerate("graph", n4_payloads(ctx), case_graph)
    ctx.extra["exhaustive_n_eq_4"] = bool(done_4 and ctx.tier == "thorough" and not ctx.extra.get("exhaustive_interrupted"))
    ctx.drive("graph_random", random_graphs(), case_graph, quick=250, thorough=4000)
    ctx.drive("composition", systems(), case_composition, quick=250, thorough=2500)
    ctx.drive("parallel_priority", shared_outputs(), case_parallel_priority, quick=120, thorough=1500)
