"""C09 - Composite processes differentiate by the exact chain rule.

A drawn tree  leaf | chain[...] | parallel[...]  of polynomial harness disciplines (exact partial
derivatives, dense / sparse / JacobianOperator) is built as nested MDOChain / MDOParallelChain
(or flattened and shuffled into an MDAChain, or put under an MDOAdditiveChain) and asked for a
sequence of linearisations.  Every returned block is compared with a harness forward-mode
(tangent) accumulation along the execution order - the code under test accumulates in reverse.
"""

from __future__ import annotations

import logging

import numpy as np
from hypothesis import strategies as st

from vlib.gen.graphs import PolySpec
from vlib.gen.graphs import make_poly_discipline
from vlib.gen.graphs import nth_permutation
from vlib.gen.graphs import to_dense

logging.getLogger("gemseo").setLevel(logging.ERROR)

PROPERTY = "C09"
LEVEL = "exploration"
RULE = (
    "Hypothesis draws 1-3 external variables (sizes 1-2), a tree of depth <=3 whose inner nodes are 'chain' "
    "(children see the writes of their elder siblings) or 'parallel' (children see the state before the node; written "
    "names are distinct unless the node's 'share' option makes the last child write the same name as the first one - the "
    "later member has the priority, as in MDOParallelChain._execute) and whose <=9 leaves are polynomial disciplines of degree <=2 (one third purely linear) "
    "reading 1-3 visible variables (biased to the most recent ones: diamonds, fan-in/out, pass-through) and writing new "
    "variables, updating one of their inputs in place or overwriting any visible variable; per leaf the Jacobian "
    "container (dense, csr, JacobianOperator) and whether it fills only the requested pairs. Top level: the tree itself "
    "(MDOChain/MDOParallelChain nesting), the leaves flattened and shuffled into MDAChain (chain_linearize on/off, single "
    "assignment), or MDOAdditiveChain over parallel children all writing the 1-2 summed variables, alone or followed by a downstream leaf "
    "in an MDOChain. Then 1-4 requests: execute, "
    "linearize(compute_all_jacobians), or add_differentiated_inputs/outputs(subset)+linearize, at one of the 1-2 drawn "
    "points or at the first point with only one drawn process input moved (sub-discipline caches are hit); the top-level "
    "process keeps its single-entry cache or gets a MemoryFullCache (1 in 3); the first member of an additive top may be "
    "restricted to the oldest external variable. Seventeen hand-made payloads (diamond closing at a cached last member, linear "
    "in-place update, additive chain whose first member is served from its cache, execute(p1)/execute(p2)/linearize(p1) "
    "with a memory-full cache on MDAChain and MDOChain, parallel members sharing an output alone and nested, additive chain with "
    "two sums of which one is requested directly or through a downstream leaf) are run first. Reference: forward-mode tangent propagation of the exact partials along the execution order. "
    "Non-trivial = some output reached from an external variable by >=2 paths (diamond) or an overwritten variable, "
    "and a strict-subset request that was answered; distinct = structural hash of the payload."
)
ASSUMPTIONS = [
    "'for all input points' is sampled at 1-2 half-integer points per case; the disciplines are polynomials of degree <=2 "
    "with small dyadic coefficients, so reference and implementation agree to rounding: tolerance 1e-10*(1+|J|_max) "
    "(1e-8 for MDAChain with chain_linearize=False, whose total derivatives go through a linear solve)",
    "in a parallel node two children write the same variable only through the 'share' option (the reference keeps the later "
    "member's value and derivative, which is what MDOParallelChain._execute returns) or for the summed variables of an additive "
    "chain; MDAChain compositions are single-assignment: each variable has one producer",
    "requested names are inputs/outputs of the process grammar; the MDA residual-norm output is never requested",
    "extra blocks returned beyond the request are not judged",
    "cases falling in the classes of the open ledger entries (C09-F3, F5, F8, F9, F10 at the time of writing) are skipped (counted in excluded_by_known_finding); "
    "the predicates are structural (computed from the payload), somewhat wider than the exact failing sets",
]

LETTERS = ["a", "b", "m", "x", "z"]
COEFS = [-2.0, -1.0, -0.5, 0.5, 1.0, 2.0]


# --------------------------------------------------------------------------- strategy
def _term():
    factor = st.tuples(st.integers(0, 3), st.integers(0, 1)).map(list)
    return st.one_of(
        st.tuples(st.sampled_from(COEFS), factor).map(list),
        st.tuples(st.sampled_from(COEFS), factor, factor).map(list),
        st.tuples(st.sampled_from(COEFS), factor).map(list),
        st.tuples(st.sampled_from(COEFS)).map(list),
    )


def _component():
    factor = st.tuples(st.integers(0, 3), st.integers(0, 1)).map(list)
    first = st.one_of(st.tuples(st.sampled_from(COEFS), factor).map(list), st.tuples(st.sampled_from(COEFS), factor, factor).map(list))
    return st.tuples(first, st.lists(_term(), max_size=2)).map(lambda t: [t[0], *t[1]])


def _output():
    return st.integers(1, 2).flatmap(lambda size: st.fixed_dictionaries({
        "size": st.just(size),
        "over": st.one_of(st.none(), st.none(), st.none(), st.none(), st.integers(0, 5), st.integers(0, 2).map(lambda k: ["in", k])),
        "letter": st.integers(0, len(LETTERS) - 1),
        "comps": st.lists(_component(), min_size=size, max_size=size),
    }))


def _leaf():
    return st.fixed_dictionaries({
        "k": st.just("leaf"),
        "ins": st.lists(st.sampled_from([0, 0, 0, 1, 1, 2, 3, 4, 5]), min_size=1, max_size=3),
        "outs": st.lists(_output(), min_size=1, max_size=2),
        "jac": st.sampled_from(["dense", "dense", "sparse", "operator"]),
        "fill": st.sampled_from(["requested", "all"]),
        "linear": st.sampled_from([False, False, True]),
    })


def _inner(children, lo=2, hi=3):
    return st.fixed_dictionaries({"k": st.sampled_from(["chain", "chain", "parallel"]), "c": st.lists(children, min_size=lo, max_size=hi),
                                  "threads": st.sampled_from([1, 1, 2]),
                                  # parallel nodes: 1/2 = the last child's last leaf writes the SAME name as the first child's
                                  # last leaf (the later one has the priority); 2 = it also takes the earlier leaf's inputs
                                  "share": st.sampled_from([0, 0, 1, 2])})


@st.composite
def compositions(draw):
    level2 = st.one_of(_leaf(), _leaf(), _inner(_leaf(), 2, 2))
    level1 = st.one_of(_leaf(), _leaf(), _leaf(), _inner(level2, 2, 3))
    top = draw(st.sampled_from(["tree", "tree", "tree", "tree", "mda", "mda_lin", "additive", "additive"]))
    if top == "additive":
        root = {"k": "parallel", "first_reads_oldest": draw(st.booleans()), "c": draw(st.lists(st.one_of(_leaf(), _leaf(), _inner(_leaf(), 2, 2).map(lambda d: {**d, "k": "chain"})),
                                                   min_size=2, max_size=3)), "threads": 1}
        n_sums = draw(st.sampled_from([1, 2, 2]))
        tail = draw(st.one_of(st.none(), _leaf()))
    else:
        root = {"k": draw(st.sampled_from(["chain", "chain", "chain", "parallel"])), "c": draw(st.lists(level1, min_size=2, max_size=4)),
                "threads": draw(st.sampled_from([1, 1, 2])), "share": draw(st.sampled_from([0, 0, 1, 2]))}
        n_sums, tail = 1, None
    n_ext = draw(st.sampled_from([1, 2, 2, 3])) if top == "additive" else draw(st.integers(1, 3))
    ops = draw(st.lists(st.one_of(
        st.fixed_dictionaries({"op": st.just("lin"), "ins": st.lists(st.integers(0, 5), min_size=1, max_size=3),
                               "outs": st.lists(st.integers(0, 7), min_size=1, max_size=3), "pt": st.sampled_from([0, 0, 1, 2])}),
        st.fixed_dictionaries({"op": st.just("lin"), "ins": st.lists(st.integers(0, 5), min_size=1, max_size=2),
                               "outs": st.lists(st.integers(0, 7), min_size=1, max_size=2), "pt": st.sampled_from([0, 0, 1, 2])}),
        st.fixed_dictionaries({"op": st.just("all"), "pt": st.sampled_from([0, 0, 1, 2])}),
        st.fixed_dictionaries({"op": st.just("exec"), "pt": st.sampled_from([0, 0, 1, 2])}),
    ), min_size=1, max_size=4))
    return {
        "top": top,
        "ext": [{"size": draw(st.integers(1, 2)), "letter": draw(st.integers(0, len(LETTERS) - 1))} for _ in range(n_ext)],
        "root": root,
        "sum_size": draw(st.integers(1, 2)),
        # additive tops: number of summed outputs, and an optional downstream leaf (MDOChain([additive chain, leaf]))
        "n_sums": n_sums,
        "tail": tail,
        "shuffle": draw(st.integers(0, 5039)),
        # cache of the top-level process: the default single-entry cache or one keeping every evaluation
        "cache": draw(st.sampled_from(["simple", "simple", "memory_full"])),
        # which process input is moved in the extra point (index modulo the process inputs; None: the last external variable)
        "moved": draw(st.one_of(st.none(), st.integers(0, 3), st.integers(0, 3))),
        "points": draw(st.lists(st.lists(st.integers(-4, 4), min_size=1, max_size=6), min_size=1, max_size=2)),
        "ops": ops,
    }


# --------------------------------------------------------------------------- building
class Built:
    """Resolved composition: specs with names, the tree with resolved leaves, sizes."""

    def __init__(self, p):
        self.p = p
        self.top = p["top"]
        self.sizes: dict[str, int] = {}
        self.ext: list[str] = []
        self.counter = 0
        for e in p["ext"]:
            self.ext.append(self._new_name(e["letter"], int(e["size"])))
        self.overwrites = 0
        self.leaves: list[dict] = []
        allow_over = self.top == "tree"
        self.sum_names: list[str] = []
        self.add_node = None
        if self.top == "additive":
            self.sum_names = [self._new_name(2, int(p["sum_size"])) for _ in range(int(p.get("n_sums", 1)))]
        self.sum_name = self.sum_names[0] if self.sum_names else None
        self.tree = self._resolve(p["root"], list(self.ext), allow_over, is_root=True)
        if self.top == "additive":
            self.add_node = self.tree
            self.add_node["additive"] = True
            add_sum_output(self)
            if p.get("tail"):
                # a downstream leaf: the sums are the most recent variables it sees
                others = [n for n in written_names(self.add_node) if n not in self.ext and n not in self.sum_names]
                visible = list(self.ext) + others + list(self.sum_names)
                tail = self._resolve(p["tail"], visible, False)
                self.tree = {"k": "chain", "c": [self.add_node, tail], "threads": 1}

    def _new_name(self, letter: int, size: int) -> str:
        name = f"{LETTERS[int(letter) % len(LETTERS)]}{self.counter}"
        self.counter += 1
        self.sizes[name] = size
        return name

    def _resolve(self, node, visible: list[str], allow_over: bool, is_root: bool = False):
        """Returns a resolved node; ``visible`` (names in order of creation) is updated in place for chains."""
        if node["k"] == "leaf":
            ins = []
            for i in node["ins"]:
                name = visible[len(visible) - 1 - (int(i) % len(visible))]
                if name not in ins:
                    ins.append(name)
            outs, terms = [], {}
            for o in node["outs"]:
                size = int(o["size"])
                name = None
                if allow_over and o.get("over") is not None:
                    over = o["over"]
                    # ["in", k]: update one of the leaf's own inputs in place; k: overwrite any visible variable
                    cand = ins[int(over[1]) % len(ins)] if isinstance(over, list) else visible[int(over) % len(visible)]
                    if self.sizes[cand] == size and cand not in outs and cand not in self.sum_names:
                        name = cand
                        self.overwrites += 1
                if name is None:
                    name = self._new_name(o["letter"], size)
                outs.append(name)
                comps = []
                for comp in o["comps"]:
                    tl = []
                    for t in comp:
                        factors = []
                        for pos, c in (t[1:2] if node.get("linear") else t[1:]):
                            pos = int(pos) % len(ins)
                            factors.append([pos, int(c) % self.sizes[ins[pos]]])
                        tl.append([float(t[0]), *factors])
                    comps.append(tl)
                terms[name] = comps
            leaf = {"k": "leaf", "ins": ins, "outs": outs, "terms": terms, "jac": node["jac"], "fill": node["fill"], "id": len(self.leaves)}
            self.leaves.append(leaf)
            return leaf
        kind = node["k"]
        children = []
        if kind == "chain":
            local = visible if is_root else list(visible)
            for c in node["c"]:
                r = self._resolve(c, local, allow_over)
                children.append(r)
                for name in written_names(r):
                    if name in local:
                        local.remove(name)  # an overwritten variable becomes the most recent one
                    local.append(name)
        else:
            taken: set[str] = set()
            for idx, c in enumerate(node["c"]):
                # additive tops: the first member may be restricted to the oldest external variable, so that it is
                # served from its own cache when another input moves
                seen = visible[:1] if idx == 0 and node.get("first_reads_oldest") else list(visible)
                r = self._resolve_parallel_child(c, seen, allow_over, taken)
                children.append(r)
                taken.update(written_names(r))
            share = int(node.get("share") or 0) if self.top == "tree" else 0
            if share and len(children) >= 2:
                la, lb = last_leaf(children[0]), last_leaf(children[-1])
                oa, ob = la["outs"][0], lb["outs"][0]
                if oa != ob and oa not in visible and ob not in visible and self.sizes[oa] == self.sizes[ob] and oa not in lb["outs"]:
                    lb["outs"][0] = oa
                    lb["terms"] = {(oa if k == ob else k): v for k, v in lb["terms"].items()}
                    lb.setdefault("shared", []).append(oa)
                    if share == 2 and children[0]["k"] == "leaf" and children[-1]["k"] == "leaf":
                        for u in la["ins"]:
                            if u not in lb["ins"]:
                                lb["ins"].append(u)
        return {"k": kind, "c": children, "threads": int(node.get("threads", 1))}

    def _resolve_parallel_child(self, node, visible, allow_over, taken):
        # a child of a parallel node must not write a name written by a sibling: resolve with overwriting
        # allowed, and fall back to fresh names on a clash
        n_leaves, counter, over = len(self.leaves), self.counter, self.overwrites
        sizes = dict(self.sizes)
        r = self._resolve(node, list(visible), allow_over)
        if taken & set(written_names(r)):
            del self.leaves[n_leaves:]
            self.counter, self.overwrites, self.sizes = counter, over, sizes
            r = self._resolve(node, list(visible), False)
        return r


def last_leaf(node):
    return node if node["k"] == "leaf" else last_leaf(node["c"][-1])


def written_names(node) -> list[str]:
    if node["k"] == "leaf":
        return list(node["outs"])
    out = []
    for c in node["c"]:
        for name in written_names(c):
            if name not in out:
                out.append(name)
    return out


def read_before_write(node, written: set[str], reads: list[str]) -> set[str]:
    """External reads of a node given the names written before it (chain semantics inside chains)."""
    if node["k"] == "leaf":
        for u in node["ins"]:
            if u not in written and u not in reads:
                reads.append(u)
        return written | set(node["outs"])
    if node["k"] == "chain":
        w = set(written)
        for c in node["c"]:
            w = read_before_write(c, w, reads)
        return w
    w_all = set(written)
    for c in node["c"]:
        w_all |= read_before_write(c, set(written), reads)
    return w_all


def add_sum_output(built: Built):
    """Additive chain: every child of the additive node writes every summed variable (appended to its last leaf)."""
    for q, sum_name in enumerate(built.sum_names):
        for idx, child in enumerate(built.add_node["c"]):
            leaf = last_leaf(child)
            size = built.sizes[sum_name]
            comps = []
            for k in range(size):
                pos = (idx + k + q) % len(leaf["ins"])
                comp = (k + q) % built.sizes[leaf["ins"][pos]]
                comps.append([[float(idx + 1 + 2 * q), [pos, comp]], [0.5 + q, [pos, comp], [0, 0]]])
            leaf["outs"].append(sum_name)
            leaf["terms"][sum_name] = comps


def build_process(built: Built):
    from gemseo.core.chains.additive_chain import MDOAdditiveChain
    from gemseo.core.chains.chain import MDOChain
    from gemseo.core.chains.parallel_chain import MDOParallelChain
    from gemseo.mda.mda_chain import MDAChain

    def leaf_disc(leaf):
        spec = PolySpec(leaf["ins"], leaf["outs"], leaf["terms"], built.sizes)
        leaf["spec"] = spec
        return make_poly_discipline(f"L{leaf['id']}", spec, leaf["jac"], leaf["fill"])

    def build(node):
        if node["k"] == "leaf":
            return leaf_disc(node)
        subs = [build(c) for c in node["c"]]
        if node["k"] == "chain":
            return MDOChain(subs)
        if node.get("additive"):
            return MDOAdditiveChain(subs, list(built.sum_names), n_processes=1)
        return MDOParallelChain(subs, n_processes=node["threads"])

    if built.top in ("mda", "mda_lin"):
        discs = [leaf_disc(leaf) for leaf in built.leaves]
        order = nth_permutation(len(discs), int(built.p["shuffle"]))
        return MDAChain([discs[i] for i in order], chain_linearize=built.top == "mda_lin", tolerance=1e-12, max_mda_iter=5,
                        inner_mda_settings={"n_processes": 1})
    if built.tree["k"] == "leaf":
        return MDOChain([build(built.tree)])
    return build(built.tree)


# --------------------------------------------------------------------------- reference: forward mode
def ref_forward(built: Built, point: dict[str, np.ndarray]):
    """Values, tangents (d name / d external) and path counts after executing the composition."""
    ext = built.ext
    sizes = built.sizes
    val = {u: point[u].copy() for u in ext}
    tan = {u: {w: (np.eye(sizes[u]) if w == u else np.zeros((sizes[u], sizes[w]))) for w in ext} for u in ext}
    paths = {u: {w: int(w == u) for w in ext} for u in ext}

    def run(node, env):
        e_val, e_tan, e_paths = env
        if node["k"] == "leaf":
            spec = node["spec"]
            data = {u: e_val[u] for u in spec.ins}
            out = spec.value(data)
            part = spec.partials(data)
            w_val, w_tan, w_paths = {}, {}, {}
            for o in spec.outs:
                w_val[o] = out[o]
                w_tan[o] = {}
                used = {spec.ins[pos] for comp in spec.terms[o] for t in comp for pos, _ in t[1:]}
                w_paths[o] = {w: sum(e_paths[u][w] for u in used) for w in ext}
                for w in ext:
                    acc = np.zeros((out[o].size, sizes[w]))
                    for u in spec.ins:
                        acc = acc + part[o][u] @ e_tan[u][w]
                    w_tan[o][w] = acc
            return w_val, w_tan, w_paths
        writes = ({}, {}, {})
        if node["k"] == "chain":
            local = (dict(e_val), dict(e_tan), dict(e_paths))
            for c in node["c"]:
                w = run(c, local)
                for k in range(3):
                    local[k].update(w[k])
                    writes[k].update(w[k])
            return writes
        for c in node["c"]:
            w = run(c, env)
            for name in w[0]:
                if node.get("additive") and name in built.sum_names and name in writes[0]:
                    writes[0][name] = writes[0][name] + w[0][name]
                    writes[1][name] = {x: writes[1][name][x] + w[1][name][x] for x in ext}
                    writes[2][name] = {x: writes[2][name][x] + w[2][name][x] for x in ext}
                else:
                    for k in range(3):
                        writes[k][name] = w[k][name]
        return writes

    if built.top in ("mda", "mda_lin"):
        node = {"k": "chain", "c": built.leaves}
    else:
        node = built.tree
    return run(node, (val, tan, paths))


# --------------------------------------------------------------------------- oracle
def case_chain_rule(p, ctx):
    built = Built(p)
    if built.top == "additive" and any(leaf["jac"] == "operator" for leaf in built.leaves) \
            and ctx.known("additive_with_jacobian_operator"):
        return  # C09-F2: the builtin sum() of additive_chain.py cannot add JacobianOperator blocks
    # writers of a name; the members of ONE parallel node deliberately sharing an output name count once
    writers: dict[str, int] = {}
    for leaf in built.leaves:
        for o in leaf["outs"]:
            if o not in leaf.get("shared", ()):
                writers[o] = writers.get(o, 0) + 1
    two_producers = any(v >= 2 for k, v in writers.items() if k not in built.sum_names)
    # a leaf writes, without reading it, a name that is also written by another leaf or read from outside by the process
    reads0: list[str] = []
    read_before_write({"k": "chain", "c": built.leaves} if built.top in ("mda", "mda_lin") else built.tree, set(), reads0)
    redefined = any(
        o not in leaf["ins"] and o not in built.sum_names and o not in leaf.get("shared", ()) and (writers[o] >= 2 or o in reads0)
        for leaf in built.leaves for o in leaf["outs"]
    )
    if redefined and ctx.known("variable_redefined_without_being_read"):
        return  # C09-F5
    if built.top == "tree" and stale_point_member(built.tree, set()) and \
            ctx.known("chain_member_reads_a_variable_it_overwrites_nonlinearly"):
        return  # MDOChain linearises such a member at the overwritten value
    if built.top == "tree" and contaminated_accumulation(built.tree) and \
            ctx.known("inplace_variable_composed_after_a_sibling_output"):
        return  # C09-F8
    if built.top == "tree" and shared_output_earlier_reads_more(built.tree) and \
            ctx.known("parallel_shared_output_earlier_member_reads_more"):
        return  # C09-F10
    process = build_process(built)
    if p.get("cache", "simple") == "memory_full":
        process.set_cache(process.CacheType.MEMORY_FULL, is_memory_shared=False)
    residual_name = getattr(process, "NORMALIZED_RESIDUAL_NORM", None)
    in_names = sorted(process.io.input_grammar)
    out_names = sorted(n for n in process.io.output_grammar if n != residual_name)
    # the harness' own idea of the process interface (reads before writes / all written names)
    reads: list[str] = []
    root = {"k": "chain", "c": built.leaves} if built.top in ("mda", "mda_lin") else built.tree
    read_before_write(root, set(), reads)
    ctx.check(sorted(reads) == in_names, "interface", f"process inputs {in_names}, harness expects {sorted(reads)}")
    ctx.check(sorted(written_names(root)) == out_names, "interface", f"process outputs {out_names}, harness expects {sorted(written_names(root))}")

    points = []
    for vals in p["points"]:
        pt, k = {}, 0
        for u in built.ext:
            arr = np.zeros(built.sizes[u])
            for c in range(arr.size):
                arr[c] = vals[k % len(vals)] / 2.0 + 0.25 * k
                k += 1
            pt[u] = arr
        points.append(pt)
    # one more point: the first one with only the last external variable moved (members that do not depend on it
    # answer from their caches)
    moved = {u: v.copy() for u, v in points[0].items()}
    moved_name = built.ext[-1] if p.get("moved") is None or not in_names else in_names[int(p["moved"]) % len(in_names)]
    moved[moved_name] = moved[moved_name] + 1.0
    points.append(moved)
    refs = [ref_forward(built, pt) for pt in points]
    rtol = 1e-8 if built.top == "mda" else 1e-10  # tolerance: rtol * (1 + max|J_ref|)
    if built.top == "mda":
        # MDAChain(chain_linearize=False) solves the coupled adjoint system with an iterative linear solver: compositions of
        # squares can reach Jacobian entries of 1e11 next to entries of 1, a system on which the Krylov solver stalls (gemseo
        # only warns). Ill-conditioning is outside the property ("exactly the Jacobian" of well-scaled processes): counted, skipped.
        jmax = max((float(np.max(np.abs(b))) for _, r_tan, _ in refs for row in r_tan.values() for b in row.values() if b.size), default=0.0)
        if jmax > 1e6:
            ctx.cls("inconclusive:mda_assembly_with_jacobian_entries_above_1e6")
            return

    d_in: list[str] = []
    d_out: list[str] = []
    answered_subset = False
    partial_sum_request = False
    n_lin = 0
    chain_top = (built.top == "tree" and built.tree["k"] != "parallel") or (built.top == "additive" and built.tree["k"] == "chain")
    chain_top_full_cache = chain_top and p.get("cache", "simple") == "memory_full"
    seen_inputs: list[tuple] = []  # input data the process really executed, in order
    for step, op in enumerate(p["ops"]):
        k = int(op["pt"]) % len(points)
        data = {u: points[k][u].copy() for u in in_names}
        r_val, r_tan, _ = refs[k]
        key = tuple(float(x) for u in in_names for x in data[u])
        if chain_top_full_cache and op["op"] != "exec" and key in seen_inputs and seen_inputs[-1] != key and \
                ctx.known("chain_with_multi_entry_cache_linearised_at_revisited_point"):
            return  # C09-F9: the chain is served from its cache, its members are still at the last executed point
        if key not in seen_inputs:
            seen_inputs.append(key)
        if op["op"] == "exec":
            out = process.execute(data)
            pairs = []
        elif op["op"] == "all":
            jac = process.linearize(data, compute_all_jacobians=True)
            pairs = [(o, u) for o in out_names for u in in_names]
            out = process.io.data
        else:
            new_in = [in_names[int(i) % len(in_names)] for i in op["ins"]]
            new_out = [out_names[int(i) % len(out_names)] for i in op["outs"]]
            process.add_differentiated_inputs(sorted(set(new_in)))
            process.add_differentiated_outputs(sorted(set(new_out)))
            d_in = sorted(set(d_in) | set(new_in))
            d_out = sorted(set(d_out) | set(new_out))
            if built.top == "additive" and ctx.known("additive_request_without_summed_output", count=False):
                member_inputs = []
                for child in built.add_node["c"]:
                    reads_c: list[str] = []
                    read_before_write(child, set(), reads_c)
                    member_inputs.append(set(reads_c))
                if not set(built.sum_names) <= set(d_out) or any(not (m & set(d_in)) for m in member_inputs):
                    ctx.known("additive_request_without_summed_output")
                    return  # C09-F1: the linearize call below raises KeyError / AssertionError
            if built.top == "mda" and not coupling_on_a_path(built, d_in, d_out) and \
                    ctx.known("mda_request_without_coupling_on_a_path"):
                return  # the coupled-derivative assembly of BaseMDA raises IndexError on an empty coupling set
            if built.top == "mda" and unconnected_request(built, d_in, d_out, "output") and \
                    ctx.known("mda_requested_output_independent_of_requested_inputs"):
                return  # C09-F6: KeyError in the assembly instead of a zero block
            if built.top == "mda" and unconnected_request(built, d_in, d_out, "input") and \
                    ctx.known("mda_requested_input_reaching_no_requested_output"):
                return  # C09-F7: ValueError (size of the input unknown) instead of a zero block
            jac = process.linearize(data)
            pairs = [(o, u) for o in d_out for u in d_in]
            out = process.io.data
        # values (the function the process computes)
        for o in out_names:
            if op["op"] != "exec" and o in in_names:
                continue  # linearize() restores the input value of a variable that is both input and output
            ctx.check(o in out, "value", f"step {step}: output {o} missing after {op['op']}", step=step)
            got = np.asarray(out[o], dtype=float)
            ctx.check(got.shape == r_val[o].shape and float(np.max(np.abs(got - r_val[o]))) <= 1e-10 * (1 + float(np.max(np.abs(r_val[o])))),
                      "value", f"step {step}: {o}={got.tolist()}, reference {r_val[o].tolist()}", step=step)
        if not pairs:
            continue
        n_lin += 1
        for o, u in pairs:
            ctx.check(o in jac and u in jac[o], "block_present", f"step {step}: block d{o}/d{u} was requested but is not returned", step=step)
            blk = to_dense(jac[o][u])
            ref = r_tan[o][u]
            ctx.check(tuple(blk.shape) == ref.shape, "block_shape", f"step {step}: d{o}/d{u} has shape {tuple(blk.shape)}, expected {ref.shape}", step=step)
            tol = rtol * (1.0 + float(np.max(np.abs(ref))) if ref.size else 1.0)
            err = float(np.max(np.abs(np.asarray(blk, dtype=float) - ref))) if ref.size else 0.0
            sub = "zero_block" if not np.any(ref) else "block_value"
            ctx.check(err <= tol, sub, f"step {step} ({op['op']} at point {k}): d{o}/d{u}={np.asarray(blk).tolist()} but the forward-mode reference is {ref.tolist()}",
                      step=step)
        if op["op"] == "lin" and len(pairs) < len(in_names) * len(out_names):
            answered_subset = True
        if op["op"] == "lin" and built.sum_names:
            requested_sums = set(built.sum_names) & set(d_out)
            tail_only = built.tree["k"] == "chain" and bool(set(d_out) & set(built.tree["c"][1]["outs"]))
            if 0 < len(requested_sums) < len(built.sum_names) or (not requested_sums and tail_only):
                partial_sum_request = True

    # ---- classification
    _, _, r_paths = refs[0]
    diamond = any(r_paths[o][u] >= 2 for o in out_names for u in in_names)
    r_tan0 = refs[0][1]
    zero_pairs = sum(1 for o in out_names for u in in_names if not np.any(r_tan0[o][u]))
    kinds = {leaf["jac"] for leaf in built.leaves}
    ctx.cls(f"top={built.top}")
    if diamond:
        ctx.cls("diamond")
    if built.overwrites:
        ctx.cls("overwritten_variable")
    if two_producers:
        ctx.cls("produced_variable_updated_in_place")
    if any(name in in_names for name in out_names):
        ctx.cls("input_overwritten_(input_is_output)")
    if zero_pairs:
        ctx.cls("has_independent_pair")
    if n_lin >= 2:
        ctx.cls("successive_linearisations>=2")
    if p.get("cache", "simple") == "memory_full":
        ctx.cls("top_cache=memory_full")
        visited = [int(op["pt"]) % len(points) for op in p["ops"]]
        if any(visited[i] in visited[:i] and visited[i] != visited[i - 1] for i in range(1, len(visited))):
            ctx.cls("memory_full_point_revisited_after_another")
    if answered_subset:
        ctx.cls("strict_subset_request")
    if "operator" in kinds:
        ctx.cls("jacobian_operator")
    if "sparse" in kinds:
        ctx.cls("sparse_jacobian")
    if has_kind(built.tree, "parallel") and built.top == "tree":
        ctx.cls("parallel_node")
    if any(leaf.get("shared") for leaf in built.leaves):
        ctx.cls("parallel_members_share_an_output_name")
    if built.top == "additive":
        if len(built.sum_names) >= 2:
            ctx.cls("additive_two_sums")
            if partial_sum_request:
                ctx.cls("additive_two_sums_partial_request")
        if built.tree["k"] == "chain":
            ctx.cls("additive_nested_in_chain")
    if nested(built.tree) and built.top == "tree":
        ctx.cls("nested_process")
    if (diamond or built.overwrites) and answered_subset:
        ctx.cls("NONTRIVIAL")
        ctx.nontriv(("c09", p))
    ctx.sample({"oracle": "chain_rule", "case": p})


def has_quadratic(node, var=None) -> bool:
    if node["k"] == "leaf":
        return any(len(t) == 3 and (var is None or any(node["ins"][pos] == var for pos, _ in t[1:]))
                   for o in node["outs"] for comp in node["terms"][o] for t in comp)
    return any(has_quadratic(c, var) for c in node["c"])


def stale_point_member(node, written: set[str]) -> bool:
    """Does some MDOChain hold a member that reads a variable it also writes, with derivatives depending on its value.

    Leaf member: the variable occurs in one of its degree-2 terms.  MDOParallelChain member: it re-executes its children
    from its own (overwritten) data, so any degree-2 term below it counts.  Sub-chains are judged through their own members.
    """
    if node["k"] == "leaf":
        return False
    if node["k"] == "parallel":
        return any(stale_point_member(c, written) for c in node["c"])
    for c in node["c"]:
        reads: list[str] = []
        read_before_write(c, set(), reads)
        both = set(reads) & set(written_names(c))
        if c["k"] == "leaf" and any(has_quadratic(c, v) for v in both):
            return True
        if c["k"] == "parallel" and both and has_quadratic(c):
            return True
        if stale_point_member(c, written):
            return True
    return False


def contaminated_accumulation(node) -> bool:
    """MDOChain member with a variable v it reads and writes plus another output w handled before v, both read downstream.

    reverse_chain_rule walks the member's outputs in sorted order; composing w first adds d./dw * dw/dv to the entry
    d./dv, which is then (wrongly) used as the derivative w.r.t. the *new* v when v's turn comes.
    """
    if node["k"] == "leaf":
        return False
    if node["k"] == "chain":
        for i, c in enumerate(node["c"]):
            reads: list[str] = []
            read_before_write(c, set(), reads)
            outs = written_names(c)
            both = set(reads) & set(outs)
            later_reads: list[str] = []
            for later in node["c"][i + 1:]:
                read_before_write(later, set(), later_reads)
            for v in both:
                for w in outs:
                    if w != v and (w < v or w in both) and v in later_reads and w in later_reads:
                        return True
    return any(contaminated_accumulation(c) for c in node["c"])


def shared_output_earlier_reads_more(node) -> bool:
    """A parallel node where a name is written by several children and an earlier writer reads a variable the last writer does not."""
    if node["k"] == "leaf":
        return False
    if node["k"] == "parallel" and not node.get("additive"):
        infos = []
        for c in node["c"]:
            reads: list[str] = []
            read_before_write(c, set(), reads)
            infos.append((set(written_names(c)), set(reads)))
        for idx, (outs, reads) in enumerate(infos):
            for name in outs:
                later = [k for k in range(idx + 1, len(infos)) if name in infos[k][0]]
                if later and reads - infos[later[-1]][1]:
                    return True
    return any(shared_output_earlier_reads_more(c) for c in node["c"])


def coupling_on_a_path(built: Built, d_in, d_out) -> bool:
    """Is there a discipline-to-discipline edge between a discipline reached from a requested input and one reaching a requested output."""
    from vlib.gen.graphs import closure

    leaves = built.leaves
    n = len(leaves)
    adj = [[i != j and bool(set(leaves[i]["outs"]) & set(leaves[j]["ins"])) for j in range(n)] for i in range(n)]
    reach = closure(n, adj)
    src = [i for i in range(n) if set(leaves[i]["ins"]) & set(d_in)]
    dst = [i for i in range(n) if set(leaves[i]["outs"]) & set(d_out)]
    from_in = [any(i == s or reach[s][i] for s in src) for i in range(n)]
    to_out = [any(j == t or reach[j][t] for t in dst) for j in range(n)]
    return any(adj[i][j] and from_in[i] and to_out[j] for i in range(n) for j in range(n))


def unconnected_request(built: Built, d_in, d_out, which: str) -> bool:
    """Does the request hold an output (resp. input) whose discipline(s) are connected to no requested input (resp. output)."""
    from vlib.gen.graphs import closure

    leaves = built.leaves
    n = len(leaves)
    adj = [[i != j and bool(set(leaves[i]["outs"]) & set(leaves[j]["ins"])) for j in range(n)] for i in range(n)]
    reach = closure(n, adj)
    src = [i for i in range(n) if set(leaves[i]["ins"]) & set(d_in)]
    dst = [t for t in range(n) if set(leaves[t]["outs"]) & set(d_out)]
    if which == "output":
        return any(not any(t == s or reach[s][t] for s in src) for t in dst)
    # some requested input is read only by disciplines reaching no producer of a requested output
    for u in d_in:
        readers = [i for i in range(n) if u in leaves[i]["ins"]]
        if not any(i == t or reach[i][t] for i in readers for t in dst):
            return True
    return False


def has_kind(node, kind) -> bool:
    if node["k"] == "leaf":
        return False
    return node["k"] == kind or any(has_kind(c, kind) for c in node["c"])


def nested(node) -> bool:
    return node["k"] != "leaf" and any(c["k"] != "leaf" for c in node["c"])


def _mk_leaf(ins, outs, jac="dense", fill="all", linear=False):
    return {"k": "leaf", "ins": ins, "outs": outs, "jac": jac, "fill": fill, "linear": linear}


def _mk_out(comps, over=None, size=1, letter=0):
    return {"size": size, "over": over, "letter": letter, "comps": comps}


def scenarios():
    """A few hand-made payloads for shapes the random search reaches too rarely within the quick budget."""
    lin = [[[-2.0, [0, 0]]]]
    base = {"top": "tree", "sum_size": 1, "shuffle": 0, "points": [[1]]}
    for jac in ("dense", "sparse", "operator"):
        # diamond closing at the last member, which does not depend on the moved external variable: its cached
        # Jacobian is reused for the second request
        yield {**base, "ext": [{"letter": 0, "size": 1}, {"letter": 0, "size": 1}],
               "root": {"k": "chain", "threads": 1, "c": [
                   _mk_leaf([0], [_mk_out(lin)], jac), _mk_leaf([2], [_mk_out(lin)], jac),
                   _mk_leaf([0, 3], [_mk_out([[[1.0, [0, 0]], [3.0, [1, 0]]]])], jac)]},
               "ops": [{"op": "all", "pt": 0}, {"op": "all", "pt": 1}, {"op": "lin", "ins": [0], "outs": [2], "pt": 0}]}
        # a linear in-place update followed by a reader
        yield {**base, "ext": [{"letter": 0, "size": 1}],
               "root": {"k": "chain", "threads": 1, "c": [
                   _mk_leaf([0], [_mk_out(lin, over=["in", 0])], jac, linear=True), _mk_leaf([0], [_mk_out([[[1.0, [0, 0]]]])], jac)]},
               "ops": [{"op": "lin", "ins": [0], "outs": [1], "pt": 0}, {"op": "all", "pt": 0}]}


    sq = [[[1.0, [0, 0], [0, 0]]]]  # square of the first input
    for jac in ("dense", "sparse"):
        # additive chain whose first member does not read the moved (last) external variable: the chain recomputes,
        # the first member answers from its cache; then back to the first point
        yield {"top": "additive", "sum_size": 1, "shuffle": 0, "points": [[1]], "cache": "simple", "moved": None,
               "ext": [{"letter": 0, "size": 1}, {"letter": 0, "size": 1}],
               "root": {"k": "parallel", "threads": 1, "c": [
                   _mk_leaf([1], [_mk_out(sq)], jac), _mk_leaf([1, 0], [_mk_out([[[1.0, [0, 0], [1, 0]]]])], jac)]},
               "ops": [{"op": "all", "pt": 0}, {"op": "all", "pt": 1}, {"op": "all", "pt": 1},
                       {"op": "lin", "ins": [0], "outs": [2], "pt": 0}]}
    for top in ("mda_lin", "mda", "tree"):
        # a cache keeping every evaluation on the top-level process: evaluate at two points, then linearise at the first
        yield {"top": top, "sum_size": 1, "shuffle": 0, "points": [[3], [-1]], "cache": "memory_full", "moved": None,
               "ext": [{"letter": 0, "size": 1}],
               "root": {"k": "chain", "threads": 1, "c": [
                   _mk_leaf([0], [_mk_out(sq)]), _mk_leaf([0, 1], [_mk_out([[[1.0, [0, 0], [0, 0]], [1.0, [1, 0]]]])])]},
               "ops": [{"op": "exec", "pt": 0}, {"op": "exec", "pt": 1}, {"op": "all", "pt": 0},
                       {"op": "lin", "ins": [0], "outs": [0], "pt": 1}]}


    # parallel members writing the same output from the same input (the later one has the priority), alone and
    # followed by a reader in an enclosing chain
    two = {"k": "parallel", "threads": 1, "share": 1, "c": [
        _mk_leaf([0], [_mk_out(sq)]), _mk_leaf([0], [_mk_out([[[3.0, [0, 0]]]])])]}
    yield {"top": "tree", "sum_size": 1, "shuffle": 0, "points": [[3]], "cache": "simple", "moved": None,
           "ext": [{"letter": 0, "size": 1}], "root": two, "ops": [{"op": "all", "pt": 0}, {"op": "lin", "ins": [0], "outs": [0], "pt": 1}]}
    yield {"top": "tree", "sum_size": 1, "shuffle": 0, "points": [[3]], "cache": "simple", "moved": None,
           "ext": [{"letter": 0, "size": 1}],
           "root": {"k": "chain", "threads": 1, "c": [two, _mk_leaf([0], [_mk_out(sq)])]},
           "ops": [{"op": "lin", "ins": [0], "outs": [1], "pt": 0}, {"op": "all", "pt": 0}]}
    # additive chain with two summed outputs: one of them requested first, alone and through a downstream leaf
    members = {"k": "parallel", "threads": 1, "c": [_mk_leaf([0], [_mk_out(sq)]), _mk_leaf([0], [_mk_out(lin)])]}
    add2 = {"top": "additive", "sum_size": 1, "n_sums": 2, "shuffle": 0, "points": [[3]], "cache": "simple", "moved": None,
            "ext": [{"letter": 0, "size": 1}], "root": members}
    for k in (0, 1):
        yield {**add2, "tail": None, "ops": [{"op": "lin", "ins": [0], "outs": [2 + k], "pt": 0}, {"op": "all", "pt": 0}]}
        # the tail reads one sum only (index 0: the last sum, 1: the first one); its output is the only one requested
        yield {**add2, "tail": _mk_leaf([k], [_mk_out(sq)]), "ops": [{"op": "lin", "ins": [0], "outs": [2], "pt": 0},
                                                                     {"op": "all", "pt": 0}]}


ORACLES = {"chain_rule": case_chain_rule, "scenarios": case_chain_rule}


def run(ctx):
    ctx.enumerate("scenarios", scenarios(), case_chain_rule)
    ctx.drive("chain_rule", compositions(), case_chain_rule, quick=420, thorough=3000)
