"""C10 - Function algebra and transformations evaluate and differentiate exactly.

Expression trees over harness polynomials, MDOLinearFunction and MDOQuadraticFunction leaves are
drawn as JSON payloads, built with the real operators / helpers and compared with the harness'
own forward-mode evaluation (value and exact Jacobian carried together through every node).
Where the operators are dtype-agnostic the same tree is evaluated on an object array of sympy
symbols and compared as a rational function (for every real input).
"""

from __future__ import annotations

import logging
import math
import warnings

import numpy as np
from hypothesis import strategies as st

logging.getLogger("gemseo").setLevel(logging.ERROR)

PROPERTY = "C10"
LEVEL = "exploration"
RULE = (
    "Hypothesis draws an expression tree of depth <= 4 (leaves: polynomial MDOFunction of degree <= 2 with "
    "output dim 1-3 incl. dim_out = dim_in and both scalar conventions float/1-D gradient and size-1 "
    "array/2-D Jacobian, MDOLinearFunction, MDOQuadraticFunction, positive polynomials as denominators; "
    "nodes: + - * / with a function of the same dim, a scalar function, a number or an array, unary minus, "
    "offset; a scalar-valued first operand may be combined with a vector-valued second function) and 3 points "
    "on a grid of quarters given as float64, int64 or float32 arrays; helpers (FunctionRestriction, LinearCompositeFunction, "
    "Concatenate, first/second-order Taylor polynomials, ConvexLinearApprox) are applied on top of such "
    "trees; chains of MDOLinearFunction.__neg__/offset/restrict (frozen indexes = random permutation of a subset)/normalize "
    "and reassignments of its public coefficients / value_at_zero on dense and sparse coefficients; reassignments of "
    "MDOQuadraticFunction.quad_coeffs / linear_coeffs, alone and under a function composed beforehand; "
    "aggregation functions (max, KS lower/upper, IKS, (positive) sum of squares with indices, scalar and "
    "array scale, rho) and the ConstraintAggregation discipline.  Every case is compared with the harness "
    "forward-mode reference (value and Jacobian), operands are evaluated before and after and the arrays "
    "they returned are checked unmodified.  Non-trivial = tree of depth >= 2 with a vector-valued operand "
    "(dim >= 2) under a product, quotient, helper or aggregation and checked in full (not excluded by a "
    "known finding); distinct = structural hash of the payload."
)
ASSUMPTIONS = [
    "denominators are positive polynomial leaves >= 1, non-zero numbers or arrays without zero entries",
    "a function of output dimension 1 may return a float with a 1-D gradient or a size-1 array with a (1,n) "
    "Jacobian; both shapes are accepted from a composed function of dimension 1",
    "operands of binary operators have the same dimension or one of them (first or second) is scalar-valued and "
    "broadcasts; the operators declare the dimension of their first operand, so the declared dim is not asserted "
    "for a scalar-valued first operand combined with a vector-valued second one (helpers and aggregations are "
    "applied to trees without that combination: several of them read the declared dim)",
    "evaluation points are float64, int64 (what DesignSpace.get_current_value() returns for an all-integer space) "
    "or float32 arrays holding the same numbers; the harness leaves compute in double precision; expansion points "
    "and frozen values are float64",
    "numeric comparisons use 1e-11 x the largest magnitude met by the reference in the tree (values "
    "are small dyadic rationals: the arithmetic is exact or nearly so)",
    "symbolic comparison: cross-multiplied numerators compared coefficient-wise within 1e-9 x the largest "
    "coefficient (GEMSEO multiplies symbols by float coefficients); denominators are positive polynomials",
    "KS/IKS aggregation parameter rho <= 300 (the implementation evaluates exp(rho) for the largest "
    "component), positive scale factors",
    "max aggregation: the Jacobian is compared only where the maximum is attained by one component",
    "sum of squares with a scale: both readings sum(scale*g^2) and sum((scale*g)^2) are accepted for the "
    "value; the Jacobian must be the derivative of the reading the value follows",
    "lower-bound KS with a strict subset of indices: both log(len(subset))/rho and log(len(all))/rho are "
    "accepted as the shift (the docstring does not say); the bound side is always required",
    "second-order Taylor polynomials are requested with symmetric Hessian approximations and for scalar "
    "functions following the float / 1-D gradient convention",
    "ConvexLinearApprox: a negative partial derivative w.r.t. a variable whose reference value is 0 is outside the domain "
    "(reciprocal variable undefined); with negative partials only definition-independent facts are required: value and "
    "gradient agree with the operand at the expansion point, and away from it (and from 0) the Jacobian is the derivative "
    "(complex step through the function itself) of what the function evaluates",
    "only attributes with a public setter are reassigned (MDOLinearFunction.coefficients / value_at_zero, "
    "MDOQuadraticFunction.quad_coeffs / linear_coeffs), with arrays of the original shape; a function composed before a "
    "reassignment may follow the new or the old coefficients, its Jacobian must follow the same ones as its value",
    "ConstraintAggregation is used with one constraint name (with several names all but the first output are empty)",
]

TOL = 1e-11

# names of the ledger predicates (open entries in known_findings.json exclude exactly these classes)
K_P7 = "product_quotient_vector_first_operand"
K_CONVEX = "convex_lin_negative_partial"
K_INPLACE = "aggregation_inplace_scale"
K_LINCOMP = "linear_composite_2d_jacobian"
K_AGGJAC = "aggregation_total_jac_array_scale"
K_DISCMAX = "aggregation_discipline_max_jacobian"
K_CONVEX_INPLACE = "convex_lin_jac_inplace"

NUMS = [-3.0, -2.0, -1.0, -0.5, 0.5, 1.0, 2.0, 3.0]
# dtype of the evaluation points: MDOFunctions are evaluated at float64 arrays by the drivers, at int64 arrays
# through DesignSpace.get_current_value() of an all-integer space, and single precision is a plain ndarray too
XDTYPES = ["float64", "float64", "float64", "int64", "int64", "float32"]


# =========================================================================== strategies
def _lst(elem, k):
    return st.lists(elem, min_size=k, max_size=k)


def _mat(r, c, elem):
    return _lst(_lst(elem, c), r)


@st.composite
def leaves(draw, m: int, n: int, positive: bool = False, flat: bool = False):
    form = draw(st.sampled_from(["float1d"] if flat else ["float1d", "arr2d"])) if m == 1 else "arr2d"
    if positive:
        return {"k": "pos", "m": m, "c": draw(_lst(st.integers(1, 3), m)), "d": draw(_mat(m, n, st.integers(0, 2))), "form": form}
    kinds = ["poly", "poly", "lin"] + (["quad"] if m == 1 else [])
    kind = draw(st.sampled_from(kinds))
    c3 = st.integers(-3, 3)
    if kind == "poly":
        quad = draw(st.booleans())
        return {
            "k": "poly", "m": m, "c": draw(_lst(c3, m)), "B": draw(_mat(m, n, c3)),
            "A": draw(_lst(_mat(n, n, st.integers(-2, 2)), m)) if quad else None, "form": form,
        }
    if kind == "lin":
        b = draw(_lst(c3, m))
        return {"k": "lin", "m": m, "A": draw(_mat(m, n, c3)), "b": b, "b_number": m == 1 and draw(st.booleans())}
    return {"k": "quad", "m": 1, "Q": draw(_mat(n, n, st.integers(-2, 2))), "b": draw(st.one_of(st.none(), _lst(c3, n))), "c": draw(c3)}


@st.composite
def trees(draw, m: int, n: int, depth: int, vecprod: bool = True, flat: bool = False, root: bool = False, sfirst: bool = False):
    """A tree of output dimension m over n inputs.

    vecprod=False never multiplies/divides a vector-valued function by a function; flat=True keeps
    scalar functions in the float / 1-D gradient convention (no size-1 array operand); root=True
    forbids a bare leaf; sfirst=True also combines a scalar-valued FIRST operand with a vector-valued
    second function (the result broadcasts to the dimension of the second operand).
    """
    if depth <= 0 or (not root and draw(st.integers(0, 4)) == 0):
        return draw(leaves(m, n, flat=flat))
    sub = lambda mm, d: trees(mm, n, d, vecprod, flat, False, sfirst)  # noqa: E731
    arrays_ok = not (flat and m == 1)
    kind = draw(st.sampled_from(["op", "op", "op", "op", "op", "neg", "offset"]))
    if kind == "neg":
        return {"k": "neg", "a": draw(sub(m, depth - 1))}
    if kind == "offset":
        v = draw(st.sampled_from(NUMS)) if (not arrays_ok or draw(st.booleans())) else draw(_lst(st.sampled_from(NUMS), m))
        return {"k": "offset", "a": draw(sub(m, depth - 1)), "v": v}
    op = draw(st.sampled_from(["+", "-", "*", "*", "/", "/"]))
    if sfirst and m >= 2 and (vecprod or op in "+-") and draw(st.integers(0, 2)) == 0:
        # scalar-valued first operand, vector-valued second function
        a = draw(sub(1, depth - 1))
        b = draw(leaves(m, n, positive=True, flat=flat)) if op == "/" else draw(sub(m, depth - 1))
        return {"k": "op", "op": op, "a": a, "b": b}
    a = draw(sub(m, depth - 1))
    if op in "*/" and m >= 2:
        choices = ["func", "num", "arr", "arr"] if vecprod else ["num", "arr"]
    else:
        choices = ["func", "func", "num", "arr"] if arrays_ok else ["func", "func", "num"]
    bkind = draw(st.sampled_from(choices))
    if bkind == "func":
        mb = m if (m == 1 or draw(st.booleans())) else 1
        b = draw(leaves(mb, n, positive=True, flat=flat)) if op == "/" else draw(sub(mb, depth - 1))
    elif bkind == "num":
        v = draw(st.sampled_from(NUMS if op == "/" else [*NUMS, 0.0]))
        b = {"k": "num", "v": int(v) if (v == int(v) and draw(st.booleans())) else v}
    else:
        b = {"k": "arr", "v": draw(_lst(st.sampled_from(NUMS), m))}
    return {"k": "op", "op": op, "a": a, "b": b}


def _points(n, k=3):
    return _lst(_lst(st.integers(-8, 8), n), k)


@st.composite
def algebra_cases(draw, max_depth=4, max_n=3, max_m=3):
    n = draw(st.integers(1, max_n))
    m = draw(st.sampled_from([d for d in (1, 2, 2, 3, n) if d <= max_m]))
    depth = draw(st.integers(1, max_depth))
    vecprod = draw(st.integers(0, 2)) > 0
    return {"n": n, "m": m, "tree": draw(trees(m, n, depth, vecprod, root=True, sfirst=True)), "points": draw(_points(n)),
            "xdtype": draw(st.sampled_from(XDTYPES))}


def _sym_matrix(draw, n):
    up = draw(_mat(n, n, st.integers(-2, 2)))
    return [[up[min(i, j)][max(i, j)] for j in range(n)] for i in range(n)]


@st.composite
def helper_cases(draw):
    kind = draw(st.sampled_from(["restrict", "lincomp", "concat", "taylor1", "taylor2", "convex", "convex"]))
    n = draw(st.integers(2, 4)) if kind == "restrict" else draw(st.integers(1, 3))
    m = 1 if kind == "taylor2" else draw(st.sampled_from([1, 2, 2, 3, min(n, 3)]))
    flat = kind == "taylor2"
    if kind == "lincomp" and draw(st.integers(0, 2)) > 0:
        m, flat = 1, True
    vecprod = draw(st.integers(0, 3)) == 0
    depth = draw(st.integers(0, 3))
    if kind == "taylor2" and draw(st.booleans()):
        depth = 0  # a quadratic leaf: the exact Hessian is known
    p = {"helper": kind, "n": n, "m": m, "tree": draw(trees(m, n, depth, vecprod, flat))}
    n_pts = n
    if kind == "restrict":
        k = draw(st.integers(1, n - 1))
        p["frozen"] = draw(st.permutations(list(range(n))))[:k]
        p["values"] = draw(_lst(st.integers(-8, 8), k))
        p["tenth"] = draw(st.booleans())  # frozen values v/4 + 0.1: not representable in single precision
        n_pts = n - k
    elif kind == "lincomp":
        n_pts = draw(st.integers(1, 3))
        p["matrix"] = draw(_mat(n, n_pts, st.integers(-2, 2)))
    elif kind == "concat":
        p["others"] = [draw(trees(draw(st.integers(1, 3)), n, draw(st.integers(0, 2)), vecprod)) for _ in range(draw(st.integers(1, 2)))]
        p["position"] = draw(st.integers(0, 2))
    elif kind in ("taylor1", "taylor2", "convex"):
        p["x0"] = draw(_lst(st.integers(-8, 8), n))
        if kind == "taylor2":
            p["H"] = _sym_matrix(draw, n)
            p["exact"] = draw(st.booleans())
        if kind == "convex":
            p["mask"] = draw(st.one_of(st.none(), _lst(st.booleans(), n)))
    p["points"] = draw(_points(n_pts))
    p["xdtype"] = draw(st.sampled_from(XDTYPES))
    return p


@st.composite
def linear_cases(draw):
    n = draw(st.sampled_from([1, 2, 3, 3, 4, 4, 5]))
    m = draw(st.integers(1, 3))
    c3 = st.integers(-3, 3)
    ops = []
    for _ in range(draw(st.integers(1, 4))):
        kind = draw(st.sampled_from(["neg", "offset", "restrict", "restrict", "normalize", "normalize", "set_coefficients", "set_value_at_zero"]))
        if kind == "set_coefficients":
            # reassignment of the public attribute (same shape, cut to the current number of inputs)
            ops.append({"op": kind, "A": draw(_mat(m, 5, c3))})
        elif kind == "set_value_at_zero":
            ops.append({"op": kind, "b": draw(_lst(c3, m)), "number": draw(st.booleans())})
        elif kind == "neg":
            ops.append({"op": "neg"})
        elif kind == "offset":
            ops.append({"op": "offset", "v": draw(st.sampled_from(NUMS)) if draw(st.booleans()) else draw(_lst(st.sampled_from(NUMS), m))})
        elif kind == "restrict":
            # frozen indexes: a random permutation of a subset (taken modulo the current number of inputs, in this order)
            k = draw(st.sampled_from([1, 2, 2, 3, 3, 4]))
            ops.append({"op": "restrict", "idx": list(draw(st.permutations(list(range(8)))))[:k], "vals": draw(_lst(st.integers(-8, 8), 4))})
        else:
            # a design space over the current inputs: variable sizes (cut modulo), per-component bounds
            comps = [
                {"lb": draw(st.one_of(st.none(), st.integers(-6, 2))), "w": draw(st.integers(1, 5)), "ub_inf": draw(st.integers(0, 4)) == 0}
                for _ in range(4)
            ]
            ops.append({"op": "normalize", "sizes": draw(st.lists(st.integers(1, 2), min_size=4, max_size=4)),
                        "comps": comps, "int_var": draw(st.integers(0, 5)), "names": draw(st.sampled_from([["x", "y", "z", "t"], ["ab", "a", "b", "abc"]]))})
    return {
        "n": n, "m": m, "A": draw(_mat(m, n, c3)), "b": draw(_lst(c3, m)), "b_number": draw(st.booleans()),
        "sparse": draw(st.booleans()), "ops": ops, "points": draw(_points(5)),
    }


@st.composite
def quadratic_cases(draw):
    """An MDOQuadraticFunction whose public coefficient attributes are reassigned after construction."""
    n = draw(st.integers(1, 3))
    c3 = st.integers(-3, 3)
    ops = []
    for _ in range(draw(st.integers(1, 3))):
        if draw(st.booleans()):
            ops.append({"op": "set_quad", "Q": draw(_mat(n, n, st.integers(-2, 2)))})
        else:
            ops.append({"op": "set_linear", "b": draw(_lst(c3, n))})
    return {
        "n": n, "Q": draw(_mat(n, n, st.integers(-2, 2))), "b": draw(st.one_of(st.none(), _lst(c3, n))), "c": draw(c3), "ops": ops,
        "wrap": draw(st.sampled_from(["none", "plus", "times", "neg", "over"])), "other": draw(leaves(1, n, positive=True, flat=True)),
        "points": draw(_points(n)),
    }


AGG_METHODS = ["max", "lower_ks", "upper_ks", "iks", "sum_sq", "pos_sum_sq"]


@st.composite
def _agg_options(draw, m):
    idx = draw(st.permutations(list(range(m))))[: draw(st.integers(1, m))] if draw(st.booleans()) else None
    k = m if idx is None else len(idx)
    sc = st.sampled_from([0.5, 1.0, 2.0, 3.0])
    scale = draw(st.one_of(st.just(1.0), sc, _lst(sc, k)))
    return {"method": draw(st.sampled_from(AGG_METHODS)), "indices": idx, "index_array": draw(st.booleans()), "scale": scale,
            "rho": draw(st.sampled_from([0.5, 1.0, 5.0, 10.0, 50.0, 100.0, 300.0]))}


@st.composite
def aggregation_cases(draw):
    n = draw(st.integers(1, 3))
    m = draw(st.sampled_from([2, 3, 4, n] if n >= 2 else [2, 3, 4]))
    p = {"n": n, "m": m, "tree": draw(trees(m, n, draw(st.integers(0, 2)), False)), "points": draw(_points(n))}
    p.update(draw(_agg_options(m)))
    return p


@st.composite
def discipline_cases(draw):
    m = draw(st.integers(1, 5))
    p = {"m": m, "values": draw(_lst(st.integers(-8, 8), m)), "tie": draw(st.booleans())}
    p.update(draw(_agg_options(m)))
    return p


# =========================================================================== harness reference
class Mag:
    """Largest magnitude met by the reference (scale of the comparison tolerance)."""

    def __init__(self):
        self.v = 1.0

    def see(self, *arrays):
        for a in arrays:
            a = np.asarray(a)
            if a.dtype != object and a.size:
                self.v = max(self.v, float(np.max(np.abs(a))))


def _arr(items, like):
    """1-D / 2-D array from python lists with the dtype family of ``like`` (float, complex or object)."""
    if like.dtype == object:
        out = np.empty(np.shape(items), dtype=object)
        out[...] = items
        return out
    return np.array(items, dtype=complex if np.iscomplexobj(like) else float)


def poly_eval(spec, x):
    """Value (m,) and Jacobian (m,n) of a polynomial leaf with plain python arithmetic."""
    n, m, k = len(x), spec["m"], spec["k"]
    vals, jac = [], []
    if k == "lin":
        for i in range(m):
            vals.append(spec["b"][i] + sum(spec["A"][i][j] * x[j] for j in range(n)))
            jac.append([spec["A"][i][j] for j in range(n)])
    elif k == "quad":
        q, b = spec["Q"], spec["b"] or [0] * n
        vals.append(spec["c"] + sum(b[j] * x[j] for j in range(n)) + sum(q[i][j] * x[i] * x[j] for i in range(n) for j in range(n)))
        jac.append([b[j] + sum((q[i][j] + q[j][i]) * x[i] for i in range(n)) for j in range(n)])
    elif k == "pos":
        for i in range(m):
            vals.append(spec["c"][i] + sum(spec["d"][i][j] * x[j] * x[j] for j in range(n)))
            jac.append([2 * spec["d"][i][j] * x[j] for j in range(n)])
    else:
        for i in range(m):
            a = spec["A"][i] if spec["A"] is not None else None
            v = spec["c"][i] + sum(spec["B"][i][j] * x[j] for j in range(n))
            row = [spec["B"][i][j] for j in range(n)]
            if a is not None:
                v = v + sum(a[p][q] * x[p] * x[q] for p in range(n) for q in range(n))
                row = [row[j] + sum((a[p][j] + a[j][p]) * x[p] for p in range(n)) for j in range(n)]
            vals.append(v)
            jac.append(row)
    return _arr(vals, x), _arr(jac, x)


def is_func(node) -> bool:
    return node["k"] not in ("num", "arr")


def dim_of(node) -> int:
    if "m" in node:
        return node["m"]
    if node["k"] == "op" and is_func(node["b"]):
        return max(dim_of(node["a"]), dim_of(node["b"]))  # numpy broadcasting of a scalar-valued operand
    return dim_of(node["a"])


def scalar_first_vector_second(node) -> bool:
    return any(nd["k"] == "op" and is_func(nd["b"]) and dim_of(nd["a"]) < dim_of(nd["b"]) for nd in walk(node))


def depth_of(node) -> int:
    if node["k"] in ("poly", "pos", "lin", "quad", "num", "arr"):
        return 0
    if node["k"] == "op":
        return 1 + max(depth_of(node["a"]), depth_of(node["b"]))
    return 1 + depth_of(node["a"])


def walk(node):
    yield node
    if node["k"] == "op":
        yield from walk(node["a"])
        yield from walk(node["b"])
    elif node["k"] in ("neg", "offset"):
        yield from walk(node["a"])


def in_p7(node) -> bool:
    """Product/quotient of two functions whose first operand is vector-valued."""
    return any(nd["k"] == "op" and nd["op"] in "*/" and is_func(nd["b"]) and dim_of(nd["a"]) >= 2 for nd in walk(node))


def vector_under_product(node) -> bool:
    return any(
        nd["k"] == "op" and nd["op"] in "*/" and (dim_of(nd["a"]) >= 2 or (is_func(nd["b"]) and dim_of(nd["b"]) >= 2))
        for nd in walk(node)
    )


def ref_eval(node, x, mag: Mag):
    """Forward-mode reference: (value (m,), Jacobian (m,n)) of a tree at x (float, complex or sympy)."""
    k = node["k"]
    if k in ("poly", "pos", "lin", "quad"):
        v, j = poly_eval(node, x)
    elif k == "neg":
        va, ja = ref_eval(node["a"], x, mag)
        v, j = -va, -ja
    elif k == "offset":
        va, ja = ref_eval(node["a"], x, mag)
        v, j = va + np.asarray(node["v"], dtype=float), ja
    else:
        va, ja = ref_eval(node["a"], x, mag)
        b, op = node["b"], node["op"]
        if is_func(b):
            vb, jb = ref_eval(b, x, mag)
        else:
            vb = np.asarray(b["v"], dtype=float).reshape(-1)
            jb = np.zeros((vb.size, len(x)))
        ca, cb = va.reshape(-1, 1), vb.reshape(-1, 1)  # columns: every row of a Jacobian is scaled by its own component
        if op == "+":
            v, j = va + vb, ja + jb
        elif op == "-":
            v, j = va - vb, ja - jb
        elif op == "*":
            v, j = va * vb, ja * cb + jb * ca
            mag.see(ja * cb, jb * ca)
        else:
            v, j = va / vb, (ja * cb - jb * ca) / (cb * cb)
            mag.see(ja * cb, jb * ca)
    mag.see(v, j)
    return v, j


# =========================================================================== building the real functions
class Env:
    """Counters and the log of every array a harness leaf has returned (array, copy at return time)."""

    def __init__(self):
        self.returned = []
        self.subs = []  # (node, MDOFunction) for every function node of the tree
        self.count = 0

    def log(self, out):
        if isinstance(out, np.ndarray) and out.dtype != object:
            self.returned.append((out, out.copy()))
        return out

    def unmodified(self) -> bool:
        return all(a.shape == c.shape and np.array_equal(a, c) for a, c in self.returned)


def _as_double(x):
    """The harness leaves compute in double precision whatever real dtype (int64, float32) they are given."""
    return x.astype(float) if x.dtype.kind in "iuf" and x.dtype != np.float64 else x


def build(node, n: int, env: Env):
    from gemseo.core.mdo_functions.mdo_function import MDOFunction
    from gemseo.core.mdo_functions.mdo_linear_function import MDOLinearFunction
    from gemseo.core.mdo_functions.mdo_quadratic_function import MDOQuadraticFunction

    k = node["k"]
    env.count += 1
    name = f"f{env.count}"
    if k in ("poly", "pos"):
        scalar = node["form"] == "float1d"

        def func(x, node=node, scalar=scalar):
            v, _ = poly_eval(node, _as_double(x))
            return env.log(v[0] if scalar else v)

        def jac(x, node=node, scalar=scalar):
            _, j = poly_eval(node, _as_double(x))
            return env.log(j[0] if scalar else j)

        f = MDOFunction(func, name, jac=jac, dim=node["m"])
    elif k == "lin":
        b = float(node["b"][0]) if node["b_number"] else np.array(node["b"], dtype=float)
        f = MDOLinearFunction(np.array(node["A"], dtype=float), name, value_at_zero=b)
    elif k == "quad":
        lin = None if node["b"] is None else np.array(node["b"], dtype=float)
        f = MDOQuadraticFunction(np.array(node["Q"], dtype=float), name, linear_coeffs=lin, value_at_zero=float(node["c"]))
    elif k == "neg":
        f = -build(node["a"], n, env)
    elif k == "offset":
        v = node["v"]
        f = build(node["a"], n, env).offset(np.array(v, dtype=float) if isinstance(v, list) else v)
    else:
        a = build(node["a"], n, env)
        b = node["b"]
        if is_func(b):
            other = build(b, n, env)
        elif b["k"] == "num":
            other = b["v"]
        else:
            other = np.array(b["v"], dtype=float)
        op = node["op"]
        f = a + other if op == "+" else a - other if op == "-" else a * other if op == "*" else a / other
    env.subs.append((node, f))
    return f


def leaf_state(env: Env):
    """Coefficient arrays held by the linear / quadratic leaves (must never change)."""
    out = []
    for node, f in env.subs:
        if node["k"] == "lin":
            out.append((f.coefficients, f.value_at_zero))
        elif node["k"] == "quad":
            out.append((f.quad_coeffs, f.linear_coeffs))
    return out


def snapshot(state):
    return [tuple(np.array(a, copy=True) for a in item) for item in state]


def same_state(state, snap) -> bool:
    return all(np.array_equal(a, c) for item, citem in zip(state, snap) for a, c in zip(item, citem))


# =========================================================================== comparisons
def norm_val(v, m):
    """Value of a function of dimension m as an (m,) array; None when the shape is not acceptable."""
    a = np.asarray(v)
    if a.shape == (m,) or (m == 1 and a.shape == ()):
        return a.reshape(m)
    return None


def norm_jac(j, m, n):
    if hasattr(j, "toarray"):
        j = j.toarray()
    a = np.asarray(j)
    if a.shape == (m, n) or (m == 1 and a.shape == (n,)):
        return a.reshape(m, n)
    return None


def close(a, b, tol) -> bool:
    a, b = np.asarray(a, dtype=complex), np.asarray(b, dtype=complex)
    return a.shape == b.shape and bool(np.all(np.isfinite(a))) and bool(np.all(np.abs(a - b) <= tol))


def check_value(ctx, sub, f, x, m, ref_v, tol, what):
    got = norm_val(f.evaluate(x), m)
    ctx.check(got is not None, sub, f"{what}: value has shape {np.shape(f.evaluate(x))}, expected ({m},)")
    ctx.check(close(got, ref_v, tol), sub, f"{what}: value {got!r} differs from the reference {ref_v!r}", x=x)
    return got


def check_jac(ctx, sub, f, x, m, n, ref_j, tol, what):
    raw = f.jac(x)
    got = norm_jac(raw, m, n)
    ctx.check(got is not None, sub, f"{what}: Jacobian has shape {np.shape(raw)}, expected ({m},{n})", x=x)
    ctx.check(close(got, ref_j, tol), sub, f"{what}: Jacobian {got!r} differs from the exact derivative {ref_j!r}", x=x)
    return got


def grid(pt):
    return np.array(pt, dtype=float) / 4.0


def typed_point(pt, p):
    """(array given to GEMSEO, the same point in float64 for the reference); int64 points are the drawn integers."""
    kind = p.get("xdtype", "float64")
    if kind == "int64":
        x = np.array(pt, dtype=np.int64)
    elif kind == "float32":
        x = grid(pt).astype(np.float32)  # quarters are exact in single precision
    else:
        x = grid(pt)
    return x, x.astype(float)


def operands_snapshot(env, x, with_jac):
    """Values (and Jacobians) of every sub-function of the tree at x."""
    out = []
    for _, f in env.subs:
        v = np.array(f.evaluate(x), copy=True)
        j = None
        if with_jac:
            j = f.jac(x)
            j = j.toarray() if hasattr(j, "toarray") else np.array(j, copy=True)
        out.append((v, j))
    return out


def same_snapshots(a, b) -> bool:
    for (va, ja), (vb, jb) in zip(a, b):
        if va.shape != vb.shape or not np.array_equal(va, vb):
            return False
        if ja is not None and (ja.shape != jb.shape or not np.array_equal(ja, jb)):
            return False
    return True


# =========================================================================== oracle: algebra (numeric)
def case_algebra(p, ctx):
    n, m, tree = p["n"], p["m"], p["tree"]
    env = Env()
    root = build(tree, n, env)
    p7 = in_p7(tree)
    jac_ok = not (p7 and ctx.known(K_P7))
    state = leaf_state(env)
    snap = snapshot(state)
    sfirst = scalar_first_vector_second(tree)
    if not sfirst:  # the operators declare the dimension of their first operand
        ctx.check(root.dim == m, "declared_dim", f"declared dim {root.dim}, the tree has dimension {m}")
    ctx.cls("points_" + p.get("xdtype", "float64"))
    for pt in p["points"]:
        x, x_ref = typed_point(pt, p)
        x_copy = x.copy()
        mag = Mag()
        ref_v, ref_j = ref_eval(tree, x_ref, mag)
        tol = TOL * mag.v
        before = operands_snapshot(env, x, jac_ok)
        check_value(ctx, "value", root, x, m, ref_v, tol, "composed function")
        if jac_ok:
            check_jac(ctx, "jacobian", root, x, m, n, ref_j, tol, "composed function")
        after = operands_snapshot(env, x, jac_ok)
        ctx.check(same_snapshots(before, after), "operands_unmodified", "an operand evaluates differently after the composed function was used", x=x)
        ctx.check(np.array_equal(x, x_copy), "operands_unmodified", "the input vector was modified")
    ctx.check(env.unmodified(), "operands_unmodified", "an array returned by an operand was modified in place")
    ctx.check(same_state(state, snap), "operands_unmodified", "coefficients of a linear/quadratic operand were modified")
    # classification
    d = depth_of(tree)
    ctx.cls(f"depth_{d}", f"dim_{m}")
    if m == n and m >= 2:
        ctx.cls("dim_out_equals_dim_in>=2")
    if p7:
        ctx.cls("vector_function_times_or_over_function")
    if sfirst:
        ctx.cls("scalar_first_vector_second")
        if any(nd["k"] == "op" and nd["op"] in "*/" and is_func(nd["b"]) and dim_of(nd["a"]) < dim_of(nd["b"]) for nd in walk(tree)):
            ctx.cls("scalar_function_times_or_over_vector_function_dim_in_" + ("equal" if m == n else "differs"))
    if any(nd["k"] == "op" and nd["op"] in "*/" and is_func(nd["b"]) and dim_of(nd["a"]) == 1 for nd in walk(tree)) and jac_ok:
        ctx.cls("scalar_function_product_or_quotient_checked")
    for nd in walk(tree):
        if nd["k"] == "op":
            ctx.cls("op_" + nd["op"] + "_" + ("func" if is_func(nd["b"]) else nd["b"]["k"]))
        elif nd["k"] in ("neg", "offset", "lin", "quad"):
            ctx.cls("node_" + nd["k"])
    if d >= 2 and vector_under_product(tree) and jac_ok:
        ctx.nontriv(("algebra", p))
        ctx.cls("nontrivial")
    ctx.sample({"oracle": "algebra", "case": p})


# =========================================================================== oracle: algebra (symbolic)
def sym_equal(a, b, syms, rtol=1e-9) -> bool:
    """a == b as rational functions (cross-multiplied numerators, coefficient-wise within rtol)."""
    import sympy

    na, da = sympy.fraction(sympy.together(sympy.sympify(a)))
    nb, db = sympy.fraction(sympy.together(sympy.sympify(b)))
    left = sympy.Poly(sympy.expand(na * db), *syms)
    right = sympy.Poly(sympy.expand(nb * da), *syms)
    scale = max([1.0] + [abs(float(c)) for c in left.coeffs()] + [abs(float(c)) for c in right.coeffs()])
    return all(abs(float(c)) <= rtol * scale for c in (left - right).coeffs())


def case_symbolic(p, ctx):
    import sympy

    n, m, tree = p["n"], p["m"], p["tree"]
    env = Env()
    root = build(tree, n, env)
    syms = sympy.symbols(f"x0:{n}", real=True)
    x = np.empty(n, dtype=object)
    x[:] = syms
    ref_v, ref_j = ref_eval(tree, x, Mag())
    raw = root.evaluate(x)
    got = norm_val(raw, m)
    ctx.check(got is not None, "symbolic_value", f"value has shape {np.shape(raw)}, expected ({m},)")
    for i in range(m):
        ctx.check(sym_equal(got[i], ref_v[i], syms), "symbolic_value", f"component {i}: {got[i]} is not identically {ref_v[i]}")
    p7 = in_p7(tree)
    if not (p7 and ctx.known(K_P7)):
        raw = root.jac(x)
        gj = norm_jac(raw, m, n)
        ctx.check(gj is not None, "symbolic_jacobian", f"Jacobian has shape {np.shape(raw)}, expected ({m},{n})")
        for i in range(m):
            for j in range(n):
                ctx.check(sym_equal(gj[i, j], ref_j[i, j], syms), "symbolic_jacobian",
                          f"entry ({i},{j}): {gj[i, j]} is not identically the derivative {ref_j[i, j]}")
        if depth_of(tree) >= 2 and vector_under_product(tree):
            ctx.nontriv(("symbolic", p))
            ctx.cls("symbolic_nontrivial")
    ctx.cls(f"symbolic_depth_{depth_of(tree)}")


# =========================================================================== oracle: helpers
def case_helpers(p, ctx):
    kind, n, m, tree = p["helper"], p["n"], p["m"], p["tree"]
    env = Env()
    f = build(tree, n, env)
    p7 = in_p7(tree) or any(in_p7(t) for t in p.get("others", []))
    jac_ok = not (p7 and ctx.known(K_P7))
    state = leaf_state(env)
    snap = snapshot(state)
    full = jac_ok
    ctx.cls("helper_" + kind, "helper_points_" + p.get("xdtype", "float64"))

    def ref_at(x, node=tree):
        mag = Mag()
        v, j = ref_eval(node, x, mag)
        return v, j, mag.v

    if kind == "restrict":
        from gemseo.core.mdo_functions.function_restriction import FunctionRestriction

        frozen = np.array(p["frozen"], dtype=int)
        values = grid(p["values"]) + (0.1 if p.get("tenth") else 0.0)
        active = [i for i in range(n) if i not in p["frozen"]]
        g = FunctionRestriction(frozen, values, n, f, name="r")
        ctx.check(g.dim == m, "restriction", f"declared dim {g.dim}, expected {m}")
        for pt in p["points"]:
            xs_typed, xs = typed_point(pt, p)
            x = np.empty(n)
            x[active] = xs
            x[frozen] = values
            v, j, s = ref_at(x)
            check_value(ctx, "restriction", g, xs_typed, m, v, TOL * s, "FunctionRestriction")
            if jac_ok:
                check_jac(ctx, "restriction", g, xs_typed, m, len(active), j[:, active], TOL * s, "FunctionRestriction")
        ctx.check(np.array_equal(values, grid(p["values"]) + (0.1 if p.get("tenth") else 0.0)), "operands_unmodified", "the frozen values were modified")
    elif kind == "lincomp":
        from gemseo.core.mdo_functions.linear_composite_function import LinearCompositeFunction

        a = np.array(p["matrix"], dtype=float)
        g = LinearCompositeFunction(f, a)
        n_in = a.shape[1]
        two_d = None
        for pt in p["points"]:
            xs_typed, xs = typed_point(pt, p)
            v, j, s = ref_at(a @ xs)
            s = max(s, float(np.max(np.abs(j @ a))) if j.size else 1.0)
            check_value(ctx, "linear_composite", g, xs_typed, m, v, TOL * s, "LinearCompositeFunction")
            if jac_ok:
                if two_d is None:
                    two_d = np.ndim(f.jac(a @ xs)) == 2
                    if two_d:
                        ctx.cls("lincomp_operand_with_2d_jacobian")
                        if ctx.known(K_LINCOMP):
                            jac_ok = full = False
                            continue
                check_jac(ctx, "linear_composite", g, xs_typed, m, n_in, j @ a, TOL * s, "LinearCompositeFunction")
    elif kind == "concat":
        from gemseo.core.mdo_functions.concatenate import Concatenate

        nodes = list(p["others"])
        nodes.insert(p["position"] % (len(nodes) + 1), tree)
        funcs = [f if nd is tree else build(nd, n, env) for nd in nodes]
        state = leaf_state(env)
        snap = snapshot(state)
        g = Concatenate(funcs, "cat")
        mt = sum(dim_of(nd) for nd in nodes)
        ctx.check(g.dim == mt, "concatenate", f"declared dim {g.dim}, expected {mt}")
        for pt in p["points"]:
            x_typed, x = typed_point(pt, p)
            parts = [ref_at(x, nd) for nd in nodes]
            s = max(q[2] for q in parts)
            check_value(ctx, "concatenate", g, x_typed, mt, np.concatenate([q[0] for q in parts]), TOL * s, "Concatenate")
            if jac_ok:
                check_jac(ctx, "concatenate", g, x_typed, mt, n, np.vstack([q[1] for q in parts]), TOL * s, "Concatenate")
        m = mt
    elif kind == "taylor1":
        from gemseo.core.mdo_functions.taylor_polynomials import compute_linear_approximation

        if not jac_ok:
            ctx.cls("helper_skipped_known_p7")
            return
        x0 = grid(p["x0"])
        v0, j0, s0 = ref_at(x0)
        g = compute_linear_approximation(f, x0)
        check_value(ctx, "taylor1_at_point", g, x0, m, v0, TOL * s0 * (1 + float(np.max(np.abs(x0)))), "first-order Taylor polynomial at the expansion point")
        check_jac(ctx, "taylor1_at_point", g, x0, m, n, j0, TOL * s0, "first-order Taylor polynomial at the expansion point")
        degree = tree_degree(tree)
        for pt in p["points"]:
            x_typed, x = typed_point(pt, p)
            s = s0 * (1 + float(np.max(np.abs(x))) + float(np.max(np.abs(x0)))) * n
            check_value(ctx, "taylor1_formula", g, x_typed, m, v0 + j0 @ (x - x0), TOL * s, "first-order Taylor polynomial")
            check_jac(ctx, "taylor1_formula", g, x_typed, m, n, j0, TOL * s0, "first-order Taylor polynomial")
            if degree is not None and degree <= 1:
                v, j, s1 = ref_at(x)
                check_value(ctx, "taylor1_exact_on_linear", g, x_typed, m, v, TOL * max(s, s1), "first-order Taylor polynomial of a linear function")
        if degree is not None and degree <= 1:
            ctx.cls("taylor1_linear_operand")
    elif kind == "taylor2":
        from gemseo.core.mdo_functions.taylor_polynomials import compute_quadratic_approximation

        if not jac_ok:
            ctx.cls("helper_skipped_known_p7")
            return
        x0 = grid(p["x0"])
        if np.ndim(f.jac(x0)) != 1 or isinstance(f.evaluate(x0), np.ndarray):
            ctx.cls("taylor2_skipped_not_float_and_1d_gradient")
            return
        hess = np.array(p["H"], dtype=float)
        exact_h = leaf_hessian(tree)
        if exact_h is not None and p.get("exact"):
            hess = exact_h  # exact Hessian of a quadratic leaf: the expansion must reproduce the operand
            ctx.cls("taylor2_exact_hessian")
        else:
            exact_h = None
        v0, j0, s0 = ref_at(x0)
        g = compute_quadratic_approximation(f, x0, hess)
        for x_typed, x in [(x0, x0)] + [typed_point(pt, p) for pt in p["points"]]:
            dx = x - x0
            r = 1 + float(np.max(np.abs(x))) + float(np.max(np.abs(x0)))
            s = (s0 + float(np.max(np.abs(hess))) + 1) * r * r * n * n
            check_value(ctx, "taylor2_formula", g, x_typed, 1, v0 + j0 @ dx + 0.5 * dx @ hess @ dx, TOL * s, "second-order Taylor polynomial")
            check_jac(ctx, "taylor2_formula", g, x_typed, 1, n, j0 + (hess @ dx).reshape(1, -1), TOL * s, "second-order Taylor polynomial")
            if exact_h is not None:
                v, j, _ = ref_at(x)
                check_value(ctx, "taylor2_exact_on_quadratic", g, x_typed, 1, v, TOL * s, "second-order Taylor polynomial of a quadratic function")
                check_jac(ctx, "taylor2_exact_on_quadratic", g, x_typed, 1, n, j, TOL * s, "second-order Taylor polynomial of a quadratic function")
    else:
        # ConvexLinearApprox.jac writes into the array returned by the operand's jac
        known_inplace = ctx.known(K_CONVEX_INPLACE)
        if known_inplace and any(nd["k"] == "lin" for nd in walk(tree)):
            ctx.cls("convex_skipped_known_inplace_linear_operand")
            return
        full = convex_linear(p, ctx, f, tree, env, jac_ok)
        if full is None:
            return
        if known_inplace:
            env.returned.clear()
    ctx.check(env.unmodified(), "operands_unmodified", f"{kind}: an array returned by an operand was modified in place")
    ctx.check(same_state(state, snap), "operands_unmodified", f"{kind}: coefficients of a linear/quadratic operand were modified")
    if full and m >= 2:
        ctx.nontriv(("helper", p))
        ctx.cls("helper_nontrivial_" + kind)
    ctx.sample({"oracle": "helpers", "case": p})


def tree_degree(node):
    """Polynomial degree of a tree, None when it contains a quotient by a function."""
    k = node["k"]
    if k == "lin":
        return 1
    if k in ("quad", "pos"):
        return 2
    if k == "poly":
        return 2 if node["A"] is not None else 1
    if k in ("neg", "offset"):
        return tree_degree(node["a"])
    da = tree_degree(node["a"])
    b = node["b"]
    if not is_func(b):
        return da
    db = tree_degree(b)
    if da is None or db is None or node["op"] == "/":
        return None
    return da + db if node["op"] == "*" else max(da, db)


def leaf_hessian(node):
    if node["k"] == "quad":
        q = np.array(node["Q"], dtype=float)
        return q + q.T
    if node["k"] == "poly" and node["m"] == 1 and node["A"] is not None:
        q = np.array(node["A"][0], dtype=float)
        return q + q.T
    return None


def convex_linear(p, ctx, f, tree, env, jac_ok):
    """ConvexLinearApprox: agreement with the operand at the expansion point, exactness of the
    Jacobian w.r.t. the evaluated function, and the plain linearisation when no partial is negative."""
    from gemseo.core.mdo_functions.convex_linear_approx import ConvexLinearApprox

    n, m = p["n"], p["m"]
    if not jac_ok:
        ctx.cls("helper_skipped_known_p7")
        return None
    x0 = grid(p["x0"])
    mask = np.ones(n, dtype=bool) if p["mask"] is None else np.array(p["mask"], dtype=bool)
    mag = Mag()
    v0, j0 = ref_eval(tree, x0, mag)
    s0 = mag.v
    sel = j0[:, mask]
    if np.any((np.abs(sel) > 0) & (np.abs(sel) < 1e-6)):
        ctx.cls("convex_skipped_partial_near_sign_threshold")
        return None
    negative = bool(np.any(sel < 0))
    if negative and np.any(x0[mask][np.any(sel < 0, axis=0)] == 0.0):
        # the reciprocal variable 1/x of a convex linearisation is undefined at a zero reference value
        ctx.cls("convex_skipped_negative_partial_at_zero_reference")
        return None
    g = ConvexLinearApprox(x0, f, None if p["mask"] is None else mask)
    check_value(ctx, "convex_at_point", g, x0, m, v0, TOL * s0, "convex linearisation at the expansion point")
    full = True
    if negative:
        ctx.cls("convex_negative_partial")
    if negative and ctx.known(K_CONVEX):
        full = False
    else:
        check_jac(ctx, "convex_at_point", g, x0, m, n, j0, TOL * s0, "convex linearisation at the expansion point")
    for pt in p["points"]:
        x_typed, x = typed_point(pt, p)
        merged = np.where(mask, x0, x)
        mag = Mag()
        vm, jm = ref_eval(tree, merged, mag)
        s = max(s0, mag.v) * (1 + float(np.max(np.abs(x))) + float(np.max(np.abs(x0)))) * n
        if not negative:
            step = (x - x0)[mask]
            ref_j = jm.copy()
            ref_j[:, mask] = sel
            check_value(ctx, "convex_formula", g, x_typed, m, vm + sel @ step, TOL * s, "convex linearisation without negative partial derivative")
            check_jac(ctx, "convex_formula", g, x_typed, m, n, ref_j, TOL * s, "convex linearisation without negative partial derivative")
        elif np.all(np.abs((x - x0)[mask]) >= 0.25) and np.all(np.abs(x[mask]) >= 0.25):
            # the Jacobian must be the derivative of what the function evaluates (complex step through
            # the function itself; exact to rounding on rational functions)
            raw = g.jac(x_typed)
            gj = norm_jac(raw, m, n)
            ctx.check(gj is not None, "convex_self_consistent", f"Jacobian has shape {np.shape(raw)}, expected ({m},{n})")
            big = float(np.max(np.abs(gj))) if gj.size else 1.0
            for i in range(n):
                xc = x.astype(complex)
                xc[i] += 1e-30j
                col = np.imag(np.asarray(g.evaluate(xc)).reshape(m)) / 1e-30
                ctx.check(close(gj[:, i], col, 1e-9 * max(s, big)), "convex_self_consistent",
                          f"column {i} of the Jacobian {gj[:, i]!r} is not the derivative {col!r} of the evaluated function", x=x)
    return full


# =========================================================================== oracle: linear function helpers
def case_linear(p, ctx):
    from gemseo.algos.design_space import DesignSpace
    from gemseo.core.mdo_functions.mdo_linear_function import MDOLinearFunction
    from scipy.sparse import csr_array

    warnings.filterwarnings("ignore", message="invalid value encountered in remainder")  # gemseo: mod(inf, 1) on infinite bounds
    n, m = p["n"], p["m"]
    a = np.array(p["A"], dtype=float)
    b = np.array(p["b"], dtype=float)
    if p["b_number"]:
        b = np.full(m, b[0])
    coeffs = csr_array(a) if p["sparse"] else a.copy()
    f = MDOLinearFunction(coeffs, "f", value_at_zero=float(b[0]) if p["b_number"] else b.copy())
    first = f
    classes = []
    for op in p["ops"]:
        kind = op["op"]
        before_a = f.coefficients.toarray() if hasattr(f.coefficients, "toarray") else f.coefficients.copy()
        before_b = f.value_at_zero.copy()
        prev = f
        if kind == "set_coefficients":
            a = np.array(op["A"], dtype=float)[:, : a.shape[1]]
            f.coefficients = csr_array(a) if p["sparse"] else a.copy()
            before_a = a.copy()
        elif kind == "set_value_at_zero":
            b = np.full(m, float(op["b"][0])) if op["number"] else np.array(op["b"], dtype=float)
            f.value_at_zero = float(op["b"][0]) if op["number"] else b.copy()
            before_b = b.copy()
        elif kind == "neg":
            f = -f
            a, b = -a, -b
        elif kind == "offset":
            v = np.array(op["v"], dtype=float) if isinstance(op["v"], list) else op["v"]
            f = f.offset(v)
            b = b + v
        elif kind == "restrict":
            n_cur = a.shape[1]
            idx = []
            for i in op["idx"]:
                if i % n_cur not in idx and len(idx) < n_cur - 1:
                    idx.append(i % n_cur)
            if not idx:
                continue
            vals = grid(op["vals"][: len(idx)])
            f = f.restrict(np.array(idx, dtype=int), vals)
            active = [i for i in range(n_cur) if i not in idx]
            # the restriction is the original function on the slice: frozen values in the caller's order
            for pt in p["points"]:
                x_full = np.empty(n_cur)
                x_full[active] = grid(pt)[: len(active)]
                x_full[idx] = vals
                s_full = float(max(1.0, np.max(np.abs(a)), np.max(np.abs(b)))) * 4 * n_cur
                whole = norm_val(prev.evaluate(x_full), m)
                part = norm_val(f.evaluate(x_full[active]), m)
                ctx.check(whole is not None and part is not None and close(part, whole, TOL * s_full), "linear_restrict",
                          f"restrict(frozen_indexes={idx}, frozen_values={vals!r}) evaluates to {part!r}, the original function on the slice to {whole!r}")
            if len(idx) >= 2 and idx != sorted(idx):
                classes.append("linear_restrict_unsorted_frozen_indexes")
            b = b + a[:, idx] @ vals
            a = a[:, active]
        else:
            n_cur = a.shape[1]
            space = DesignSpace()
            lbs, ubs, k, v = [], [], 0, 0
            while k < n_cur:
                size = min(op["sizes"][v % 4], n_cur - k)
                is_int = op["int_var"] == v
                lb_v, ub_v = [], []
                for c in range(size):
                    comp = op["comps"][(k + c) % 4]
                    lb = -math.inf if comp["lb"] is None else float(comp["lb"]) + (0.0 if is_int else 0.5)
                    ub = math.inf if comp["ub_inf"] else (float(comp["lb"] or 0) + comp["w"] + (0.0 if is_int else 0.25))
                    lb_v.append(lb)
                    ub_v.append(ub)
                space.add_variable(op["names"][v % 4] + ("" if v < 4 else str(v)), size=size, type_="integer" if is_int else "float",
                                   lower_bound=np.array(lb_v), upper_bound=np.array(ub_v))
                normalised = [not is_int and math.isfinite(lo) and math.isfinite(up) for lo, up in zip(lb_v, ub_v)]
                lbs += [lo if nz else 0.0 for lo, nz in zip(lb_v, normalised)]
                ubs += [up - lo if nz else 1.0 for lo, up, nz in zip(lb_v, ub_v, normalised)]
                k += size
                v += 1
            shift, factor = np.array(lbs), np.array(ubs)
            f = f.normalize(space)
            ctx.check(f.expects_normalized_inputs, "linear_normalize", "the normalised function does not expect normalised inputs")
            b = b + a @ shift
            a = a * factor
            if np.any(shift != 0):
                classes.append("normalize_with_shift")
        classes.append("linear_" + kind)
        # the operand keeps its coefficients
        after_a = prev.coefficients.toarray() if hasattr(prev.coefficients, "toarray") else prev.coefficients
        ctx.check(np.array_equal(after_a, before_a) and np.array_equal(prev.value_at_zero, before_b), "operands_unmodified",
                  f"{kind} modified the coefficients of the function it was applied to")
        n_cur = a.shape[1]
        ctx.check(f.coefficients.shape == (m, n_cur), "linear_" + kind, f"coefficients have shape {f.coefficients.shape}, expected {(m, n_cur)}")
        s = float(max(1.0, np.max(np.abs(a)) if a.size else 1.0, np.max(np.abs(b)))) * 4 * n_cur
        for pt in p["points"]:
            x = grid(pt)[:n_cur]
            check_value(ctx, "linear_" + kind, f, x, m, a @ x + b, TOL * s, f"MDOLinearFunction after {kind}")
            check_jac(ctx, "linear_" + kind, f, x, m, n_cur, a, TOL * s, f"MDOLinearFunction after {kind}")
    ctx.cls(*classes)
    ctx.cls("linear_sparse" if p["sparse"] else "linear_dense")
    if m >= 2 and len(classes) >= 2 and first is not f:
        ctx.nontriv(("linear", p))
    ctx.sample({"oracle": "linear", "case": p})


# =========================================================================== oracle: reassigned quadratic coefficients
def case_quadratic(p, ctx):
    """quad_coeffs and linear_coeffs have public setters: after a reassignment value and gradient follow the
    new coefficients; a function composed before the reassignment stays the derivative of what it evaluates."""
    n = p["n"]
    node = {"k": "quad", "m": 1, "Q": p["Q"], "b": p["b"], "c": p["c"]}
    env = Env()
    f = build(node, n, env)
    other_node = p["other"]
    wrap = p["wrap"]
    h, tree_of = None, None
    if wrap != "none":
        other = build(other_node, n, env)
        h = {"plus": lambda: f + other, "times": lambda: f * other, "neg": lambda: -f, "over": lambda: f / other}[wrap]()

        def tree_of(q):
            if wrap == "neg":
                return {"k": "neg", "a": q}
            return {"k": "op", "op": {"plus": "+", "times": "*", "over": "/"}[wrap], "a": q, "b": other_node}

    ctx.cls("quadratic_wrap_" + wrap)
    for op in p["ops"]:
        old = dict(node)
        if op["op"] == "set_quad":
            node = dict(node, Q=op["Q"])
            f.quad_coeffs = np.array(op["Q"], dtype=float)
        else:
            node = dict(node, b=op["b"])
            f.linear_coeffs = np.array(op["b"], dtype=float)
        ctx.cls("quadratic_" + op["op"])
        for pt in p["points"]:
            x = grid(pt)
            mag = Mag()
            v, j = ref_eval(node, x, mag)
            check_value(ctx, "reassigned_coefficients", f, x, 1, v, TOL * mag.v, f"MDOQuadraticFunction after {op['op']}")
            check_jac(ctx, "reassigned_coefficients", f, x, 1, n, j, TOL * mag.v, f"MDOQuadraticFunction after {op['op']}")
            if h is not None:
                # the composed function follows either the new or the old coefficients; its Jacobian must follow the same ones
                mag_new, mag_old = Mag(), Mag()
                v_new, j_new = ref_eval(tree_of(node), x, mag_new)
                v_old, j_old = ref_eval(tree_of(old), x, mag_old)
                tol = TOL * max(mag_new.v, mag_old.v)
                got_v = norm_val(h.evaluate(x), 1)
                got_j = norm_jac(h.jac(x), 1, n)
                ctx.check(got_v is not None and got_j is not None, "reassigned_coefficients", "composed function: unexpected shapes")
                follows_new, follows_old = close(got_v, v_new, tol), close(got_v, v_old, tol)
                ctx.check(follows_new or follows_old, "reassigned_coefficients",
                          f"function composed ({wrap}) before {op['op']}: value {got_v!r} matches neither the new {v_new!r} nor the old {v_old!r} coefficients", x=x)
                ctx.check((follows_new and close(got_j, j_new, tol)) or (follows_old and close(got_j, j_old, tol)), "reassigned_coefficients",
                          f"function composed ({wrap}) before {op['op']}: Jacobian {got_j!r} is not the derivative {(j_new if follows_new else j_old)!r} of what it evaluates", x=x)
    ctx.nontriv(("quadratic", p))
    ctx.sample({"oracle": "quadratic", "case": p})


# =========================================================================== oracle: aggregations
def ref_aggregation(method, g, jac, indices, scale, rho):
    """Candidate values and, per candidate, the derivative w.r.t. the operand's outputs.

    Returns (list of (value, dvalue/dg (len(g),)), true maximum of the scaled selected components,
    margin of the maximum, magnitude).
    """
    m = g.size
    idx = list(range(m)) if indices is None else list(indices)
    sc = np.full(len(idx), float(scale)) if not isinstance(scale, list) else np.array(scale, dtype=float)
    gs = sc * g[idx]
    top = float(np.max(gs))
    order = np.sort(gs)
    margin = math.inf if gs.size == 1 else float(order[-1] - order[-2])
    cands = []

    def scatter(dsel):
        d = np.zeros(m)
        np.add.at(d, idx, dsel)
        return d

    if method == "max":
        e = np.zeros(len(idx))
        e[int(np.argmax(gs))] = 1.0
        cands.append((top, scatter(e * sc)))
    elif method in ("upper_ks", "lower_ks"):
        w = np.exp(rho * (gs - top))
        total = float(np.sum(w))
        w = w / total
        upper = top + math.log(total) / rho
        if method == "upper_ks":
            cands.append((upper, scatter(w * sc)))
        else:
            for count in {len(idx), m}:
                cands.append((upper - math.log(count) / rho, scatter(w * sc)))
    elif method == "iks":
        w = np.exp(rho * (gs - top))
        w = w / np.sum(w)
        val = float(np.sum(w * gs))
        cands.append((val, scatter(w * (1.0 + rho * (gs - val)) * sc)))
    else:
        sel = g[idx]
        gate = (sel > 0).astype(float) if method == "pos_sum_sq" else np.ones(len(idx))
        cands.append((float(np.sum(sc * sel**2 * gate)), scatter(2 * sc * sel * gate)))
        if np.any(sc != 1.0):
            cands.append((float(np.sum((sc * sel) ** 2 * gate)), scatter(2 * sc * sc * sel * gate)))
    spread = float(np.max(gs) - np.min(gs))
    return cands, top, margin, (1 + float(np.max(np.abs(gs)))) * (1 + (rho * spread if method == "iks" else 0.0))


def _indices_arg(p):
    if p["indices"] is None:
        return None
    return np.array(p["indices"], dtype=int) if p["index_array"] else list(p["indices"])


def _scale_arg(p):
    return np.array(p["scale"], dtype=float) if isinstance(p["scale"], list) else p["scale"]


def _match_candidate(ctx, sub, value, cands, tol, what):
    value = np.asarray(value)
    ctx.check(value.size == 1, sub, f"{what}: value has shape {value.shape}, expected a scalar")
    value = float(value.reshape(-1)[0])
    hits = [i for i, (v, _) in enumerate(cands) if math.isfinite(value) and abs(value - v) <= tol]
    ctx.check(bool(hits), sub, f"{what}: value {value!r} differs from the formula {[c[0] for c in cands]!r}")
    return value, hits


def case_aggregation(p, ctx):
    from gemseo.algos.aggregation import aggregation_func as af

    n, m, tree, method = p["n"], p["m"], p["tree"], p["method"]
    maker = {"max": af.aggregate_max, "lower_ks": af.aggregate_lower_bound_ks, "upper_ks": af.aggregate_upper_bound_ks,
             "iks": af.aggregate_iks, "sum_sq": af.aggregate_sum_square, "pos_sum_sq": af.aggregate_positive_sum_square}[method]
    smooth_or_max = method in ("max", "lower_ks", "upper_ks", "iks")
    scaled = p["scale"] != 1.0 if not isinstance(p["scale"], list) else any(s != 1.0 for s in p["scale"])
    inplace = smooth_or_max and p["indices"] is None and scaled
    array_scale = smooth_or_max and isinstance(p["scale"], list)
    ctx.cls("agg_" + method, "agg_indices" if p["indices"] is not None else "agg_all", "agg_array_scale" if isinstance(p["scale"], list) else "agg_scalar_scale")
    known_inplace = inplace and ctx.known(K_INPLACE)
    if known_inplace and any(nd["k"] == "lin" for nd in walk(tree)):
        ctx.cls("agg_skipped_known_inplace_linear_operand")
        return
    jac_ok = not (array_scale and ctx.known(K_AGGJAC))
    env = Env()
    f = build(tree, n, env)
    f.f_type = "eq" if method == "sum_sq" else "ineq"
    state = leaf_state(env)
    snap = snapshot(state)
    options = {"indices": _indices_arg(p), "scale": _scale_arg(p)}
    if method in ("lower_ks", "upper_ks", "iks"):
        options["rho"] = p["rho"]
    agg = maker(f, **options)
    ctx.check(agg.dim == 1, "aggregation_value", f"declared dim {agg.dim}")
    for k_pt, pt in enumerate(p["points"]):
        x = grid(pt)
        mag = Mag()
        g, jg = ref_eval(tree, x, mag)
        cands, top, margin, s = ref_aggregation(method, g, jg, p["indices"], p["scale"], p["rho"])
        want_jac = jac_ok and not (method == "max" and margin < 1e-9)
        # every other point: the Jacobian is requested BEFORE anything was evaluated at that point
        # (an aggregation must not reuse the operand's value at the previously evaluated point)
        raw_first = agg.jac(x) if (want_jac and k_pt % 2 == 1) else None
        if raw_first is not None:
            ctx.cls("aggregation_jacobian_before_value_at_a_new_point")
        before = operands_snapshot(env, x, True)
        value, hits = _match_candidate(ctx, "aggregation_value", agg.evaluate(x), cands, 1e-10 * s * s, method)
        small = 1e-12 * (1 + abs(top))
        if method == "upper_ks":
            ctx.check(value >= top - small, "aggregation_bound", f"upper-bound KS {value!r} is below the maximum {top!r}")
        elif method == "lower_ks":
            ctx.check(value <= top + small, "aggregation_bound", f"lower-bound KS {value!r} is above the maximum {top!r}")
        elif method == "iks":
            ctx.check(value <= top + small, "aggregation_bound", f"IKS {value!r} is above the maximum {top!r}")
        if want_jac:
            raw = agg.jac(x) if raw_first is None else raw_first
            gj = norm_jac(raw, 1, n)
            ctx.check(gj is not None, "aggregation_jacobian", f"{method}: Jacobian has shape {np.shape(raw)}, expected ({n},)")
            refs = [cands[i][1] @ jg for i in hits]
            tol = 1e-10 * s * s * max(1.0, mag.v) * (1 + p["rho"] if method == "iks" else 1.0)
            ctx.check(any(close(gj[0], r, tol) for r in refs), "aggregation_jacobian",
                      f"{method}: Jacobian {gj[0]!r} is not the derivative {refs[0]!r} of the aggregated value", x=x)
        after = operands_snapshot(env, x, True)
        if not known_inplace:
            ctx.check(same_snapshots(before, after), "operands_unmodified", f"{method}: the operand evaluates differently after the aggregation was used", x=x)
    if not known_inplace:
        ctx.check(env.unmodified(), "operands_unmodified", f"{method}: an array returned by the operand (its last_eval) was modified in place")
        ctx.check(same_state(state, snap), "operands_unmodified", f"{method}: coefficients of a linear operand were modified")
    if jac_ok and not known_inplace:
        ctx.nontriv(("aggregation", p))
    ctx.sample({"oracle": "aggregation", "case": p})


def case_discipline(p, ctx):
    from gemseo.disciplines.constraint_aggregation import ConstraintAggregation

    m, method = p["m"], p["method"]
    name = {"max": "MAX", "lower_ks": "lower_bound_KS", "upper_ks": "upper_bound_KS", "iks": "IKS", "sum_sq": "SUM", "pos_sum_sq": "POS_SUM"}[method]
    g = grid(p["values"])
    if p["tie"] and m >= 2:
        g[-1] = g[0]
    options = {"indices": _indices_arg(p), "scale": _scale_arg(p)}
    if method in ("lower_ks", "upper_ks", "iks"):
        options["rho"] = p["rho"]
    disc = ConstraintAggregation(["c"], name, **options)
    data = g.copy()
    out = disc.execute({"c": data})
    out_name = f"{name}_c"
    ctx.check(out_name in out, "discipline_value", f"output {out_name} is missing")
    cands, top, margin, s = ref_aggregation(method, g, None, p["indices"], p["scale"], p["rho"])
    value, hits = _match_candidate(ctx, "discipline_value", out[out_name], cands, 1e-10 * s * s, name)
    small = 1e-12 * (1 + abs(top))
    if method == "upper_ks":
        ctx.check(value >= top - small, "aggregation_bound", f"upper-bound KS {value!r} is below the maximum {top!r}")
    elif method in ("lower_ks", "iks"):
        ctx.check(value <= top + small, "aggregation_bound", f"{name} {value!r} is above the maximum {top!r}")
    ctx.check(np.array_equal(data, g), "operands_unmodified", "the input array given to the discipline was modified")
    ctx.cls("disc_" + method)
    if method == "max" and margin < 1e-9:
        ctx.cls("disc_max_tie_jacobian_not_compared")
    elif method == "max" and ctx.known(K_DISCMAX):
        pass
    else:
        jac = disc.linearize({"c": data}, compute_all_jacobians=True)
        block = np.asarray(jac[out_name]["c"])
        ctx.check(block.shape == (1, m), "discipline_jacobian", f"Jacobian block has shape {block.shape}, expected (1,{m})")
        tol = 1e-10 * s * s * (1 + p["rho"] if method == "iks" else 1.0)
        ctx.check(any(close(block[0], cands[i][1], tol) for i in hits), "discipline_jacobian",
                  f"{name}: Jacobian {block[0]!r} is not the derivative {cands[hits[0]][1]!r} of the aggregated value")
        ctx.check(np.array_equal(data, g), "operands_unmodified", "the input array given to the discipline was modified by linearize")
        if m >= 2:
            ctx.nontriv(("discipline", p))
    ctx.sample({"oracle": "discipline", "case": p})


ORACLES = {
    "algebra": case_algebra, "symbolic": case_symbolic, "helpers": case_helpers, "linear": case_linear,
    "aggregation": case_aggregation, "discipline": case_discipline, "quadratic": case_quadratic,
}


def run(ctx):
    ctx.drive("algebra", algebra_cases(), case_algebra, quick=1000, thorough=8000)
    ctx.drive("symbolic", algebra_cases(max_depth=3, max_n=2, max_m=2), case_symbolic, quick=60, thorough=300)
    ctx.drive("helpers", helper_cases(), case_helpers, quick=800, thorough=6000)
    ctx.drive("linear", linear_cases(), case_linear, quick=300, thorough=2500)
    ctx.drive("quadratic", quadratic_cases(), case_quadratic, quick=150, thorough=1500)
    ctx.drive("aggregation", aggregation_cases(), case_aggregation, quick=500, thorough=4000)
    ctx.drive("discipline", discipline_cases(), case_discipline, quick=200, thorough=2000)
