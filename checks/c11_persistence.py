"""C11 - Saved histories, design spaces, problems and caches reload identically.

Four independent oracles:
* database    - a generated history of store / export operations on a Database; after every
                export the file is read back and compared with a harness-side model, and the
                incrementally written file is compared with a single final export;
* design_space- generated design spaces through to_hdf/from_hdf, to_csv/from_csv, to_file/from_file;
* problem     - generated optimization problems (functions, options, hand-filled database, optional
                solution) through to_hdf/from_hdf;
* hdf5_cache  - an HDF5Cache filled through its cache API and re-instantiated on its file.
"""

from __future__ import annotations

import logging
import math
import os
import shutil
import tempfile
import warnings

import numpy as np
from hypothesis import strategies as st


logging.getLogger("gemseo").setLevel(logging.ERROR)
warnings.filterwarnings("ignore", category=RuntimeWarning, module=r"gemseo\..*")

PROPERTY = "C11"
LEVEL = "exploration"
RULE = (
    "database: Hypothesis draws a target (root or nested node, with or without an explicit input space, 1-3 inputs) and a "
    "history of 3-16 operations: store at a new point (float64 or int64 key), store new output names at an existing point "
    "(possibly an empty or already exported one), export with append=True/False to the one target file; values are Python "
    "floats/ints, numpy floats, size-1 arrays, vectors, matrices, lists of ints, NaN, empty dicts, gradients '@f'; after every "
    "export Database.from_hdf is compared with a harness model (keys incl. dtype and order, name sets, shapes, values exactly), "
    "at the end the incrementally written file is compared with one append=False export to a second file. "
    "design_space: 1-4 variables (multi-character names, sizes 1-3, float/integer, finite/infinite/equal bounds on several "
    "scales, missing current values) through HDF5 (root/nested node, fresh file or appended next to another node; exact), CSV "
    "(relative 1e-15) and to_file/from_file with .h5/.hdf5/.csv/.txt suffixes, optionally after to_complex() (the real part of the current "
    "value is what must come back), compared field by field with the drawn spec. "
    "problem: design space, objective (min/max), 0-2 constraints (eq/ineq, positive, offset, dim 1-2) as plain MDOFunctions or as "
    "MDOLinearFunctions with dense/sparse coefficients (saved is_linear True or False), 0-1 observable, "
    "tolerances, differentiation method/step, hand-filled database, optional solution, root/nested node; written once or with "
    "append=True after the database, the design space, both or the problem itself were written into the same file/node (optionally "
    "a point stored in between) and optionally once more under a second node of the file; every reloaded problem is compared attribute by "
    "attribute with the original. hdf5_cache: 2-10 cache_outputs/cache_jacobian operations over a pool of inputs (dense/sparse "
    "Jacobians, tolerance 0/1e-9, real or deliberately colliding 2-bucket input hash) interleaved with re-instantiations (file singleton kept or forgotten), compared with a model "
    "through len, get_all_entries and lookups. "
    "Non-trivial (database) = an append export onto a file that already holds entries, after both a new point and a new output "
    "at an already exported point; (design_space) = >=2 variables with an integer variable, an infinite bound and a missing "
    "value; (problem) = a solution plus >=1 constraint; (hdf5_cache) = a re-instantiation of a cache holding >=2 entries one of "
    "which has a Jacobian; distinct = structural hash of the drawn case."
)
ASSUMPTIONS = [
    "database keys are numerically distinct points without -0.0 (byte-hashed keys); output values already stored are never "
    "overwritten and nothing is deleted between exports (outside the property's quantifier); one target file/node per database "
    "(the pending buffer is per database, not per target)",
    "Python ints, lists of ints and numpy scalars are compared numerically after reload (HDF5 stores float64): same shape, same "
    "values, NaN equal to NaN; the container type is not compared",
    "names are ASCII without whitespace, '#', '/' (CSV is whitespace separated; HDF strings are written as ASCII)",
    "CSV values are compared with relative tolerance 1e-15 (16 significant digits are printed), structure exactly",
    "problem solutions are compared through OptimizationResult.to_dict(); a field that is None in the original may be absent "
    "after reload; single-objective problems only",
]

T_DEFAULT = (1e-4, 1e-2)  # default inequality / equality tolerances of an OptimizationProblem
KNOWN_TOL = "problem_tolerances_not_default"
KNOWN_NODE = "problem_solution_at_nested_node"
KNOWN_NAMES = "function_with_single_multichar_name"
KNOWN_COMPLEX_INT = "complex_value_of_integer_variable_in_text_export"


# =========================================================================== shared helpers
def _scratch() -> str:
    return tempfile.mkdtemp(dir=os.environ.get("VERIF_SCRATCH"))


def forget_singletons(directory: str) -> None:
    """Close and forget the HDF5 file singletons of files under directory."""
    from gemseo.caches._hdf5_file_singleton import HDF5FileSingleton

    root = os.path.realpath(directory)
    for key in list(HDF5FileSingleton.instances):
        if key[1].startswith(root):
            inst = HDF5FileSingleton.instances.pop(key)
            handle = getattr(inst, "_HDF5FileSingleton__file", None)
            if handle is not None:
                try:
                    handle.close()
                except Exception:  # noqa: BLE001
                    pass


def same_num(a, b) -> bool:
    """Same shape and same values (NaN == NaN), whatever the container type."""
    a, b = np.asarray(a, dtype=float), np.asarray(b, dtype=float)
    return a.shape == b.shape and bool(np.all((a == b) | (np.isnan(a) & np.isnan(b))))


def close16(a, b) -> bool:
    """Equal to the 16 significant digits of the text format (relative 1e-15), infinities exactly."""
    a, b = np.asarray(a, dtype=float), np.asarray(b, dtype=float)
    if a.shape != b.shape:
        return False
    for u, v in zip(a.ravel(), b.ravel()):
        if math.isinf(u) or math.isinf(v):
            if u != v:
                return False
        elif abs(u - v) > 1e-15 * max(abs(u), abs(v)):
            return False
    return True


def dense(m):
    from scipy.sparse import issparse

    return m.toarray() if issparse(m) else np.asarray(m)


# =========================================================================== database
DB_NAMES = ["f", "g", "h", "@f", "@g", "Iter", "c_1", "obj"]
DB_KINDS = ["float", "float", "npfloat", "pyint", "arr1", "vec2", "vec3", "mat", "ilist"]


def _db_value():
    k = st.one_of(st.integers(-8, 8), st.integers(-8, 8), st.integers(-8, 8), st.just("NaN"))
    return st.fixed_dictionaries({
        "name": st.integers(0, len(DB_NAMES) - 1),
        "kind": st.sampled_from(DB_KINDS),
        "third": st.booleans(),
        "v": st.lists(k, min_size=4, max_size=4),
    })


def _db_op():
    return st.fixed_dictionaries({
        "op": st.sampled_from(["new"] * 4 + ["more"] * 4 + ["export"] * 3),
        "x": st.lists(st.integers(-3, 3), min_size=3, max_size=3),
        "xint": st.sampled_from([False, False, True]),
        "pt": st.integers(0, 9),
        "outs": st.lists(_db_value(), min_size=0, max_size=3),
        "append": st.sampled_from([True, True, True, False]),
    })


def db_histories():
    return st.fixed_dictionaries({
        "cfg": st.fixed_dictionaries({
            "n_x": st.integers(1, 3), "space": st.booleans(), "node": st.sampled_from(["", "a/b"]),
            "final_append": st.sampled_from([True, True, False]),
        }),
        "ops": st.lists(_db_op(), min_size=3, max_size=16),
    })


def make_db_value(spec):
    ks = [0 if v == "NaN" else int(v) for v in spec["v"]]
    scale = (1.0 / 3.0) if spec["third"] else 0.25
    fl = [float("nan") if v == "NaN" else int(v) * scale + 0.0 for v in spec["v"]]
    kind = spec["kind"]
    if kind == "float":
        return float(fl[0])
    if kind == "npfloat":
        return np.float64(fl[0])
    if kind == "pyint":
        return int(ks[0])
    if kind == "arr1":
        return np.array(fl[:1])
    if kind == "vec2":
        return np.array(fl[:2])
    if kind == "vec3":
        return np.array(fl[:3])
    if kind == "mat":
        return np.array(fl).reshape(2, 2)
    return [int(k) for k in ks[:2]] if ks[1] % 2 else [int(ks[0])]  # ilist


def copy_value(v):
    if isinstance(v, np.ndarray):
        return v.copy()
    if isinstance(v, list):
        return list(v)
    return v


def compare_db(ctx, db, model, sub, what):
    """Reloaded database against the model: keys (values, dtype, order), names, shapes, values."""
    keys = list(db.keys())
    ctx.check(len(keys) == len(model), sub, f"{what}: {len(keys)} entries, expected {len(model)}")
    for i, (key, ref) in enumerate(zip(keys, model)):
        x = key.wrapped_array
        ctx.check(x.dtype == ref["x"].dtype and x.shape == ref["x"].shape and bool(np.array_equal(x, ref["x"])), sub,
                  f"{what}: entry {i} has key {x!r} ({x.dtype}), expected {ref['x']!r} ({ref['x'].dtype})")
        out = db[key]
        ctx.check(sorted(out) == sorted(ref["out"]), sub, f"{what}: entry {i} ({x.tolist()}) has outputs {sorted(out)}, expected {sorted(ref['out'])}")
        for name, val in ref["out"].items():
            got = out[name]
            ctx.check(same_num(got, val), sub,
                      f"{what}: entry {i} ({x.tolist()}) output {name} = {got!r}, expected {val!r} (shape {np.shape(got)} vs {np.shape(val)})")


def case_database(p, ctx):
    from gemseo.algos.database import Database
    from gemseo.algos.design_space import DesignSpace

    cfg = p["cfg"]
    n_x, node = cfg["n_x"], cfg["node"]
    case_dir = _scratch()
    try:
        path = os.path.join(case_dir, "db.h5")
        space = None
        if cfg["space"]:
            space = DesignSpace()
            space.add_variable("xv", n_x, lower_bound=-5.0, upper_bound=5.0)
        db = Database(input_space=space)
        model = []  # [{"x": array, "out": {name: value}}]
        index = {}  # numeric point -> position
        exported = 0  # number of entries in the file after the last export
        n_exports = 0
        since = {"new_point": False, "new_output_at_exported": False}
        flags = set()
        nontrivial = False
        empty_at = set()
        for op in p["ops"]:
            kind = op["op"]
            if kind == "export":
                if op["append"] and exported > 0 and since["new_point"] and since["new_output_at_exported"]:
                    nontrivial = True
                if op["append"] and n_exports:
                    flags.add("append_export_after_earlier_export")
                    if since["new_output_at_exported"]:
                        flags.add("append_export_with_new_output_at_exported_point")
                    if since["new_point"]:
                        flags.add("append_export_with_new_point")
                    if not since["new_point"] and not since["new_output_at_exported"]:
                        flags.add("append_export_with_nothing_pending")
                elif not op["append"] and n_exports:
                    flags.add("rewrite_export_after_earlier_export")
                if not model:
                    flags.add("export_of_empty_database")
                db.to_hdf(path, append=op["append"], hdf_node_path=node)
                n_exports += 1
                exported = len(model)
                since = {"new_point": False, "new_output_at_exported": False}
                reloaded = Database.from_hdf(path, hdf_node_path=node, log=False)
                compare_db(ctx, reloaded, model, "database_reload", f"after export #{n_exports} (append={op['append']})")
                continue
            pos = None
            if kind == "new" or not model:
                num = tuple(float(k) * (1.0 if op["xint"] else 0.5) for k in op["x"][:n_x])
                pos = index.get(num)
                if pos is None:
                    x = np.array([int(k) for k in op["x"][:n_x]], dtype=np.int64) if op["xint"] else np.array(num, dtype=np.float64) + 0.0
                    index[num] = len(model)
                    model.append({"x": x, "out": {}})
                    pos = len(model) - 1
                    since["new_point"] = True
                    if op["xint"]:
                        flags.add("int64_key")
                    new_point = True
                else:
                    new_point = False
            else:
                pos = op["pt"] % len(model)
                new_point = False
            entry = model[pos]
            outs = {}
            for spec in op["outs"]:
                name = DB_NAMES[spec["name"]]
                if name in entry["out"] or name in outs:
                    continue
                outs[name] = make_db_value(spec)
            if not new_point and outs and pos < exported:
                since["new_output_at_exported"] = True
            if not new_point and outs and pos in empty_at:
                flags.add("empty_entry_later_filled")
                empty_at.discard(pos)
            if new_point and not outs:
                empty_at.add(pos)
                flags.add("empty_entry")
            db.store(entry["x"].copy(), {n: copy_value(v) for n, v in outs.items()})
            entry["out"].update({n: copy_value(v) for n, v in outs.items()})
            kinds = {("array" if isinstance(v, (np.ndarray, list)) else "scalar") for v in entry["out"].values()}
            if len(kinds) == 2:
                flags.add("scalar_and_array_at_one_point")
            if any(isinstance(v, float) and math.isnan(v) or isinstance(v, np.ndarray) and np.isnan(v).any() for v in outs.values()):
                flags.add("nan_value")
            if any(isinstance(v, np.ndarray) and v.ndim == 2 for v in outs.values()):
                flags.add("matrix_value")
        # ---- final incremental export and the single export of the same database
        if cfg["final_append"] and exported > 0 and since["new_point"] and since["new_output_at_exported"]:
            nontrivial = True
        db.to_hdf(path, append=cfg["final_append"], hdf_node_path=node)
        incremental = Database.from_hdf(path, hdf_node_path=node, log=False)
        compare_db(ctx, incremental, model, "database_reload", f"after the final export (append={cfg['final_append']})")
        single_path = os.path.join(case_dir, "single.h5")
        db.to_hdf(single_path, append=False, hdf_node_path=node)
        single = Database.from_hdf(single_path, hdf_node_path=node, log=False)
        compare_db(ctx, single, model, "database_single_export", "single append=False export")
        single_model = [{"x": k.wrapped_array, "out": dict(single[k])} for k in single.keys()]
        compare_db(ctx, incremental, single_model, "database_incremental_vs_single", "incrementally written file against the single export")
        # ---- classification
        for f in sorted(flags):
            ctx.cls("db:" + f)
        ctx.cls("db:node=" + (node or "root"), "db:explicit_input_space" if cfg["space"] else "db:default_input_space")
        ctx.extra["max_db_exports"] = max(ctx.extra.get("max_db_exports", 0), n_exports + 2)
        ctx.extra["db_exports"] = ctx.extra.get("db_exports", 0) + n_exports + 2
        if nontrivial:
            ctx.nontriv(("database", p))
            ctx.cls("db:nontrivial")
        ctx.sample({"oracle": "database", "case": p})
    finally:
        shutil.rmtree(case_dir, ignore_errors=True)


# =========================================================================== design spaces
DS_NAMES = ["x", "y", "z", "xx", "x_1", "ab", "abc", "n", "xy_", "a1", "lb", "t"]
DS_SCALES = [1.0, 1.0, 0.1, 1.0 / 3.0, 1e6, 1e-6, 1e20]


def _ds_component():
    return st.fixed_dictionaries({
        "lo": st.sampled_from(["fin", "fin", "fin", "inf"]), "hi": st.sampled_from(["fin", "fin", "fin", "inf"]),
        "a": st.integers(-5, 5), "w": st.sampled_from([0, 1, 2, 3, 6]), "t": st.integers(0, 4),
    })


def _ds_variable():
    return st.fixed_dictionaries({
        "name": st.integers(0, len(DS_NAMES) - 1), "size": st.integers(1, 3), "type": st.sampled_from(["float", "float", "integer"]),
        "scale": st.integers(0, len(DS_SCALES) - 1), "has_value": st.sampled_from([True, True, False]),
        "comps": st.lists(_ds_component(), min_size=3, max_size=3),
    })


def design_space_specs(max_vars=4, with_options=True):
    spec = {"vars": st.lists(_ds_variable(), min_size=1, max_size=max_vars)}
    if with_options:
        spec.update({
            "node": st.sampled_from(["", "a/b"]), "pre": st.booleans(),
            "suffix": st.sampled_from([".h5", ".hdf5", ".csv", ".txt"]),
            "complex": st.sampled_from([False, False, True]),  # DesignSpace.to_complex() before the exports (complex step)
        })
    return st.fixed_dictionaries(spec)


def resolve_ds(spec):
    """Drawn spec -> list of (name, size, type, lb, ub, value or None), unique names."""
    out, used = [], set()
    for var in spec["vars"]:
        name = DS_NAMES[var["name"]]
        k = var["name"]
        while name in used:
            k = (k + 1) % len(DS_NAMES)
            name = DS_NAMES[k]
        used.add(name)
        integer = var["type"] == "integer"
        scale = 1.0 if integer else DS_SCALES[var["scale"]]
        lb, ub, val = [], [], []
        for comp in var["comps"][: var["size"]]:
            lo = -math.inf if comp["lo"] == "inf" else comp["a"] * scale + 0.0
            hi = math.inf if comp["hi"] == "inf" else (comp["a"] + comp["w"]) * scale + 0.0
            frac = comp["t"] / 4.0
            if integer:
                step = round(frac * comp["w"])
                if math.isinf(lo) and math.isinf(hi):
                    v = float(comp["a"])
                elif math.isinf(lo):
                    v = hi - step
                else:
                    v = lo + step
            elif math.isinf(lo) and math.isinf(hi):
                v = comp["a"] * scale * frac + 0.0
            elif math.isinf(lo):
                v = hi - frac * 5.0 * scale
            elif math.isinf(hi):
                v = lo + frac * 5.0 * scale
            else:
                v = min(max(lo + frac * (hi - lo), lo), hi)
            lb.append(lo)
            ub.append(hi)
            val.append(v)
        value = np.array(val) if var["has_value"] else None
        out.append((name, var["size"], var["type"], np.array(lb), np.array(ub), value))
    return out


def build_ds(resolved):
    from gemseo.algos.design_space import DesignSpace

    ds = DesignSpace()
    for name, size, type_, lb, ub, value in resolved:
        ds.add_variable(name, size, type_, lower_bound=lb.copy(), upper_bound=ub.copy(), value=None if value is None else value.copy())
    return ds


def compare_ds(ctx, ds, resolved, sub, what, eq):
    """Reloaded design space against the drawn spec, field by field; eq compares two float arrays."""
    names = list(ds.variable_names)
    exp_names = [r[0] for r in resolved]
    ctx.check(names == exp_names, sub, f"{what}: variable names {names}, expected {exp_names}")
    for name, size, type_, lb, ub, value in resolved:
        got_size = int(ds.variable_sizes[name])
        ctx.check(got_size == size, sub, f"{what}: size of {name} is {got_size}, expected {size}")
        got_type = str(getattr(ds.variable_types[name], "value", ds.variable_types[name]))
        ctx.check(got_type == type_, sub, f"{what}: type of {name} is {got_type!r}, expected {type_!r}")
        got_lb, got_ub = np.asarray(ds.get_lower_bound(name), dtype=float), np.asarray(ds.get_upper_bound(name), dtype=float)
        ctx.check(eq(got_lb, lb), sub, f"{what}: lower bound of {name} is {got_lb.tolist()}, expected {lb.tolist()}")
        ctx.check(eq(got_ub, ub), sub, f"{what}: upper bound of {name} is {got_ub.tolist()}, expected {ub.tolist()}")
        got_val = ds._current_value.get(name)
        if value is None:
            ctx.check(got_val is None, sub, f"{what}: {name} has current value {got_val!r}, expected none")
        else:
            ctx.check(got_val is not None and eq(np.asarray(got_val).real, value), sub,
                      f"{what}: current value of {name} is {None if got_val is None else np.asarray(got_val).tolist()}, expected {value.tolist()}")
            if type_ == "integer":
                ctx.check(np.issubdtype(np.asarray(got_val).dtype, np.integer), sub, f"{what}: current value of integer variable {name} has dtype {np.asarray(got_val).dtype}")


def case_design_space(p, ctx):
    from gemseo.algos.design_space import DesignSpace

    resolved = resolve_ds(p)
    node = p["node"]
    case_dir = _scratch()
    try:
        ds = build_ds(resolved)
        compare_ds(ctx, ds, resolved, "design_space_build", "built design space (harness self-check)", same_num)
        is_complex = bool(p.get("complex"))
        if is_complex:
            ds.to_complex()  # what optimizers / scenarios do for complex-step differentiation; the exports keep the real part
        # to_complex() also casts the values of integer variables, which the text export does not convert back (C11-F4)
        complex_integer = is_complex and any(r[2] == "integer" and r[5] is not None for r in resolved)
        skip_text = False
        if complex_integer:
            ctx.cls("ds:complex_value_of_integer_variable")
            skip_text = ctx.known(KNOWN_COMPLEX_INT)
        # ---- HDF5
        path = os.path.join(case_dir, "ds.h5")
        if p["pre"]:
            ds.to_hdf(path, hdf_node_path="zz")
            ds.to_hdf(path, append=True, hdf_node_path=node)
            other = DesignSpace.from_hdf(path, hdf_node_path="zz")
            compare_ds(ctx, other, resolved, "design_space_hdf", "from_hdf(to_hdf) of the first node after appending a second one", same_num)
        else:
            ds.to_hdf(path, hdf_node_path=node)
        back = DesignSpace.from_hdf(path, hdf_node_path=node)
        compare_ds(ctx, back, resolved, "design_space_hdf", f"from_hdf(to_hdf) at node {node!r}", same_num)
        ctx.check(back == ds, "design_space_hdf", "from_hdf(to_hdf(ds)) != ds")
        # ---- CSV
        path = os.path.join(case_dir, "ds.csv")
        if not skip_text:
            ds.to_csv(path)
            back = DesignSpace.from_csv(path)
            compare_ds(ctx, back, resolved, "design_space_csv", "from_csv(to_csv)", close16)
        # ---- to_file / from_file
        path = os.path.join(case_dir, "file" + p["suffix"])
        is_hdf = p["suffix"] in (".h5", ".hdf5")
        if is_hdf or not skip_text:
            ds.to_file(path)
            back = DesignSpace.from_file(path)
            compare_ds(ctx, back, resolved, "design_space_file", f"from_file(to_file) with suffix {p['suffix']}", same_num if is_hdf else close16)
        # ---- classification
        types = {r[2] for r in resolved}
        has_inf = any(np.isinf(r[3]).any() or np.isinf(r[4]).any() for r in resolved)
        missing = any(r[5] is None for r in resolved)
        ctx.cls("ds:node=" + (node or "root"), "ds:suffix=" + p["suffix"])
        if "integer" in types:
            ctx.cls("ds:integer_variable")
        if has_inf:
            ctx.cls("ds:infinite_bound")
        if missing:
            ctx.cls("ds:missing_current_value")
        if any(bool(np.any(r[3] == r[4])) for r in resolved):
            ctx.cls("ds:lb_equals_ub")
        if any(len(r[0]) > 1 for r in resolved):
            ctx.cls("ds:multi_character_name")
        if p["pre"]:
            ctx.cls("ds:appended_next_to_another_node")
        if is_complex and any(r[5] is not None for r in resolved):
            ctx.cls("ds:complex_current_value")
        if len(resolved) >= 2 and "integer" in types and has_inf and missing:
            ctx.nontriv(("design_space", p))
            ctx.cls("ds:nontrivial")
        ctx.sample({"oracle": "design_space", "case": p})
    finally:
        shutil.rmtree(case_dir, ignore_errors=True)


# =========================================================================== optimization problems
F_NAMES = ["f", "obj", "cost", "f_1"]
C_NAMES = ["g", "h", "c_1", "cstr"]
EXPRS = ["", "x**2", "x+y", "2*x[0]-1", "sum(x)"]
TOLS = [1e-4, 1e-2, 0.0, 1e-6, 0.1]
DIFF = ["user", "finite_differences", "complex_step", "centered_differences", "no_derivative"]


def problem_specs():
    cons = st.fixed_dictionaries({
        "name": st.integers(0, 3), "type": st.sampled_from(["eq", "ineq"]), "positive": st.booleans(),
        "value": st.sampled_from([0.0, 0.0, 0.5, -1.0]), "dim": st.integers(1, 2), "expr": st.integers(0, len(EXPRS) - 1),
    })
    point = st.fixed_dictionaries({"x": st.lists(st.integers(-4, 4), min_size=4, max_size=4), "v": st.lists(st.integers(-8, 8), min_size=8, max_size=8), "grad": st.booleans()})
    return st.fixed_dictionaries({
        "n_float": st.integers(1, 2), "with_int": st.booleans(), "xname": st.sampled_from(["x", "x", "xy"]),
        "obj": st.fixed_dictionaries({"name": st.integers(0, 3), "expr": st.integers(0, len(EXPRS) - 1), "out_names": st.booleans()}),
        "minimize": st.booleans(),
        # "all": objective and constraints are MDOLinearFunctions (is_linear is True); "objective": only the objective is
        "linear": st.sampled_from(["no", "no", "all", "all", "all", "objective"]),
        "sparse_coefficients": st.booleans(),
        "coefficients": st.lists(st.integers(-4, 4), min_size=8, max_size=8),
        "auto_expr": st.booleans(),
        "cons": st.lists(cons, min_size=0, max_size=2),
        "observable": st.booleans(),
        "tol_ineq": st.sampled_from([0, 0, 0, 2, 3, 4]), "tol_eq": st.sampled_from([1, 1, 1, 2, 3, 4]),
        "diff": st.integers(0, len(DIFF) - 1), "step": st.sampled_from([1e-7, 1e-5, 1e-3]),
        "points": st.lists(point, min_size=1, max_size=5),
        "solution": st.booleans(), "node": st.sampled_from(["", "a/b", "a/b"]),
        # what is written into the same file/node before problem.to_hdf(append=True)
        "pre": st.sampled_from(["none", "none", "database", "design_space", "design_space+database", "problem", "problem_append"]),
        "extra_point": st.booleans(),   # a point stored between the first write and the final append
        "append": st.booleans(),        # append flag of the only write when nothing is written before
        "second_node": st.booleans(),   # the problem is appended a second time under another node of the same file
        "status": st.sampled_from([None, 0, 3]), "message": st.sampled_from([None, "done", "max iter reached"]),
    })


def build_problem(p):
    from gemseo.algos.design_space import DesignSpace
    from gemseo.algos.optimization_problem import OptimizationProblem
    from gemseo.algos.optimization_result import OptimizationResult
    from gemseo.core.mdo_functions.mdo_function import MDOFunction
    from gemseo.core.mdo_functions.mdo_linear_function import MDOLinearFunction
    from scipy.sparse import csr_array

    linear = p.get("linear", "no")
    coefs = p.get("coefficients", [1] * 8)

    def linear_function(name, dim, shift, expr):
        mat = np.array([[0.5 * coefs[(shift + i * n + j) % 8] for j in range(n)] for i in range(dim)])
        if p.get("sparse_coefficients"):
            mat = csr_array(mat)
        b = 0.25 * coefs[shift % 8] if dim == 1 else np.array([0.25 * coefs[(shift + i) % 8] for i in range(dim)])
        return MDOLinearFunction(mat, name, input_names=in_names, value_at_zero=b, expr=None if p.get("auto_expr") else expr)

    ds = DesignSpace()
    xname = p.get("xname", "x")
    ds.add_variable(xname, p["n_float"], lower_bound=-2.0, upper_bound=2.0, value=0.5)
    if p["with_int"]:
        ds.add_variable("k_int", 1, "integer", lower_bound=-4, upper_bound=4, value=1)
    n = p["n_float"] + (1 if p["with_int"] else 0)
    in_names = [xname] + (["k_int"] if p["with_int"] else [])
    problem = OptimizationProblem(ds, differentiation_method=DIFF[p["diff"]], differentiation_step=p["step"])
    oname = F_NAMES[p["obj"]["name"]]
    if linear in ("all", "objective"):
        problem.objective = linear_function(oname, 1, 0, EXPRS[p["obj"]["expr"]])
    else:
        problem.objective = MDOFunction(lambda x: 0.0, oname, expr=EXPRS[p["obj"]["expr"]], input_names=in_names, dim=1,
                                        output_names=[oname] if p["obj"]["out_names"] else ())
    problem.minimize_objective = p["minimize"]
    used = set()
    for con in p["cons"]:
        k = con["name"]
        while C_NAMES[k] in used:
            k = (k + 1) % len(C_NAMES)
        used.add(C_NAMES[k])
        d = con["dim"]
        if linear == "all":
            function = linear_function(C_NAMES[k], d, 1 + 2 * len(used), EXPRS[con["expr"]])
        else:
            function = MDOFunction(lambda x, d=d: np.zeros(d), C_NAMES[k], expr=EXPRS[con["expr"]], input_names=in_names, dim=d)
        problem.add_constraint(function, value=con["value"], constraint_type=con["type"], positive=con["positive"])
    if p["observable"]:
        problem.add_observable(MDOFunction(lambda x: np.zeros(1), "obs_1", input_names=in_names, dim=1))
    problem.tolerances.inequality = TOLS[p["tol_ineq"]]
    problem.tolerances.equality = TOLS[p["tol_eq"]]
    problem.preprocess_functions(is_function_input_normalized=False)
    obj_name = problem.objective.name
    c_names = [c.name for c in problem.constraints]
    model, seen = [], set()
    for pt in p["points"]:
        x = np.array([0.5 * k for k in pt["x"][: p["n_float"]]] + ([float(pt["x"][3])] if p["with_int"] else [])) + 0.0
        if tuple(x.tolist()) in seen:
            continue
        seen.add(tuple(x.tolist()))
        out = {obj_name: 0.25 * pt["v"][0]}
        for j, (name, con) in enumerate(zip(c_names, p["cons"])):
            out[name] = np.array([0.125 * pt["v"][1 + 2 * j + i] for i in range(con["dim"])])
        if p["observable"]:
            out["obs_1"] = np.array([0.5 * pt["v"][5]])
        if pt["grad"]:
            out["@" + obj_name] = np.array([0.25 * pt["v"][6]] * n)
        problem.database.store(x.copy(), {k: copy_value(v) for k, v in out.items()})
        model.append({"x": x, "out": out})
    if p["solution"]:
        problem.solution = OptimizationResult.from_optimization_problem(problem, status=p["status"], message=p["message"], optimizer_name="HARNESS")
    return problem, model


def store_extra_point(p, problem, model) -> None:
    """One more point (off the 0.5 grid of the drawn points) with a full record."""
    n_float = p["n_float"]
    x = np.array([0.25] * n_float + ([0.0] if p["with_int"] else []))
    out = {problem.objective.name: 1.375}
    for name, con in zip([c.name for c in problem.constraints], p["cons"]):
        out[name] = np.array([0.0625] * con["dim"])
    if p["observable"]:
        out["obs_1"] = np.array([-0.75])
    problem.database.store(x.copy(), {k: copy_value(v) for k, v in out.items()})
    model.append({"x": x, "out": out})


def fdict(fn):
    """The serialised description of an MDOFunction as plain values."""
    out = {}
    for k, v in fn.to_dict().items():
        v = getattr(v, "value", v)
        out[k] = list(v) if isinstance(v, (list, tuple)) else v
    return out


def compare_functions(ctx, orig, new, label):
    """Serialised descriptions of a written and a reloaded function."""
    a, b = fdict(orig), fdict(new)
    affected = [k for k in ("input_names", "output_names") if len(a.get(k) or []) == 1 and len(a[k][0]) > 1]
    if affected:
        ctx.cls("problem:function_with_single_multichar_name")
        if ctx.known(KNOWN_NAMES):
            for k in affected:
                a.pop(k, None)
                b.pop(k, None)
    ctx.check(a == b, "problem_functions", f"{label} reloaded as {b}, written {a}")


def sol_equal(a, b) -> bool:
    if a is None or b is None:
        return a is None and b is None
    if isinstance(a, dict) or isinstance(b, dict):
        return isinstance(a, dict) and isinstance(b, dict) and sorted(a) == sorted(b) and all(sol_equal(a[k], b[k]) for k in a)
    if isinstance(a, str) or isinstance(b, str):
        return str(a) == str(b)
    return same_num(a, b)


def compare_problem(p, ctx, problem, model, back, node):
    """Reloaded problem against the written one, attribute by attribute."""
    sub = "problem_functions"
    tol = (TOLS[p["tol_ineq"]], TOLS[p["tol_eq"]])
    compare_functions(ctx, problem.objective, back.objective, "objective")
    for label, orig, new in (("constraints", list(problem.constraints), list(back.constraints)), ("observables", list(problem.observables), list(back.observables))):
        ctx.check(sorted(f.name for f in orig) == sorted(f.name for f in new), sub,
                  f"{label} reloaded with names {[f.name for f in new]}, written {[f.name for f in orig]}")
        by_name = {f.name: f for f in new}  # the order of the functions is not part of the statement (reload sorts by name)
        if [f.name for f in orig] != [f.name for f in new]:
            ctx.cls("problem:function_order_changed_by_reload")
        for a in orig:
            compare_functions(ctx, a, by_name[a.name], label)
    sub = "problem_description"
    ctx.check(bool(back.minimize_objective) == bool(problem.minimize_objective), sub, f"minimize_objective reloaded as {back.minimize_objective}, written {problem.minimize_objective}")
    ctx.check(str(getattr(back.differentiation_method, "value", back.differentiation_method)) == DIFF[p["diff"]], sub,
              f"differentiation_method reloaded as {back.differentiation_method!r}, written {DIFF[p['diff']]!r}")
    ctx.check(float(back.differentiation_step) == p["step"], sub, f"differentiation_step reloaded as {back.differentiation_step!r}, written {p['step']!r}")
    ctx.check(bool(back.is_linear) == bool(problem.is_linear), sub, f"is_linear reloaded as {back.is_linear}, written {problem.is_linear}")
    ctx.check(back.design_space == problem.design_space, "problem_design_space", "design space of the reloaded problem differs from the original")
    compare_db(ctx, back.database, model, "problem_database", "database of the reloaded problem")
    if tol != T_DEFAULT and ctx.known(KNOWN_TOL):
        ctx.cls("problem:tolerance_comparison_skipped")
    else:
        got = (float(back.tolerances.inequality), float(back.tolerances.equality))
        ctx.check(got == tol, "problem_tolerances", f"tolerances (inequality, equality) reloaded as {got}, written {tol}")
    sub = "problem_solution"
    if not p["solution"]:
        ctx.check(back.solution is None, sub, f"a problem without solution reloads with solution {back.solution!r}")
    else:
        ctx.check(back.solution is not None, sub, "the solution is missing after reload")
        orig, new = problem.solution.to_dict(), back.solution.to_dict()
        skip = set()
        if node and ctx.known(KNOWN_NODE):
            skip = {"x_0_as_dict", "x_opt_as_dict"}
            ctx.cls("problem:as_dict_fields_comparison_skipped")
        for key in sorted(set(orig) | set(new)):
            if key in skip:
                continue
            ctx.check(sol_equal(orig.get(key), new.get(key)), sub, f"solution field {key} reloaded as {new.get(key, 'absent')!r}, written {orig.get(key, 'absent')!r}", node=node)


def case_problem(p, ctx):
    from gemseo.algos.optimization_problem import OptimizationProblem

    case_dir = _scratch()
    try:
        problem, model = build_problem(p)
        node = p["node"]
        path = os.path.join(case_dir, "problem.h5")
        pre = p.get("pre", "none")
        # ---- objects of the problem written into the same file/node first, then the problem itself (append=True)
        if pre == "none":
            problem.to_hdf(path, append=bool(p.get("append")), hdf_node_path=node)
        else:
            if pre == "database":
                problem.database.to_hdf(path, hdf_node_path=node)
            elif pre == "design_space":
                problem.design_space.to_hdf(path, hdf_node_path=node)
            elif pre == "design_space+database":
                problem.design_space.to_hdf(path, hdf_node_path=node)
                problem.database.to_hdf(path, append=True, hdf_node_path=node)
            elif pre == "problem":
                problem.to_hdf(path, hdf_node_path=node)
            else:  # "problem_append": the first write already uses append=True on a file that does not exist
                problem.to_hdf(path, append=True, hdf_node_path=node)
            if p.get("extra_point"):
                store_extra_point(p, problem, model)
            problem.to_hdf(path, append=True, hdf_node_path=node)
        nodes = [node]
        if p.get("second_node"):
            problem.to_hdf(path, append=True, hdf_node_path="zz/y")
            nodes.append("zz/y")
        for where in nodes:
            back = OptimizationProblem.from_hdf(path, hdf_node_path=where)
            compare_problem(p, ctx, problem, model, back, where)
        tol = (TOLS[p["tol_ineq"]], TOLS[p["tol_eq"]])
        ctx.cls("problem:written_after=" + pre)
        if p.get("second_node"):
            ctx.cls("problem:two_nodes_in_one_file")
        if pre != "none" and p.get("extra_point"):
            ctx.cls("problem:point_stored_between_the_writes")
        ctx.cls("problem:node=" + (node or "root"), "problem:with_solution" if p["solution"] else "problem:without_solution")
        if not p["minimize"]:
            ctx.cls("problem:maximisation")
        if p["cons"]:
            ctx.cls("problem:constrained")
        if tol != T_DEFAULT:
            ctx.cls("problem:non_default_tolerances")
        ctx.cls("problem:saved_with_is_linear=" + str(bool(problem.is_linear)))
        if p.get("linear", "no") != "no":
            ctx.cls("problem:linear_functions_" + ("sparse" if p.get("sparse_coefficients") else "dense") + "_coefficients")
        if p["solution"] and p["cons"]:
            ctx.nontriv(("problem", p))
            ctx.cls("problem:nontrivial")
        ctx.sample({"oracle": "problem", "case": p})
    finally:
        shutil.rmtree(case_dir, ignore_errors=True)


# =========================================================================== HDF5 cache
def cache_specs():
    k = st.integers(-6, 6)
    entry = st.fixed_dictionaries({"x": st.lists(k, min_size=2, max_size=2), "y": st.lists(k, min_size=1, max_size=1), "v": st.lists(k, min_size=8, max_size=8)})
    op = st.fixed_dictionaries({
        "op": st.sampled_from(["out", "out", "jac", "both", "setitem", "reopen"]), "pt": st.integers(0, 5), "forget": st.booleans(),
    })
    return st.fixed_dictionaries({
        "pool": st.lists(entry, min_size=2, max_size=5), "ops": st.lists(op, min_size=2, max_size=10),
        "sparse": st.booleans(), "tol": st.sampled_from([0.0, 0.0, 1e-9]), "node": st.sampled_from(["node", "a/b"]),
        "weak_hash": st.sampled_from([False, False, True]),  # a valid 2-bucket hash: several entries per hash value
    })


def weak_hash(data) -> int:
    """A valid but poor hash: equal data give equal hashes, two buckets in all."""
    try:
        first = float(np.asarray(data["x"], dtype=float).ravel()[0])
        return 1000 + int(np.floor(first)) % 2
    except Exception:  # noqa: BLE001
        return 7


def case_cache(p, ctx):
    import gemseo.caches._hdf5_file_singleton as hfs
    import gemseo.caches.base_full_cache as bfc
    from gemseo.caches.hdf5_cache import HDF5Cache
    from scipy.sparse import csr_array

    case_dir = _scratch()
    saved_hash = (bfc.hash_data, hfs.hash_data)
    try:
        if p.get("weak_hash"):
            bfc.hash_data = hfs.hash_data = weak_hash
        path = os.path.join(case_dir, "cache.h5")

        def open_cache():
            return HDF5Cache(tolerance=p["tol"], hdf_file_path=path, hdf_node_path=p["node"])

        def inputs_of(e):
            return {"x": np.array([0.5 * k for k in e["x"]]) + 0.0, "y": np.array([0.5 * k for k in e["y"]]) + 0.0}

        def outputs_of(e):
            return {"f": np.array([0.25 * e["v"][0]]), "g": np.array([0.25 * e["v"][1], 0.25 * e["v"][2]])}

        def jac_of(e):
            blocks = {
                "f": {"x": np.array([[0.5 * e["v"][3], 0.0]]), "y": np.array([[0.5 * e["v"][4]]])},
                "g": {"x": np.array([[0.0, 0.5 * e["v"][5]], [0.5 * e["v"][6], 0.0]]), "y": np.array([[0.5 * e["v"][7]], [0.0]])},
            }
            if p["sparse"]:
                return {o: {i: csr_array(m) for i, m in d.items()} for o, d in blocks.items()}
            return blocks

        # numerically distinct pool
        pool, seen = [], set()
        for e in p["pool"]:
            key = (tuple(e["x"]), tuple(e["y"]))
            if key not in seen:
                seen.add(key)
                pool.append(e)
        model = []  # [{"key", "in", "out" or None, "jac" or None}] in creation order
        by_key = {}

        def verify(cache, what):
            sub = "cache_reload"
            ctx.check(len(cache) == len(model), sub, f"{what}: len(cache)={len(cache)}, expected {len(model)}")
            if model:
                entries = list(cache.get_all_entries())
                ctx.check(len(entries) == len(model), sub, f"{what}: get_all_entries() yields {len(entries)} entries, expected {len(model)}")
                for i, (got, ref) in enumerate(zip(entries, model)):
                    check_entry(got, ref, f"{what}: entry {i}")
            for ref in model:
                got = cache[{k: v.copy() for k, v in ref["in"].items()}]
                check_entry(got, ref, f"{what}: lookup of {ref['key']}")
            for e in pool:
                key = (tuple(e["x"]), tuple(e["y"]))
                if key not in by_key:
                    got = cache[inputs_of(e)]
                    ctx.check(not got.outputs and not got.jacobian, sub, f"{what}: lookup of the never cached input {key} returns {got!r}")

        def check_entry(got, ref, what):
            sub = "cache_reload"
            ctx.check(sorted(got.inputs) == ["x", "y"] and all(same_num(got.inputs[k], ref["in"][k]) for k in ("x", "y")), sub,
                      f"{what}: inputs {got.inputs!r}, expected {ref['in']!r}")
            exp_out = ref["out"] or {}
            ctx.check(sorted(got.outputs) == sorted(exp_out) and all(same_num(got.outputs[k], exp_out[k]) for k in exp_out), sub,
                      f"{what}: outputs {got.outputs!r}, expected {exp_out!r}")
            exp_jac = ref["jac"] or {}
            ctx.check(sorted(got.jacobian) == sorted(exp_jac), sub, f"{what}: Jacobian outputs {sorted(got.jacobian)}, expected {sorted(exp_jac)}")
            for o, d in exp_jac.items():
                ctx.check(sorted(got.jacobian[o]) == sorted(d), sub, f"{what}: Jacobian inputs of {o} {sorted(got.jacobian[o])}, expected {sorted(d)}")
                for i, m in d.items():
                    ctx.check(same_num(dense(got.jacobian[o][i]), dense(m)), sub, f"{what}: d{o}/d{i} = {dense(got.jacobian[o][i])!r}, expected {dense(m)!r}")

        cache = open_cache()
        n_reopen = 0
        nontrivial = False
        for op in p["ops"]:
            if op["op"] == "reopen":
                if len(model) >= 2 and any(r["jac"] for r in model):
                    nontrivial = True
                cache = None
                if op["forget"]:
                    forget_singletons(case_dir)
                cache = open_cache()
                n_reopen += 1
                verify(cache, f"after re-instantiation #{n_reopen}")
                continue
            e = pool[op["pt"] % len(pool)]
            key = (tuple(e["x"]), tuple(e["y"]))
            ref = by_key.get(key)
            want_out = op["op"] in ("out", "both", "setitem") and (ref is None or ref["out"] is None)
            want_jac = op["op"] in ("jac", "both", "setitem") and (ref is None or ref["jac"] is None)
            if not want_out and not want_jac:
                continue
            if ref is None:
                ref = {"key": key, "in": inputs_of(e), "out": None, "jac": None}
                by_key[key] = ref
                model.append(ref)
            if op["op"] == "setitem":
                cache[inputs_of(e)] = (outputs_of(e) if want_out else {}, jac_of(e) if want_jac else {})
            else:
                if want_out:
                    cache.cache_outputs(inputs_of(e), outputs_of(e))
                if want_jac:
                    cache.cache_jacobian(inputs_of(e), jac_of(e))
            if want_out:
                ref["out"] = outputs_of(e)
            if want_jac:
                ref["jac"] = jac_of(e)
        verify(cache, "before the final re-instantiation")
        if len(model) >= 2 and any(r["jac"] for r in model):
            nontrivial = True
        cache = None
        forget_singletons(case_dir)
        cache = open_cache()
        verify(cache, "after the final re-instantiation")
        ctx.cls("cache:node=" + p["node"], "cache:sparse_jacobian" if p["sparse"] else "cache:dense_jacobian")
        if n_reopen:
            ctx.cls("cache:reopened_mid_history")
        if p.get("weak_hash"):
            ctx.cls("cache:colliding_hash")
            if any(len(v) > 1 for v in cache._hashes_to_indices.values()):
                ctx.cls("cache:hash_bucket_with_several_entries_after_reopen")
        if any(r["out"] is None for r in model):
            ctx.cls("cache:jacobian_only_entry")
        if nontrivial:
            ctx.nontriv(("hdf5_cache", p))
            ctx.cls("cache:nontrivial")
        ctx.sample({"oracle": "hdf5_cache", "case": p})
    finally:
        bfc.hash_data, hfs.hash_data = saved_hash
        forget_singletons(case_dir)
        shutil.rmtree(case_dir, ignore_errors=True)


ORACLES = {
    "database": case_database,
    "design_space": case_design_space,
    "problem": case_problem,
    "hdf5_cache": case_cache,
}


def run(ctx):
    ctx.drive("database", db_histories(), case_database, quick=220, thorough=2500)
    ctx.drive("design_space", design_space_specs(), case_design_space, quick=250, thorough=3000)
    ctx.drive("problem", problem_specs(), case_problem, quick=200, thorough=2500)
    ctx.drive("hdf5_cache", cache_specs(), case_cache, quick=150, thorough=2000)
