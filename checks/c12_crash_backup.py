"""C12 - A crashed run leaves a loadable prefix backup and restarts without rework.

For every generated configuration (scenario kind, algorithm, one or two harness
disciplines, backup policy, initial state of the backup file, normalisation, budget) a
reference run in a forked child records every discipline execution and a snapshot of the
database after every ``Database.store``.  Then every crash point k = 1..K is enumerated:
a forked child runs the same scenario with a discipline that calls ``os._exit(17)`` at the
start of its k-th execution; the parent loads the backup file with ``Database.from_hdf``
and compares it with the reference snapshot that the backup policy implies for k; a second
forked child restarts from that file with ``load=True`` and reports its executions, final
database and result.

All processes are forked from the check process (gemseo imported and the algorithm
factories warmed up before), run at most N_WORKERS at a time and are always reaped.
"""

from __future__ import annotations

import logging
import os
import pickle
import shutil
import signal
import tempfile
import threading
import traceback
import warnings

import numpy as np
from hypothesis import strategies as st

from vlib.core import VERIF, HarnessError

logging.getLogger("gemseo").setLevel(logging.ERROR)
# complex-step runs hand complex bounds / values to SciPy and h5py, which take the real part
warnings.filterwarnings("ignore", category=getattr(np, "ComplexWarning", None) or np.exceptions.ComplexWarning)

PROPERTY = "C12"
LEVEL = "fault_enumeration"
RULE = (
    "Hypothesis draws a configuration per algorithm stream: MDO scenario (SLSQP, L-BFGS-B, NLOPT_COBYLA; normalised "
    "design space or not; stop tolerances on/off; budgets 5-15 leaning small so that max_iter ends most runs) or DOE "
    "scenario (LHS, PYDOE_FULLFACT, CustomDOE incl. repeated samples; with or without Jacobians); structure: "
    "DisciplinaryOpt over one harness discipline (x -> f, g), a chain of two (x -> f, y; x, y -> g), or IDF over "
    "independent objective and constraint disciplines (one execution per function: crashes between two functions of "
    "a point); optionally an observable computed by its own discipline; gradients analytic, finite differences or "
    "complex step (complex128 database keys; perturbed executions are crash points too); 1-2 design variables, "
    "polynomial/sine objective (one case in four maximised) and one inequality constraint (none for L-BFGS-B); backup "
    "policy (each function call / each iteration / both); initial file state (absent / prefix left by an earlier "
    "crashed run and loaded / such a prefix erased with erase=True / script that first executes the scenario without "
    "backup - 3 custom samples, or the algorithm with max_iter=3 - and then calls set_optimization_history_backup("
    "load=True) on the non-empty database before executing again: its crash points are the executions after that "
    "call and the restart is a re-run of the same script); restart with reset_iteration_counters False "
    "(3 in 4) or True; MDO design spaces with or without a current value (bounds only: start from the centre); "
    "interrupted PARALLEL DOE (n_processes=2, every sample registered up front): samples of a drawn set fail "
    "transiently, the process is killed while sample c is evaluated (every c; schedule made deterministic by the "
    "harness discipline in the workers), leaving entries without outputs before complete ones, then a sequential "
    "restart; one extra stratum per SLSQP / NLOPT_COBYLA pins iteration-only backups on the un-normalised problem "
    "without observable. A reference child logs every discipline execution and, before the listeners of every "
    "Database.store run, the database state that store produces; EVERY crash point k=1..K is then run in a forked "
    "child that dies with os._exit(17) at the start of execution k, the backup is loaded with Database.from_hdf and "
    "compared (keys incl. dtype, order, names, shapes, values, exactly) with the state the policy implies, and a "
    "fresh forked child restarts with load=True. "
    "evaluations = crash points executed; non-trivial = crash point whose backup holds 0 < n < (entries of the "
    "full run) entries; distinct = structural hash of (configuration, k)."
)
ASSUMPTIONS = [
    "the process dies at the start of a discipline execution (os._exit: no Python/HDF5 clean-up); deaths inside an "
    "HDF5 write and power-loss semantics are outside the property",
    "an existing backup file is either loaded (load=True) or erased (erase=True) by the run that reuses it; the "
    "combination load=False, erase=False on an existing file (entries merged by index) is not exercised",
    "DOE scenarios use normalize_design_space=False (the DOE default; True is C14-F4); normalisation is drawn for MDO only",
    "L-BFGS-B does not handle constraints: its configurations have an objective only",
    "function-call backups are expected to hold the value of a store before any listener of that store executes a "
    "discipline (an observable evaluated at a new iteration); iteration backups the state of the store that opened "
    "the iteration",
    "an execution at a point of the backup (same real part, no imaginary perturbation) counts as rework only if the "
    "restarted run stored no new function at that entry (the backup entry already held everything requested there)",
    "history equality with the uninterrupted run is required for un-normalised design spaces with "
    "reset_iteration_counters=False (the documented way to complete a run from a backup); with the default "
    "reset_iteration_counters=True the uninterrupted history must be a prefix of the restarted one; with "
    "reset_iteration_counters=False an MDO restart (normalised or not) must end with at most max_iter entries",
    "approximated gradients: one variable and budget 5 (each perturbed execution is an enumerated crash point); a "
    "chain is replaced by the single discipline there",
    "script that sets the backup after a first execution: the database right after load=True must be the first "
    "batch completed / followed by the backup's entries, executions made before that call are not rework",
    "sequential execution (n_processes=1) except the interrupted parallel DOE, whose death is a SIGKILL of the main "
    "process sent from the worker evaluating sample c once the earlier samples are stored and backed up; failed "
    "samples are transient (the restart evaluates them); expected backup = every sample in order, completed ones with "
    "the values of the sequential uninterrupted run, the others without outputs (no file with iteration backups "
    "when nothing completed); deterministic algorithms (LHS with an explicit seed)",
    "an execution at a point stored under a key of another dtype is not rework when the uninterrupted run also holds "
    "the point under the executed key (complex-step runs request one point as complex128 and as float64)",
    "enable_progress_bar=False in every run: tqdm's process-shared lock and monitor thread must not be inherited by "
    "forked children that are killed (a harness precaution, the backup does not depend on the bar)",
    "the best loaded point is taken among backup entries holding the objective and the constraint; inequality "
    "tolerance as set by the algorithm (1e-4); violation measures compared with a relative margin of 1e-9; no "
    "comparison when the reported infeasible point is a partially recorded one (no measure defined, cf. C04)",
]

CRASH_CODE = 17
# ledger predicate (C12-F3): load=True sets the evaluation counter to len(database), which counts the entries without
# outputs that an interrupted parallel DOE registered up front; with reset_iteration_counters=False the restart stops at once
KNOWN_EMPTY_ENTRIES = "counter_restored_from_backup_counts_entries_without_outputs"
# ledger predicate (C12-F1): an MDO restart never evaluates the observables at a loaded entry that lacks them
KNOWN_OBSERVABLE = "restart_skips_observable_of_loaded_incomplete_entry"
# ledger predicate (C12-F2): max_iter / ftol / xtol stops are raised inside the new-iteration event of the last point; a
# crash after that store (in the observable's discipline) restarts into a run that completes the last entry
KNOWN_LAST_ENTRY = "restart_completes_last_entry_of_run_stopped_in_new_iteration_event"
CHILD_TIMEOUT_S = 120
MDO_ALGOS = ["SLSQP", "L-BFGS-B", "NLOPT_COBYLA"]
DOE_ALGOS = ["LHS", "PYDOE_FULLFACT", "CustomDOE"]
BOUNDS = [(-3.0, 4.0), (-2.5, 1.5), (0.5, 5.0)]
GRID = 8  # start points / custom samples are lb + (ub - lb) * i / GRID


def n_workers(ctx) -> int:
    env = os.environ.get("VERIF_C12_WORKERS")
    if env:
        return max(1, int(env))
    return 12 if ctx.tier == "quick" else 3


# --------------------------------------------------------------------------- strategy
@st.composite
def configs(draw, algo: str, profile: dict | None = None):
    """A configuration for ``algo``; ``profile`` pins some dimensions (a stratum of the generator)."""
    kind = "mdo" if algo in MDO_ALGOS else "doe"
    n_x = draw(st.integers(1, 2))
    # MDO budgets lean to the small side so that max_iter (not convergence) ends a good share of the runs
    budget = draw(st.sampled_from([5, 5, 6, 6, 7, 8, 9, 11, 13, 15])) if kind == "mdo" else draw(st.integers(5, 15))
    p = {
        "kind": kind,
        "algo": algo,
        "n_x": n_x,
        "structure": draw(st.sampled_from(["single", "chain", "idf", "idf"])),
        "observable": draw(st.booleans()),
        "bounds": draw(st.integers(0, len(BOUNDS) - 1)),
        "x0": draw(st.lists(st.integers(0, GRID), min_size=n_x, max_size=n_x)),
        "a": draw(st.lists(st.integers(-2, 4), min_size=n_x, max_size=n_x)),
        "w": draw(st.lists(st.integers(1, 3), min_size=n_x, max_size=n_x)),
        "c": draw(st.integers(-1, 1)),
        "u": draw(st.integers(0, 1)),
        "rho": draw(st.integers(0, 2)),
        "s": draw(st.lists(st.sampled_from([-2, -1, 1, 2]), min_size=n_x, max_size=n_x)),
        "t": draw(st.integers(0, 1)),
        "r": draw(st.integers(-2, 4)),
        "policy": draw(st.sampled_from(["call", "iter", "iter", "both"])),
        "initial": draw(st.sampled_from(["absent", "absent", "prefix_load", "prefix_load", "prefix_erase", "warm_load", "warm_load"])),
        # "warm_load": the script first executes the scenario without backup (3 custom samples / the algorithm with
        # max_iter=3), then calls set_optimization_history_backup(load=True) on a non-empty database and executes again
        "warm_samples": draw(st.lists(st.lists(st.integers(0, GRID), min_size=n_x, max_size=n_x), min_size=3, max_size=3)),
        "prefix_at": draw(st.integers(0, 30)),
        "normalize": draw(st.sampled_from([False, False, True])) if kind == "mdo" else False,
        # design space with bounds only: the drivers start from the centre of the bounds
        "no_x0": draw(st.booleans()) if kind == "mdo" else False,
        "budget": budget,
        "reset": draw(st.sampled_from([False, False, False, True])),
        "maximize": draw(st.sampled_from([False, False, False, True])),
        "diff": "user",
    }
    if kind == "mdo":
        p["tols_off"] = draw(st.booleans())
    if kind == "doe":
        # interrupted parallel DOE (n_processes=2) with transient failures of some samples: see _case_parallel
        p["parallel"] = draw(st.booleans())
        p["eval_jac"] = False if p["parallel"] else draw(st.booleans())
        p["seed"] = draw(st.integers(1, 5))
        if algo == "CustomDOE":
            p["samples"] = draw(st.lists(st.lists(st.integers(0, GRID), min_size=n_x, max_size=n_x), min_size=budget, max_size=budget))
        if p["parallel"]:
            p.update(structure="single", observable=False, initial="absent", fail_mask=draw(st.integers(0, 2**15 - 1)))
            if algo == "CustomDOE":
                p["samples"] = [list(t) for t in dict.fromkeys(tuple(idx) for idx in p["samples"])]  # distinct points
    if algo in ("SLSQP", "L-BFGS-B") or p.get("eval_jac"):
        p["diff"] = draw(st.sampled_from(["user", "finite_differences", "complex_step", "complex_step"]))
        if p["diff"] != "user":
            # every perturbed execution is a crash point too: keep these runs small (one variable, smallest budget)
            p.update(n_x=1, budget=5, x0=p["x0"][:1], a=p["a"][:1], w=p["w"][:1], s=p["s"][:1])
            p["warm_samples"] = [idx[:1] for idx in p["warm_samples"]]
            if p["structure"] == "chain":
                p["structure"] = "single"  # a perturbation of a chain runs every link: up to 90 crash points
            if algo == "CustomDOE":
                p["samples"] = [idx[:1] for idx in p["samples"][:5]]
    if profile:
        p.update(profile)
    return p


# --------------------------------------------------------------------------- the scenario of a configuration
def _grid_point(p, idx):
    lb, ub = BOUNDS[p["bounds"]]
    return np.array([lb + (ub - lb) * i / GRID for i in idx], dtype=float)


def has_constraint(p) -> bool:
    return p["algo"] != "L-BFGS-B"


def structure_of(p) -> str:
    if "structure" in p:
        return p["structure"]
    return "single" if p.get("n_disc", 1) == 1 else "chain"  # payloads of the first version of this check


def make_disciplines(p, hook):
    """The harness disciplines; ``hook(name, x)`` is called at the start of every execution.

    Every function is a polynomial (plus a sine) evaluated with the dtype of x: complex-step safe.
    """
    from gemseo.core.discipline import Discipline

    n = p["n_x"]
    a = np.array(p["a"], dtype=float) * 0.5 + 0.1
    w = np.array(p["w"], dtype=float)
    s = np.array(p["s"], dtype=float)
    c, u, t, r = 0.5 * p["c"], 0.1 * p["u"], 0.5 * p["t"], 0.5 * p["r"]
    rho = 0.5 * p.get("rho", 0)

    def f_val(x):
        d = x - a
        v = np.sum(w * d**2) + u * np.sum(d**4)
        if n == 2:
            v = v + c * x[0] * x[1] + rho * (x[1] - x[0] ** 2) ** 2
        else:
            v = v + rho * np.sin(3.0 * x[0])
        return v

    def f_jac(x):
        d = x - a
        j = 2 * w * d + 4 * u * d**3
        if n == 2:
            q = x[1] - x[0] ** 2
            j = j + c * np.array([x[1], x[0]]) + rho * np.array([-4.0 * x[0] * q, 2.0 * q])
        else:
            j = j + rho * 3.0 * np.cos(3.0 * x)
        return j.reshape(1, n)

    def y_val(x):
        return s @ x + t * x[0] ** 2

    def y_jac(x):
        j = s.copy()
        j[0] += 2 * t * x[0]
        return j.reshape(1, n)

    def o_val(x):
        return np.array([np.sum(x), x[0] * x[-1]])

    def o_jac(x):
        j = np.zeros((2, n))
        j[0, :] = 1.0
        j[1, 0] += x[-1]
        j[1, -1] += x[0]
        return j

    class Harness(Discipline):
        """inputs x (and y for the second link of the chain); ``outputs``: {name: (value function, Jacobian function)}."""

        def __init__(self, name, outputs, with_y=False):
            super().__init__(name)
            self.outputs = outputs
            self.with_y = with_y
            self.io.input_grammar.update_from_names(["x", "y"] if with_y else ["x"])
            self.io.output_grammar.update_from_names(list(outputs))
            self.io.input_grammar.defaults = {"x": np.zeros(n), "y": np.zeros(1)} if with_y else {"x": np.zeros(n)}

        def _run(self, input_data):
            x = np.array(input_data["x"])
            hook(self.name, x)
            if self.with_y:
                return {"g": np.array([input_data["y"][0] - r])}
            return {name: np.atleast_1d(np.array(fn(x))) for name, (fn, _) in self.outputs.items()}

        def _compute_jacobian(self, input_names=(), output_names=()):
            if self.with_y:
                self.jac = {"g": {"x": np.zeros((1, n)), "y": np.ones((1, 1))}}
                return
            x = np.array(self.io.data["x"]).real
            self.jac = {name: {"x": jac(x)} for name, (_, jac) in self.outputs.items()}

    F = (f_val, f_jac)
    Y = (y_val, y_jac)
    G = (lambda x: y_val(x) - r, y_jac)
    O = (o_val, o_jac)
    structure = structure_of(p)
    if structure == "single":
        disciplines = [Harness("D1", {"f": F, "g": G})]
    elif structure == "chain":
        disciplines = [Harness("D1", {"f": F, "y": Y}), Harness("D2", {"g": G}, with_y=True)]
    else:  # independent disciplines under IDF: one execution per function
        disciplines = [Harness("Obj", {"f": F})]
        if has_constraint(p):
            disciplines.append(Harness("Cstr", {"g": G}))
    if p.get("observable"):
        disciplines.append(Harness("Obs", {"o": O}))
    return disciplines


def build_scenario(p, hook):
    from gemseo import create_scenario
    from gemseo.algos.design_space import DesignSpace

    lb, ub = BOUNDS[p["bounds"]]
    ds = DesignSpace()
    if p.get("no_x0"):
        ds.add_variable("x", p["n_x"], lower_bound=lb, upper_bound=ub)
    else:
        ds.add_variable("x", p["n_x"], lower_bound=lb, upper_bound=ub, value=_grid_point(p, p["x0"]))
    scenario = create_scenario(
        make_disciplines(p, hook), "f", ds, formulation_name="IDF" if structure_of(p) == "idf" else "DisciplinaryOpt",
        scenario_type="MDO" if p["kind"] == "mdo" else "DOE", maximize_objective=bool(p.get("maximize", False)),
    )
    if has_constraint(p):
        scenario.add_constraint("g", constraint_type="ineq")
    if p.get("observable"):
        scenario.add_observable("o")
    if p.get("diff", "user") != "user":
        scenario.set_differentiation_method(p["diff"])
    return scenario


def algo_settings(p, reset: bool | None):
    if p["kind"] == "mdo":
        kw = {"algo_name": p["algo"], "max_iter": p["budget"], "normalize_design_space": p["normalize"]}
        if p.get("tols_off"):
            # only max_iter (or the algorithm's own convergence test) ends the run
            kw.update(xtol_rel=0.0, xtol_abs=0.0, ftol_rel=0.0, ftol_abs=0.0)
    else:
        kw = {"algo_name": p["algo"], "eval_jac": p["eval_jac"]}
        if p["algo"] == "CustomDOE":
            kw["samples"] = np.array([_grid_point(p, idx) for idx in p["samples"]])
        else:
            kw["n_samples"] = p["budget"]
            if p["algo"] == "LHS":
                kw["seed"] = p["seed"]
    if reset is not None:
        kw["reset_iteration_counters"] = reset
    # no tqdm bar: its class-wide multiprocessing lock and monitor thread would be shared with / copied into the
    # forked children, and a child killed while its monitor thread holds that lock blocks every other process
    kw["enable_progress_bar"] = False
    return kw


def warm_settings(p):
    """The first execution of the "warm_load" script shape (no backup is set yet)."""
    if p["kind"] == "mdo":
        kw = algo_settings(dict(p, budget=3), None)
    else:
        kw = {"algo_name": "CustomDOE", "eval_jac": p["eval_jac"], "enable_progress_bar": False,
              "samples": np.array([_grid_point(p, idx) for idx in p["warm_samples"]])}
    return kw


def backup_kwargs(p):
    return {
        "at_each_function_call": p["policy"] in ("call", "both"),
        "at_each_iteration": p["policy"] in ("iter", "both"),
    }


def snapshot(db):
    """(key, {name: array}) in database order, copied."""
    out = []
    for key, values in db.items():
        out.append((np.array(key.wrapped_array, copy=True), {str(n): np.array(v, copy=True) for n, v in values.items()}))
    return out


# --------------------------------------------------------------------------- code that runs in forked children
def child_run(p, path, mode: str, crash_at: int | None, record_stores: bool):
    """Run the scenario of ``p`` with its backup on ``path``.

    mode: "fresh" (file used as found, must be absent), "load" (load=True), "erase" (erase=True),
    "warm" (the script executes once without backup, then sets the backup with load=True - the file may or may
    not exist - and executes again; the same script serves for the crashed run and for its re-run).
    """
    from gemseo.algos.database import Database

    state = {"n": 0}
    events = []  # ("exec", k, name, x) | ("store", is_new_iteration, snapshot)

    def hook(name, x):
        state["n"] += 1
        if crash_at is not None and state["n"] == crash_at:
            os._exit(CRASH_CODE)
        events.append(("exec", state["n"], name, x.copy()))

    scenario = build_scenario(p, hook)
    problem = scenario.formulation.optimization_problem
    database = problem.database
    if mode != "warm":
        scenario.set_optimization_history_backup(path, load=mode == "load", erase=mode == "erase", **backup_kwargs(p))
        initial = snapshot(database)
    if record_stores:
        original_store = Database.store

        def store(self, x_vect, outputs):
            if self is not database:
                return original_store(self, x_vect, outputs)
            # The state this call produces is logged BEFORE the listeners run (they may execute disciplines,
            # e.g. to evaluate an observable): entry appended or completed, by the documented rule.
            before = self.get(x_vect)
            is_new_iteration = bool(outputs) and not before
            key = np.array(getattr(x_vect, "wrapped_array", x_vect), copy=True)
            model = snapshot(self)
            for x_m, values_m in model:
                if same_key(x_m, key):
                    values_m.update({str(n): np.array(v, copy=True) for n, v in outputs.items()})
                    break
            else:
                model.append((key, {str(n): np.array(v, copy=True) for n, v in outputs.items()}))
            events.append(("store", is_new_iteration, model))
            original_store(self, x_vect, outputs)
            return None

        Database.store = store  # this process only (forked child)
    n_exec_before = 0
    if mode == "warm":
        scenario.execute(**warm_settings(p))
        n_exec_before = state["n"]
        scenario.set_optimization_history_backup(path, load=True, **backup_kwargs(p))
        initial = snapshot(database)
        events.append(("backup_set",))
    # the first run of an absent/erased file is a plain run; runs that load follow the drawn restart protocol
    scenario.execute(**algo_settings(p, p["reset"] if mode in ("load", "warm") else None))
    result = scenario.optimization_result
    return {
        "events": events,
        "initial": initial,
        "final": snapshot(database),
        "n_exec": state["n"],
        "n_exec_before": n_exec_before,  # executions before the backup was set ("warm" script shape)
        "ineq_tolerance": float(problem.tolerances.inequality),
        "objective_name": str(problem.objective.name),  # "f", or "-f" when maximising (the stored, minimised quantity)
        "result": {
            "x_opt": None if result.x_opt is None else np.array(result.x_opt, copy=True),
            "f_opt": None if result.f_opt is None else float(np.real(np.atleast_1d(result.f_opt)[0])),
            "is_feasible": bool(result.is_feasible),
            "constraints": {str(k): np.array(v, copy=True) for k, v in (result.constraint_values or {}).items()},
        },
    }


def child_run_parallel(p, path, c: int, fail: set, marker_path: str, points):
    """Interrupted parallel DOE: n_processes=2, the process dies while sample ``c`` is being evaluated.

    The schedule is made deterministic by the harness discipline (running in gemseo's worker processes): samples
    before ``c`` complete, except those of ``fail`` which raise (a transient failure: the entry registered up front
    stays without outputs); the execution of sample ``c`` waits until all of them are stored and backed up, then
    kills the main process; an execution of a later sample waits for that death.
    """
    import time

    main_pid = os.getpid()
    index_of = {np.asarray(x).tobytes(): j for j, x in enumerate(points)}
    n_before = len([j for j in range(c) if j not in fail])
    devnull = os.open(os.devnull, os.O_WRONLY)
    os.dup2(devnull, 2)  # tracebacks of the transient failures logged by the workers

    def stored() -> int:
        try:
            with open(marker_path) as fh:
                return int(fh.read() or 0)
        except (OSError, ValueError):
            return 0

    def hook(name, x):
        j = index_of.get(np.asarray(x).tobytes())
        if j is None or os.getpid() == main_pid:
            os._exit(6)  # harness assumption broken: unknown point, or execution in the main process
        if j < c:
            if j in fail:
                raise ValueError("transient failure of this evaluation")
            return
        t0 = time.monotonic()
        if j == c:
            while stored() < n_before and time.monotonic() - t0 < 60:
                time.sleep(0.005)
            if stored() < n_before:
                os._exit(7)
            os.kill(main_pid, signal.SIGKILL)
        while os.getppid() == main_pid and time.monotonic() - t0 < 60:
            time.sleep(0.005)
        os._exit(0)

    scenario = build_scenario(p, hook)
    database = scenario.formulation.optimization_problem.database
    scenario.set_optimization_history_backup(path, **backup_kwargs(p))

    def marker(x_vect):  # registered after the backup listener: the file is up to date when the count is published
        n = sum(1 for values in database.values() if values)
        with open(marker_path + ".tmp", "w") as fh:
            fh.write(str(n))
        os.replace(marker_path + ".tmp", marker_path)

    database.add_new_iter_listener(marker)
    settings = algo_settings(p, None)
    settings["n_processes"] = 2
    scenario.execute(**settings)
    return {"ended": True}


def _spawn(fn, out_path: str) -> int:
    if threading.active_count() != 1:
        raise HarnessError(f"C12: {threading.active_count()} threads alive before a fork: {[t.name for t in threading.enumerate()]}")
    pid = os.fork()
    if pid != 0:
        return pid
    code = 3
    try:
        os.setsid()  # own process group: whatever the child leaves behind (pool workers, managers) is killed with it
        signal.alarm(CHILD_TIMEOUT_S)
        doc = {"ok": fn()}
        code = 0
    except BaseException as exc:  # noqa: BLE001
        frames = [f.filename for f in traceback.extract_tb(exc.__traceback__)]
        doc = {"error": {"type": type(exc).__name__, "message": str(exc)[:2000], "traceback": traceback.format_exc()[-6000:], "frames": frames}}
    try:
        with open(out_path + ".tmp", "wb") as fh:
            pickle.dump(doc, fh)
        os.replace(out_path + ".tmp", out_path)
    except BaseException:  # noqa: BLE001
        code = 4
    finally:
        os._exit(code)
    return 0  # unreachable


def _kill_group(pid: int) -> None:
    """Kill what is left of the process group of a child (orphaned workers of a parallel DOE, its manager)."""
    try:
        os.killpg(pid, signal.SIGKILL)
    except (ProcessLookupError, PermissionError):
        pass


def run_children(tasks, workers: int):
    """Run ``fn`` of every (fn, out_path) in a forked child, at most ``workers`` at a time.

    Returns, in task order, (exit code or -signal, document or None).  Every child is reaped.
    """
    codes = [None] * len(tasks)
    running: dict[int, int] = {}
    todo = list(enumerate(tasks))
    todo.reverse()
    try:
        while todo or running:
            while todo and len(running) < workers:
                i, (fn, out_path) = todo.pop()
                running[_spawn(fn, out_path)] = i
            pid, status = os.waitpid(-1, 0)
            if pid in running:
                codes[running.pop(pid)] = os.waitstatus_to_exitcode(status)
                _kill_group(pid)
    finally:
        for pid in list(running):
            _kill_group(pid)
            try:
                os.kill(pid, signal.SIGKILL)
            except ProcessLookupError:
                pass
            try:
                os.waitpid(pid, 0)
            except ChildProcessError:
                pass
    out = []
    for (fn, out_path), code in zip(tasks, codes):
        doc = None
        if os.path.exists(out_path):
            with open(out_path, "rb") as fh:
                doc = pickle.load(fh)
        out.append((code, doc))
    return out


def child_document(ctx, code, doc, what: str, expect_crash: bool = False, **info):
    """Turn the fate of a child into its document, a violation or a harness error."""
    if expect_crash and code == CRASH_CODE:
        return None
    if doc is not None and "error" in doc:
        err = doc["error"]
        frames = err["frames"]
        harness = not frames or (str(VERIF) in frames[-1] and "/.deps/" not in frames[-1])
        if harness:
            raise HarnessError(f"C12 {what}: exception in harness code of a child\n{err['traceback']}")
        where = ""
        for fr in reversed(frames):
            if "/gemseo/" in fr:
                where = " in " + fr.split("/gemseo/")[-1]
                break
        ctx.fail("child_exception", f"{what}: {err['type']}: {err['message']}{where}", **info)
    if expect_crash:
        ctx.fail("crash_point_reached", f"{what}: the run ended (exit code {code}) before its execution number k, the reference run has one", **info)
    if code != 0 or doc is None:
        raise HarnessError(f"C12 {what}: child ended with code {code} and {'no' if doc is None else 'a'} document")
    return doc["ok"]


# --------------------------------------------------------------------------- comparisons
def same_key(a, b) -> bool:
    return a.dtype == b.dtype and a.shape == b.shape and a.tobytes() == b.tobytes()


def phys_key(x):
    """Bytes of the physical point (None for a complex-step perturbed point): float64 and complex128 copies agree."""
    x = np.asarray(x)
    if np.iscomplexobj(x) and bool(np.any(x.imag != 0)):
        return None
    return np.ascontiguousarray(x.real, dtype=float).tobytes()


def same_value(a, b) -> bool:
    a, b = np.asarray(a), np.asarray(b)
    return a.shape == b.shape and bool(np.array_equal(a, b))


def diff_snapshots(actual, expected, prefix_only: bool = False, subset_names: bool = False):
    """None when equal, else a sentence. Exact comparison: the file stores float64 verbatim."""
    if prefix_only:
        if len(actual) < len(expected):
            return f"{len(actual)} entries, expected at least {len(expected)}"
    elif len(actual) != len(expected):
        return f"{len(actual)} entries, expected {len(expected)}"
    for i, ((xa, va), (xe, ve)) in enumerate(zip(actual, expected)):
        if not same_key(xa, xe):
            return f"entry {i}: point {xa.tolist()} (dtype {xa.dtype}), expected {xe.tolist()}"
        if (not set(ve) <= set(va)) if subset_names else (set(va) != set(ve)):
            return f"entry {i}: functions {sorted(va)}, expected {sorted(ve)}"
        for name in ve:
            if not same_value(va[name], ve[name]):
                return f"entry {i}: {name} = {np.asarray(va[name]).tolist()} (shape {np.asarray(va[name]).shape}), expected {np.asarray(ve[name]).tolist()} (shape {np.asarray(ve[name]).shape})"
    return None


def load_backup(path):
    """Snapshot of the backup file through Database.from_hdf (None: no file)."""
    from gemseo.algos.database import Database

    if not os.path.exists(path):
        return None
    return snapshot(Database.from_hdf(path, log=False))


def expected_backup(events, initial_file, policy: str, k: int):
    """The content the policy implies at the start of execution k (None: file absent or empty)."""
    expected = initial_file
    armed = not any(ev[0] == "backup_set" for ev in events)  # stores made before the backup is set write nothing
    for ev in events:
        if ev[0] == "exec":
            if ev[1] == k:
                return expected
        elif ev[0] == "backup_set":
            armed = True
        elif armed and (policy in ("call", "both") or ev[1]):
            expected = ev[2]
    raise HarnessError(f"C12: the reference run has no execution {k}")


def violation_measure(g, tol) -> float:
    return float(np.sum(np.maximum(np.atleast_1d(np.real(np.asarray(g))).astype(float) - tol, 0.0) ** 2))


# --------------------------------------------------------------------------- the case
_WARM = {"done": False}


def warm_up():
    """Import everything and fill the factories' caches in the parent, so that forks are cheap."""
    if _WARM["done"]:
        return
    import h5py  # noqa: F401
    import tqdm
    from gemseo.algos.database import Database  # noqa: F401

    tqdm.tqdm.monitor_interval = 0  # never start a monitor thread in a process that forks

    base = {"n_x": 1, "structure": "chain", "observable": False, "diff": "user", "bounds": 0, "x0": [3], "a": [1], "w": [1], "c": 0, "u": 0, "s": [1], "t": 0, "r": 1,
            "policy": "call", "initial": "absent", "prefix_at": 0, "normalize": False, "budget": 2, "reset": False,
            "maximize": False, "eval_jac": False, "seed": 1, "samples": [[1], [2]]}
    variants = [{}, {"structure": "idf", "observable": True, "diff": "complex_step", "eval_jac": True},
                {"structure": "single", "observable": True, "diff": "finite_differences", "eval_jac": True}]
    for kind, algos in (("mdo", MDO_ALGOS), ("doe", DOE_ALGOS)):
        for algo in algos:
            for variant in variants:
                p = dict(base, kind=kind, algo=algo, **variant)
                scenario = build_scenario(p, lambda name, x: None)
                scenario.execute(**algo_settings(p, None))
    _WARM["done"] = True


def descriptor(p) -> str:
    return "/".join([
        p["kind"], p["algo"], structure_of(p) + ("+obs" if p.get("observable") else ""), p.get("diff", "user"), f"x{p['n_x']}", p["policy"], p["initial"],
        "norm" if p["normalize"] else "phys", f"b{p['budget']}", "reset" if p["reset"] else "keep",
        "max" if p.get("maximize") else "min", *(["parallel"] if p.get("parallel") else []), *(["no_x0"] if p.get("no_x0") else []),
    ])


def case_crash(p, ctx):
    warm_up()
    workers = n_workers(ctx)
    work = tempfile.mkdtemp(prefix="c12-", dir=os.environ["VERIF_SCRATCH"])
    try:
        _case(p, ctx, work, workers)
    finally:
        shutil.rmtree(work, ignore_errors=True)


def _check_restarts(p, ctx, desc, ref, dirs, backups, workers, warm, n_full, budget_bound):
    """Restart (a fresh forked child with load=True, or the re-run of the script) from every crashed backup."""
    # ---- restart from every crashed backup
    restart_mode = "warm" if warm else "load"  # the re-run of the same script / the documented restart
    tasks = [(lambda path=path: child_run(p, path, restart_mode, None, False), os.path.join(d, "restart.pkl")) for k, d, path in dirs]
    restart_out = run_children(tasks, workers)
    for (k, d, path), (code, doc) in zip(dirs, restart_out):
        rs = child_document(ctx, code, doc, f"restart after the crash at execution {k} [{desc}]", k=k)
        backup = backups[k]
        final = rs["final"]
        exact = {(str(x.dtype), x.tobytes()): i for i, (x, _) in enumerate(final)}
        by_point = {}
        for i, (x, _) in enumerate(final):
            by_point.setdefault(phys_key(x), i)

        # loaded entries are kept, first and in order
        expected_initial = backup
        if warm:
            # the script already holds its first batch when it loads: those entries, completed / followed by the backup's
            # (a backup written after the first batch starts with them, so this is the backup itself unless it is empty)
            expected_initial = [(x, dict(vals)) for x, vals in ref["initial"]]
            for x_b, vals_b in backup:
                for x_e, vals_e in expected_initial:
                    if same_key(x_e, x_b):
                        vals_e.update(vals_b)
                        break
                else:
                    expected_initial.append((x_b, dict(vals_b)))
        msg = diff_snapshots(rs["initial"], expected_initial)
        ctx.check(msg is None, "loaded_kept", f"restart after crash {k}: database after load=True differs from the backup: {msg}", k=k)
        msg = diff_snapshots(final, backup, prefix_only=True, subset_names=True)
        ctx.check(msg is None, "loaded_kept", f"restart after crash {k}: loaded entries changed at the end of the run: {msg}", k=k)

        # no rework
        in_backup = {phys_key(x): (x, vals) for x, vals in backup}
        ref_keys = {(str(x.dtype), x.tobytes()) for x, _ in ref["final"]}
        n_replayed = 0
        for ev in rs["events"]:
            if ev[0] != "exec" or ev[1] <= rs["n_exec_before"]:
                continue  # executions of the script before it set (and loaded) the backup
            _, _, name, x = ev
            hit = in_backup.get(phys_key(x)) if phys_key(x) is not None else None
            if hit is None:
                continue
            x_b, vals = hit
            if not same_key(np.asarray(x), x_b) and (str(np.asarray(x).dtype), np.asarray(x).tobytes()) in ref_keys:
                # same physical point under a key of another dtype (complex-step runs mix complex128 and float64
                # requests of one point): the uninterrupted run evaluates it under this key as well
                ctx.cls("same_point_under_two_key_dtypes")
                continue
            n_replayed += 1
            i = exact.get((str(x_b.dtype), x_b.tobytes()))
            new_names = set(final[i][1]) - set(vals) if i is not None else set()
            ctx.check(bool(new_names), "no_rework",
                      f"restart after crash {k}: discipline {name} executed at {x.tolist()} although the backup holds {sorted(vals)} there and nothing new was stored",
                      k=k, point=x.tolist())
        if n_replayed:
            ctx.cls("restart_completes_a_partial_entry")
        if backup and rs["n_exec"] < ref["n_exec"]:
            ctx.cls("restart_saves_executions")

        # optimum at least as good as the best loaded one
        tol = rs["ineq_tolerance"]
        res = rs["result"]
        obj = rs["objective_name"]
        complete = [vals for _, vals in backup if obj in vals and ("g" in vals or not has_constraint(p))]
        feasible = [float(np.real(np.atleast_1d(vals[obj])[0])) for vals in complete if not has_constraint(p) or bool(np.all(np.asarray(vals["g"]) <= tol))]
        if feasible:
            best = min(feasible)
            ctx.check(res["is_feasible"], "optimum", f"restart after crash {k}: reported optimum infeasible, the backup holds a feasible point", k=k)
            # the stored (standardised: minimised) objective at the reported point; no sign convention of f_opt involved
            i_opt = by_point.get(phys_key(res["x_opt"])) if res["x_opt"] is not None else None
            ctx.check(i_opt is not None and obj in final[i_opt][1], "optimum",
                      f"restart after crash {k}: reported optimum {res['x_opt']} has no recorded objective", k=k)
            reported = float(np.real(np.atleast_1d(final[i_opt][1][obj])[0]))
            ctx.check(reported <= best, "optimum",
                      f"restart after crash {k}: reported point has {obj} = {reported}, the backup holds a feasible point with {best}", k=k)
            ctx.cls("restart_with_feasible_loaded_point")
        elif complete and not res["is_feasible"]:
            g_rep = res["constraints"].get("g")
            if g_rep is None or np.asarray(g_rep).dtype == object:
                # The reported point is a partially recorded one (e.g. the loaded incomplete entry that a normalised
                # restart missed by an ulp): no violation measure is defined for it (C04's assumption, P16).
                ctx.cls("restart_reports_partially_recorded_point")
            else:
                least = min(violation_measure(vals["g"], tol) for vals in complete)
                # relative margin 1e-9: the code sums squares in its own order
                ctx.check(violation_measure(g_rep, tol) <= least * (1 + 1e-9), "optimum",
                          f"restart after crash {k}: reported violation {violation_measure(g_rep, tol)}, a loaded point has {least}", k=k)
                ctx.cls("restart_with_only_infeasible_loaded_points")

        # the restored counter: a run completed with reset_iteration_counters=False stays within max_iter
        if p["kind"] == "mdo" and not p["reset"]:
            ctx.check(len(final) <= p["budget"], "counter_restored",
                      f"restart after crash {k} (reset_iteration_counters=False, {len(backup)} loaded entries): {len(final)} entries, max_iter={p['budget']}", k=k)
            if budget_bound:
                ctx.cls("restart_keeping_counters_of_a_run_stopped_by_max_iter")

        # same history as the uninterrupted run
        if not p["normalize"]:
            expected_final = ref["final"]
            missing_obs = [i for i, (_, vals) in enumerate(backup) if "o" not in vals and i < len(final) and "o" not in final[i][1]]
            if p["kind"] == "mdo" and p.get("observable") and missing_obs and ctx.known(KNOWN_OBSERVABLE):
                # exactly that class: the observable is not required at loaded entries that came without it
                expected_final = [(x, {n: v for n, v in vals.items() if not (n == "o" and i in missing_obs)})
                                  for i, (x, vals) in enumerate(ref["final"])]
            if not p["reset"] and any(not vals for _, vals in backup) and ctx.known(KNOWN_EMPTY_ENTRIES):
                # exactly that class: the loaded backup holds entries without outputs (interrupted parallel DOE) and
                # the counter restored from it is kept: the restarted DOE stops at once
                ctx.cls("history_not_compared_known_finding_empty_entries")
                continue
            if not p["reset"]:
                msg = diff_snapshots(final, expected_final)
                if msg is not None and p["kind"] == "mdo" and len(backup) == n_full and ctx.known(KNOWN_LAST_ENTRY):
                    # exactly that class: the crash came after the store whose new-iteration event stopped the
                    # uninterrupted run; the restarted run may complete this last entry and even go on (within
                    # max_iter, checked above): only the prefix relation is required
                    msg = diff_snapshots(final[: n_full - 1], expected_final[: n_full - 1]) or diff_snapshots(
                        final[n_full - 1:], expected_final[n_full - 1:], prefix_only=True, subset_names=True)
                    ctx.check(msg is None, "same_history", f"restart after crash {k} (reset_iteration_counters=False): final history differs from the uninterrupted run: {msg}", k=k)
                    ctx.cls("history_equality_checked_up_to_known_findings")
                    continue
                msg = diff_snapshots(final, expected_final)
                ctx.check(msg is None, "same_history", f"restart after crash {k} (reset_iteration_counters=False): final history differs from the uninterrupted run: {msg}", k=k)
                ctx.check(same_value(res["x_opt"], ref["result"]["x_opt"]) and res["f_opt"] == ref["result"]["f_opt"], "same_history",
                          f"restart after crash {k}: optimum {res['x_opt']}, {res['f_opt']} differs from the uninterrupted run's {ref['result']['x_opt']}, {ref['result']['f_opt']}", k=k)
                ctx.cls("history_equality_checked")
            else:
                msg = diff_snapshots(final, expected_final, prefix_only=True, subset_names=True)
                ctx.check(msg is None, "history_prefix", f"restart after crash {k} (reset_iteration_counters=True): the uninterrupted history is not a prefix of the restarted one: {msg}", k=k)
                ctx.cls("history_prefix_checked")
                if len(final) > n_full:
                    ctx.cls("restart_goes_beyond_the_uninterrupted_run")


def _case_parallel(p, ctx, work, workers):
    """Interrupted parallel DOE: every sample as the one in progress when the process dies."""
    desc = descriptor(p)
    policy = p["policy"]
    path0 = os.path.join(work, "scratch_ref.h5")
    (code, doc), = run_children([(lambda: child_run(p, path0, "fresh", None, True), os.path.join(work, "scratch_ref.pkl"))], 1)
    ref = child_document(ctx, code, doc, f"uninterrupted sequential run [{desc}]")
    points = [ev[3] for ev in ref["events"] if ev[0] == "exec"]
    n = len(points)
    if n != len(ref["final"]) or len({x.tobytes() for x in points}) != n:
        raise HarnessError(f"C12: parallel configuration without one execution per distinct sample: {desc}")
    n_full = n
    fail = {j for j in range(n) if (p["fail_mask"] >> j) & 1}
    value_of = {x.tobytes(): vals for x, vals in ref["final"]}
    ctx.cls("kind_doe", f"algo_{p['algo']}", f"policy_{policy}", "initial_absent", "structure_single", "doe_parallel_interrupted",
            "restart_reset_counters" if p["reset"] else "restart_keeps_counters", "maximize" if p.get("maximize") else "minimize")

    dirs, tasks = [], []
    for c in range(n):
        d = os.path.join(work, f"k{c + 1}")
        os.mkdir(d)
        path = os.path.join(d, "backup.h5")
        dirs.append((c + 1, d, path))
        tasks.append((lambda c=c, d=d, path=path: child_run_parallel(p, path, c, fail, os.path.join(d, "stored"), points), os.path.join(d, "crash.pkl")))
    crash_out = run_children(tasks, workers)
    ctx.evaluations += n - 1
    ctx.extra["configurations"] = ctx.extra.get("configurations", 0) + (0 if ctx.replaying else 1)
    ctx.extra["crash_points"] = ctx.extra.get("crash_points", 0) + (0 if ctx.replaying else n)
    ctx.extra["max_crash_points_per_configuration"] = max(ctx.extra.get("max_crash_points_per_configuration", 0), n)
    if not ctx.replaying:
        ctx.extra.setdefault("crash_points_per_configuration", []).append(f"{desc}: K={n}, full history {n_full}")

    backups = {}
    for (k, d, path), (code, doc) in zip(dirs, crash_out):
        c = k - 1
        if code != -signal.SIGKILL:
            child_document(ctx, code, doc, f"parallel run interrupted at sample {c} [{desc}]", k=k)
            raise HarnessError(f"C12: parallel run interrupted at sample {c} ended with code {code} instead of being killed [{desc}]")
        done = [j for j in range(c) if j not in fail]
        if not done and policy == "iter":
            exp = None  # no new iteration before the death: nothing was exported
        else:
            exp = [(points[j], dict(value_of[points[j].tobytes()]) if j in done else {}) for j in range(n)]
        try:
            got = load_backup(path)
        except Exception as exc:  # noqa: BLE001
            ctx.fail("backup_loads", f"parallel DOE interrupted at sample {c}: Database.from_hdf fails: {type(exc).__name__}: {exc}", k=k)
        if exp is None:
            ctx.check(not got, "backup_content", f"parallel DOE interrupted at sample {c}: backup holds {len(got or [])} entries, no evaluation was completed", k=k)
        else:
            ctx.check(got is not None, "backup_loads", f"parallel DOE interrupted at sample {c}: no backup file, {len(done)} evaluations were completed", k=k)
            msg = diff_snapshots(got, exp)
            ctx.check(msg is None, "backup_content", f"parallel DOE interrupted at sample {c} (failed samples {sorted(j for j in fail if j < c)}, policy {policy}): {msg}", k=k)
        backups[k] = got or []
        n_b = sum(1 for _, vals in backups[k] if vals)
        if 0 < n_b < n_full:
            ctx.nontriv((p, k))
            ctx.cls("crash_point_nontrivial")
        else:
            ctx.cls("crash_point_empty_backup")
        seen_empty = False
        for _, vals in backups[k]:
            if not vals:
                seen_empty = True
            elif seen_empty:
                ctx.cls("backup_with_empty_entry_before_a_complete_one")
                break
    _check_restarts(p, ctx, desc, ref, dirs, backups, workers, False, n_full, False)
    ctx.sample({"configuration": p, "crash_points": n, "entries_full_run": n_full,
                "backup_sizes": [sum(1 for _, vals in backups[k] if vals) for k in sorted(backups)]})


def _case(p, ctx, work, workers):
    if p.get("parallel"):
        return _case_parallel(p, ctx, work, workers)
    desc = descriptor(p)
    policy, initial_mode = p["policy"], p["initial"]

    # ---- from-scratch reference run (the reference itself when the file is absent or erased)
    path0 = os.path.join(work, "scratch_ref.h5")
    warm = initial_mode == "warm_load"
    (code, doc), = run_children([(lambda: child_run(p, path0, "warm" if warm else "fresh", None, True), os.path.join(work, "scratch_ref.pkl"))], 1)
    scratch_ref = child_document(ctx, code, doc, f"uninterrupted run [{desc}]")
    k0 = scratch_ref["n_exec"]
    if k0 == 0:
        raise HarnessError(f"C12: no discipline execution in {desc}")

    # ---- the earlier run's prefix
    prefix_path, prefix_snapshot, prefix_k = None, None, None
    if initial_mode in ("prefix_load", "prefix_erase"):
        prefix_k = 2 + p["prefix_at"] % (k0 - 1) if k0 >= 2 else 1
        prefix_path = os.path.join(work, "prefix.h5")
        (code, doc), = run_children([(lambda: child_run(p, prefix_path, "fresh", prefix_k, False), os.path.join(work, "prefix.pkl"))], 1)
        child_document(ctx, code, doc, f"earlier run crashed at {prefix_k} [{desc}]", expect_crash=True, k=prefix_k)
        prefix_snapshot = load_backup(prefix_path)
        msg = None
        exp = expected_backup(scratch_ref["events"], None, policy, prefix_k)
        if exp is None:
            if prefix_snapshot:
                msg = f"{len(prefix_snapshot)} entries, expected none"
        elif prefix_snapshot is None:
            msg = "no backup file"
        else:
            msg = diff_snapshots(prefix_snapshot, exp)
        ctx.check(msg is None, "backup_content", f"earlier run crashed at execution {prefix_k}: backup differs from the uninterrupted run: {msg}", k=prefix_k)

    # ---- reference run of the configuration
    if initial_mode == "prefix_load" and prefix_snapshot is not None:
        ref_path = os.path.join(work, "ref.h5")
        shutil.copyfile(prefix_path, ref_path)
        (code, doc), = run_children([(lambda: child_run(p, ref_path, "load", None, True), os.path.join(work, "ref.pkl"))], 1)
        ref = child_document(ctx, code, doc, f"uninterrupted run from the loaded prefix [{desc}]")
        initial_file = prefix_snapshot
        run_mode = "load"
        msg = diff_snapshots(ref["initial"], prefix_snapshot)
        ctx.check(msg is None, "loaded_kept", f"database after load=True differs from Database.from_hdf of the same file: {msg}")
    else:
        ref = scratch_ref
        initial_file = None
        run_mode = "erase" if (initial_mode == "prefix_erase" and prefix_snapshot is not None) else ("warm" if warm else "fresh")
    n_full = len(ref["final"])
    # "warm" script shape: the crash points are the executions after the backup was set (before, there is no file)
    first_k = ref["n_exec_before"] + 1 if warm else 1
    n_crash = ref["n_exec"] - first_k + 1
    ctx.cls(f"kind_{p['kind']}", f"algo_{p['algo']}", f"policy_{policy}", f"initial_{initial_mode}", f"structure_{structure_of(p)}", f"differentiation_{p.get('diff', 'user')}",
            "with_observable" if p.get("observable") else "without_observable",
            "normalized" if p["normalize"] else "not_normalized", "restart_reset_counters" if p["reset"] else "restart_keeps_counters",
            "maximize" if p.get("maximize") else "minimize", *(["design_space_without_current_value"] if p.get("no_x0") else []))
    if n_crash <= 0:
        ctx.cls("loaded_prefix_leaves_nothing_to_execute")
        ctx.evaluations -= 1  # no crash point in this configuration
        return
    budget_bound = p["kind"] == "mdo" and n_full >= p["budget"]
    if p["kind"] == "mdo":
        ctx.cls("mdo_stopped_by_max_iter" if budget_bound else "mdo_converged_before_budget")
    if any(ev[0] == "store" and any(n.startswith("@") for _, vals in ev[2] for n in vals) for ev in ref["events"]):
        ctx.cls("config_with_gradients_in_database")

    # ---- every crash point
    dirs = []
    tasks = []
    for k in range(first_k, first_k + n_crash):
        d = os.path.join(work, f"k{k}")
        os.mkdir(d)
        path = os.path.join(d, "backup.h5")
        if run_mode in ("load", "erase"):
            shutil.copyfile(prefix_path, path)
        dirs.append((k, d, path))
        tasks.append((lambda k=k, path=path: child_run(p, path, run_mode, k, False), os.path.join(d, "crash.pkl")))
    crash_out = run_children(tasks, workers)
    ctx.evaluations += n_crash - 1  # ctx.drive counted the configuration as one
    ctx.extra["configurations"] = ctx.extra.get("configurations", 0) + (0 if ctx.replaying else 1)
    ctx.extra["crash_points"] = ctx.extra.get("crash_points", 0) + (0 if ctx.replaying else n_crash)
    ctx.extra["max_crash_points_per_configuration"] = max(ctx.extra.get("max_crash_points_per_configuration", 0), n_crash)
    if not ctx.replaying:
        ctx.extra.setdefault("crash_points_per_configuration", []).append(f"{desc}: K={n_crash}, full history {n_full}")

    backups = {}
    for (k, d, path), (code, doc) in zip(dirs, crash_out):
        child_document(ctx, code, doc, f"run crashing at execution {k} [{desc}]", expect_crash=True, k=k)
        exp = expected_backup(ref["events"], initial_file, policy, k)
        try:
            got = load_backup(path)
        except Exception as exc:  # noqa: BLE001
            ctx.fail("backup_loads", f"crash at execution {k}: Database.from_hdf fails: {type(exc).__name__}: {exc}", k=k)
        if exp is None:
            ctx.check(not got, "backup_content", f"crash at execution {k}: backup holds {len(got or [])} entries, nothing was stored before the crash", k=k)
            ctx.cls("crash_point_empty_prefix_no_file" if got is None else "crash_point_empty_prefix_empty_file")
        else:
            ctx.check(got is not None, "backup_loads", f"crash at execution {k}: no backup file, {len(exp)} entries were stored before the crash", k=k)
            msg = diff_snapshots(got, exp)
            ctx.check(msg is None, "backup_content", f"crash at execution {k} (policy {policy}): {msg}", k=k, n_expected=len(exp))
        backups[k] = got or []
        n_b = len(backups[k])
        if 0 < n_b < n_full:
            ctx.nontriv((p, k))
            ctx.cls("crash_point_nontrivial")
        elif n_b == 0:
            ctx.cls("crash_point_empty_backup")
        else:
            ctx.cls("crash_point_backup_has_all_points")
        if backups[k] and set(backups[k][-1][1]) != set(ref["final"][len(backups[k]) - 1][1]):
            ctx.cls("crash_point_last_entry_partial")

    _check_restarts(p, ctx, desc, ref, dirs, backups, workers, warm, n_full, budget_bound)
    ctx.sample({"configuration": p, "crash_points": n_crash, "entries_full_run": n_full,
                "backup_sizes": [len(backups[k]) for k in sorted(backups)]})


# one oracle (one Hypothesis stream, one bucket of failures) per algorithm: every run covers all six
ORACLES = {f"crash_{algo}": case_crash for algo in [*MDO_ALGOS, *DOE_ALGOS]}
QUICK = {"SLSQP": 6, "L-BFGS-B": 3, "NLOPT_COBYLA": 5, "LHS": 3, "PYDOE_FULLFACT": 3, "CustomDOE": 4}
THOROUGH = {"SLSQP": 8, "L-BFGS-B": 5, "NLOPT_COBYLA": 6, "LHS": 5, "PYDOE_FULLFACT": 4, "CustomDOE": 5}


# Stratum: backups at each iteration only, physical design vector handed to the functions as the optimiser owns it
# (no normalisation, no observable or approximated gradient copying it first) - SciPy SLSQP and NLopt reuse that buffer.
ITERATION_BACKUP = {"policy": "iter", "normalize": False, "observable": False, "diff": "user"}
for _algo in ("SLSQP", "NLOPT_COBYLA"):
    ORACLES[f"crash_{_algo}_iteration_backup"] = case_crash


def run(ctx):
    warm_up()
    ctx.extra["max_children_in_parallel_per_process"] = n_workers(ctx)
    for algo in [*MDO_ALGOS, *DOE_ALGOS]:
        ctx.drive(f"crash_{algo}", configs(algo), case_crash, quick=QUICK[algo], thorough=THOROUGH[algo])
    for algo in ("SLSQP", "NLOPT_COBYLA"):
        ctx.drive(f"crash_{algo}_iteration_backup", configs(algo, ITERATION_BACKUP), case_crash, quick=2, thorough=2)
