"""C13 - Parallel execution is order-preserving and equivalent to sequential execution.

Part 1 (oracles ``sched_*``): the harness owns the schedule of
``CallableParallelExecution.execute``.  Every task announces "started" on a shared board and
blocks on its own gate; the controller (the case function itself) waits until
``min(n_workers, remaining)`` tasks are running and opens the gate of the running task ranked
first by a generated priority permutation, then waits until the main loop of ``execute`` has
consumed that result (success: the harness callback; failure: the error record logged by
``execute``).  The realised completion order is therefore a deterministic function of the
payload and ranges over exactly the orders a FIFO pool of that many workers allows.

Part 2 (oracles ``doe``, ``chain``, ``disc``, ``fd``, ``cache``): derived equivalences between
the parallel features built on it and their sequential counterparts; completion orders are
perturbed by generated tiny delays that are never read by an oracle.
"""

from __future__ import annotations

import itertools
import logging
import multiprocessing
import os
import sys
import threading
import time

import numpy as np
from hypothesis import strategies as st

from vlib.core import HarnessError

logging.getLogger("gemseo").setLevel(logging.CRITICAL + 1)

PROPERTY = "C13"
LEVEL = "exploration"
RULE = (
    "sched_*: CallableParallelExecution.execute runs harness tasks that block on per-task gates; the case opens the "
    "gates in the order given by a priority permutation among the min(n_workers, remaining) running tasks and waits "
    "until execute has consumed each result, so the completion order is chosen by the payload. Enumerated: every "
    "feasible completion order x every worker count x every failure vector x {one callable per task, one shared "
    "callable} x {exceptions_to_re_raise empty, (ValueError,)}. Quick: threads, n_tasks<=3 with failure vectors in "
    "{ok, ValueError}^n (all failing subsets) plus a seeded 1/59 slice of the domain {ok, ValueError, custom "
    "exception}^n for n_tasks in {3, 4}; forked processes, 2 workers, n_tasks in {2, 3}, all failing subsets, the four "
    "modes taken in turn. Thorough (split by shard): threads n_tasks<=5, every worker count, {ok, ValueError, "
    "custom}^n; processes n_tasks<=4, <=3 workers. Beyond that Hypothesis draws n_tasks<=10 (processes <=7), worker "
    "counts 1..n_tasks+2, priorities, failure vectors (incl. a BaseException subclass), 1-3 callbacks (bare callable "
    "or list), task_submitted_callback and the re-raise set. Derived oracles draw small DOE problems (CustomDOE "
    "samples incl. repeated ones and a non-empty database, polynomial objective/constraints/observables, samples "
    "raising ValueError, eval_jac, n_processes 2-3 vs 1; when all samples are distinct the completion order of the "
    "parallel DOE is gated by the harness as above, otherwise perturbed by per-sample delays of 0-3 ms), "
    "MDOParallelChain / DiscParallelExecution / DiscParallelLinearization over generated polynomial disciplines "
    "(threads and processes, per-discipline delays, failing disciplines), FirstOrderFD parallel vs serial "
    "(f_gradient with component subsets, compute_optimal_step) and twin disciplines sharing one MemoryFullCache on "
    "inputs with duplicates; chain_inplace: thread MDOParallelChain of 2-3 disciplines reading the same inputs, with "
    "use_deep_copy=True some of them modify their input arrays in place (x*=2, x+=1, x/=4), the interleaving is owned by "
    "events (a drawn permutation of turns: a discipline touches its inputs only after the previous turn has finished), "
    "oracle = every output equals the discipline run alone on a fresh copy (with use_deep_copy=False inputs are read-only: "
    "no writer is drawn); exec_history: 2-3 executions of ONE DiscParallelExecution / MDOParallelChain (threads and "
    "processes) whose disciplines have an optional input that is given at one step and omitted at the next, after every "
    "step each discipline's io.data and io.get_input_data() (names and values) equal those of its sequential twin with the "
    "same history; chain_lin_history: MDOParallelChain whose members read different inputs, linearized at two points, after "
    "each the members' jac, their own linearization and their cache entry must equal a fresh sequential twin's Jacobian "
    "(same rows, same blocks) and the chain Jacobian the closed form. "
    "Non-trivial = schedule whose realised completion order differs from the submission order (fault cases: with "
    ">=1 failing and >=1 succeeding task); derived without gates: >=2 workers and >=2 tasks with unequal delays (DOE "
    "fault part: >=1 raising sample; cache: >=2 tasks with the same input; chain_inplace: a writer whose turn precedes "
    "another discipline's). Distinct = structural hash of (back-end, "
    "workers, realised order, failure vector, mode) resp. of the drawn payload."
)
ASSUMPTIONS = [
    "multiprocessing start method is fork (the platform default); spawn/forkserver are not exercised",
    "task outputs are never None and never exception instances (execute uses both as failure markers)",
    "the pool hands tasks to free workers in submission order; the harness does not rely on it (it counts running "
    "tasks) but the list of feasible completion orders is derived from it and the realised order is compared with it "
    "(schedules_realised_as_planned / schedules_diverged_from_plan)",
    "the consumption of a failed task's result is observed through the error record 'Failed to execute task indexed i' "
    "logged by execute; if the record is missing the schedule proceeds after a time-out and the case is counted in "
    "ack_timeouts (0 on the unchanged tree); oracles never depend on it",
    "a time-out of a harness wait (gate, start, leftover worker) is a harness error; a gemseo call that has not "
    "returned 45 s after every task was released without any harness time-out (or that involves no gate at all) is "
    "reported as a violation of sub-oracle 'termination'",
    "a shared MemoryFullCache is used with tolerance 0 and is_memory_shared=True",
    "DOE functions only raise ValueError (the exception the sequential DOE loop documents as a failed sample)",
    "the generated functions copy their input to a contiguous array, so that parallel (unpickled) and sequential "
    "(strided view) evaluations perform the same floating-point operations and can be compared bit for bit",
    "one discipline object executed on several inputs is only used with the process back-end (documented restriction)",
    "finite differences in parallel are only used with processes (with threads gemseo rejects the repeated worker)",
]

# --------------------------------------------------------------------------- time-outs (harness errors, never oracles)
GATE_TIMEOUT = 60.0      # a task waiting for its gate
START_TIMEOUT = 30.0     # the controller waiting for min(workers, remaining) running tasks
ACK_TIMEOUT = 3.0        # the controller waiting for execute to consume a released result
EXEC_TIMEOUT = 45.0      # the case waiting for execute to return once every gate is open
JOIN_TIMEOUT = 10.0      # leftover worker processes

SUBPROCESS_NAME = "subprocess"  # name given by gemseo to its workers
_PE_LOGGER = "gemseo.core.parallel_execution.callable_parallel_execution"
_FORK = multiprocessing.get_context("fork")
_DEVNULL = open(os.devnull, "w")  # noqa: SIM115  (workers print tracebacks of failed tasks to sys.stderr)


class _TaskFailure(RuntimeError):
    """Exception raised by a generated failing task (not in any re-raise set unless drawn)."""


class _TaskAbort(BaseException):
    """A failing task that raises outside the Exception hierarchy."""


class _GateTimeout(Exception):
    """A task was never released (harness error)."""


FAIL_TYPES = {1: ValueError, 2: _TaskFailure, 3: _TaskAbort}
RERAISE_SETS = {0: (), 1: (ValueError,), 2: (ValueError, _TaskFailure), 3: (KeyError,)}


# --------------------------------------------------------------------------- consumption acknowledgements
class _AckHandler(logging.Handler):
    """Turns execute's "Failed to execute task indexed i" record into an event of the current case."""

    sink = None  # dict index -> threading.Event of the running case

    def emit(self, record):
        sink = _AckHandler.sink
        if sink is None:
            return
        args = record.args
        if isinstance(args, tuple) and len(args) == 1 and isinstance(args[0], str) and args[0].isdigit():
            ev = sink.get(int(args[0]))
            if ev is not None:
                ev.set()


def _install_ack_handler():
    logger = logging.getLogger(_PE_LOGGER)
    if not any(isinstance(h, _AckHandler) for h in logger.handlers):
        logger.addHandler(_AckHandler())
    logger.setLevel(logging.ERROR)
    logger.propagate = False  # nothing is printed


# --------------------------------------------------------------------------- the board shared with the workers
class _Board:
    """started / go flags under one condition; threading or fork flavour."""

    def __init__(self, n: int, use_threading: bool):
        if use_threading:
            self.cond = threading.Condition()
            self.started = [0] * n
            self.go = [0] * n
            self.flags = [0]
        else:
            self.cond = _FORK.Condition()
            self.started = _FORK.RawArray("i", max(n, 1))
            self.go = _FORK.RawArray("i", max(n, 1))
            self.flags = _FORK.RawArray("i", 1)
        self.n = n

    def gate(self, i: int) -> None:
        """Called by task i from its worker: announce and block."""
        with self.cond:
            self.started[i] += 1
            self.cond.notify_all()
            ok = self.cond.wait_for(lambda: self.go[i], timeout=GATE_TIMEOUT)
            if not ok:
                self.flags[0] = 1
        if not ok:
            raise _GateTimeout(i)

    def open_all(self) -> None:
        with self.cond:
            for i in range(self.n):
                self.go[i] = 1
            self.cond.notify_all()


def _expected_output(who, x):
    return {"who": who, "id": x["id"], "y": 3 * x["v"] * x["v"] - x["v"] + (0 if who == "shared" else 7 * who)}


class _Task:
    """A task callable: gate keyed by the input's id, output depending on callable and input."""

    def __init__(self, board: _Board, who, fail):
        self.board, self.who, self.fail = board, who, fail

    def __call__(self, x):
        i = x["id"]
        self.board.gate(i)
        code = self.fail[i]
        if code:
            raise FAIL_TYPES[code](f"task {i} fails")
        return _expected_output(self.who, x)


def plan_order(n: int, w: int, prio) -> list:
    """Completion order of a FIFO pool of w workers when the running task of least prio[i] finishes first."""
    w = max(1, min(w, n))
    running, nxt, order = list(range(min(w, n))), min(w, n), []
    while running:
        t = min(running, key=lambda i: prio[i])
        running.remove(t)
        order.append(t)
        if nxt < n:
            running.append(nxt)
            nxt += 1
    return order


def feasible_orders(n: int, w: int):
    """Every completion order a FIFO pool of w workers allows (depth-first, lexicographic)."""
    w = max(1, min(w, n))

    def rec(running, nxt, done):
        if not running:
            yield list(done)
            return
        for t in list(running):
            rest = [r for r in running if r != t]
            if nxt < n:
                yield from rec(rest + [nxt], nxt + 1, done + [t])
            else:
                yield from rec(rest, nxt, done + [t])

    if n == 0:
        yield []
    else:
        yield from rec(list(range(w)), w, [])


def _reap_workers() -> int:
    """Join (then terminate) gemseo worker processes that outlived a case; returns how many were alive."""
    alive = 0
    for proc in multiprocessing.active_children():
        if proc.name != SUBPROCESS_NAME:
            continue  # the manager process of gemseo / of the harness
        proc.join(JOIN_TIMEOUT)
        if proc.is_alive():
            alive += 1
            proc.terminate()
            proc.join(JOIN_TIMEOUT)
    return alive


_ZOMBIES = set()  # worker threads of a call that never returned (reported as a violation); they cannot be killed


def _worker_threads():
    return [t for t in threading.enumerate() if t.name == SUBPROCESS_NAME and t.is_alive() and t.ident not in _ZOMBIES]


def _give_up_on_threads():
    for t in _worker_threads():
        _ZOMBIES.add(t.ident)


def run_gated(call, board: _Board, n: int, n_workers: int, prio, acks, stops, use_threading: bool, what: str):
    """Run ``call`` (which executes n gated tasks on n_workers workers) in a helper thread and drive its schedule.

    Repeatedly: wait until min(n_workers, remaining) tasks are running, open the gate of the running task of least
    ``prio``, wait until its result was consumed (``acks[i]``; no longer expected once a task with ``stops[i]`` was
    consumed).  Every wait is bounded; a time-out is reported in ``problems`` (-> HarnessError after the oracles) and
    the remaining gates are opened so that nothing stays blocked.

    Returns (box with "out" or "exc", realised order, problems, ack time-outs, workers that outlived the call).
    """
    box = {}

    def runner():
        try:
            box["out"] = call()
        except BaseException as exc:  # noqa: BLE001
            box["exc"] = exc
        finally:
            with board.cond:
                board.cond.notify_all()  # wake the controller if the call ended before every task started

    problems, released, ack_timeouts = [], [], 0
    old_stderr, sys.stderr = sys.stderr, _DEVNULL
    _AckHandler.sink = acks
    thread = threading.Thread(target=runner, name="c13-execute", daemon=True)
    try:
        thread.start()
        expecting_acks = True
        while len(released) < n:
            target = len(released) + min(n_workers, n - len(released))
            with board.cond:
                ok = board.cond.wait_for(
                    lambda: sum(1 for s in board.started[:n] if s) >= target or not thread.is_alive(), timeout=START_TIMEOUT
                )
                running = [i for i in range(n) if board.started[i] and not board.go[i]]
            if not ok or not running:
                if thread.is_alive() or not ok:
                    problems.append(f"only {sum(1 for s in board.started[:n] if s)} of {target} tasks started after {released}")
                break
            t = min(running, key=lambda i: prio[i])
            with board.cond:
                board.go[t] = 1
                board.cond.notify_all()
            released.append(t)
            if expecting_acks:
                if not acks[t].wait(ACK_TIMEOUT):
                    ack_timeouts += 1
                    expecting_acks = False  # the schedule is no longer under control: just drain it
                if stops[t]:
                    expecting_acks = False  # execute stops consuming after a re-raised failure
    finally:
        board.open_all()
        thread.join(EXEC_TIMEOUT)
        hung = thread.is_alive()
        _AckHandler.sink = None
        sys.stderr = old_stderr
        leftover = 0 if use_threading else _reap_workers()
        if use_threading:
            if hung:
                _give_up_on_threads()
            for t in _worker_threads():
                t.join(JOIN_TIMEOUT)
            leftover = len(_worker_threads())
    if board.flags[0]:
        raise HarnessError(f"a task waited {GATE_TIMEOUT}s for its gate: {what}")
    if hung and (problems or len(released) < n):
        raise HarnessError(f"the call did not return within {EXEC_TIMEOUT}s and the schedule could not be driven ({problems}): {what}")
    if hung:
        # every task was seen running and released by the controller, no wait of the harness timed out
        box["hung"] = True
        leftover = 0
    return box, released, problems, ack_timeouts, leftover


# --------------------------------------------------------------------------- the gated case
def case_sched(p, ctx):
    """One controlled schedule of CallableParallelExecution.execute."""
    from gemseo.core.parallel_execution.callable_parallel_execution import CallableParallelExecution

    _install_ack_handler()
    n, w = p["n"], p["w"]
    if n == 0 and ctx.known("execute_without_tasks"):
        return
    use_threading = p["back"] == "thread"
    prio, fail = list(p["prio"]), list(p["fail"])
    shared, n_cb = bool(p["shared"]), int(p.get("ncb", 1))
    reraise = RERAISE_SETS[p["reraise"]]
    vals = p.get("vals") or list(range(1, n + 1))
    if not (len(prio) == len(fail) == len(vals) == n and sorted(prio) == list(range(n))):
        raise HarnessError(f"malformed payload {p}")
    inputs = [{"id": i, "v": vals[i]} for i in range(n)]
    board = _Board(n, use_threading)
    workers = [_Task(board, "shared", fail)] if shared or n == 0 else [_Task(board, k, fail) for k in range(n)]
    expected = [None if fail[i] else _expected_output("shared" if shared else i, inputs[i]) for i in range(n)]
    stops = [bool(fail[i]) and issubclass(FAIL_TYPES[fail[i]], reraise) if reraise else False for i in range(n)]

    acks = {i: threading.Event() for i in range(n)}
    cb_log = [[] for _ in range(n_cb)]
    submitted = []

    def make_cb(j):
        def cb(index, output):
            cb_log[j].append((index, output))
            if j == n_cb - 1 and index in acks:
                acks[index].set()
        return cb

    callbacks = [make_cb(j) for j in range(n_cb)]
    exec_callback = callbacks[0] if (n_cb == 1 and p.get("bare_cb", True)) else callbacks
    def call():
        pe = CallableParallelExecution(workers, n_processes=w, use_threading=use_threading, exceptions_to_re_raise=reraise)
        kwargs = {"task_submitted_callback": lambda: submitted.append(1)} if p.get("tsc") else {}
        return pe.execute(inputs, exec_callback=exec_callback, **kwargs)

    n_workers = max(1, min(w, n)) if n else 0
    box, released, problems, ack_timeouts, leftover = run_gated(call, board, n, n_workers, prio, acks, stops, use_threading, str(p))

    ctx.check(not box.get("hung"), "termination", f"execute did not return within {EXEC_TIMEOUT}s after every task had been released "
              "and no harness wait had timed out", released=released)

    # ---- classification
    n_fail = sum(1 for f in fail if f)
    planned = plan_order(n, w, prio) if n else []
    reordered = released != sorted(released)
    ctx.cls(f"back={p['back']}", f"n_tasks={n}", f"workers={n_workers}", "shared_callable" if shared else "callable_per_task")
    ctx.cls("order_reordered" if reordered else "order_in_submission_order")
    ctx.cls("no_failure" if n_fail == 0 else ("all_fail" if n_fail == n else "some_fail_some_succeed"))
    if any(stops):
        ctx.cls("re_raise_triggered")
    elif reraise and n_fail:
        ctx.cls("failures_not_in_re_raise_set")
    ctx.extra["ack_timeouts"] = ctx.extra.get("ack_timeouts", 0) + ack_timeouts
    if released == planned:
        ctx.extra["schedules_realised_as_planned"] = ctx.extra.get("schedules_realised_as_planned", 0) + 1
    else:
        ctx.extra["schedules_diverged_from_plan"] = ctx.extra.get("schedules_diverged_from_plan", 0) + 1

    # ---- oracles
    exc = box.get("exc")
    failing_reraised = [i for i in range(n) if stops[i]]
    if failing_reraised:
        ctx.check(exc is not None, "re_raise", f"tasks {failing_reraised} raised a type of exceptions_to_re_raise but execute returned normally",
                  released=released)
        ctx.check(isinstance(exc, reraise), "re_raise", f"execute raised {type(exc).__name__}: {exc} instead of a re-raised task exception")
        ctx.check(any(str(exc) == f"task {i} fails" and type(exc) is FAIL_TYPES[fail[i]] for i in failing_reraised), "re_raise",
                  f"the propagated exception {exc!r} is not the exception of a failing task with a re-raised type")
    elif exc is not None:
        if isinstance(exc, (_TaskFailure, _TaskAbort, ValueError)) and str(exc).startswith("task "):
            ctx.fail("not_re_raised", f"{type(exc).__name__} of a failed task propagated although its type is not in exceptions_to_re_raise",
                     reraise=[t.__name__ for t in reraise], released=released)
        raise exc  # UnboundLocalError etc.: raised from inside gemseo -> "handled cleanly" violation
    if exc is None:
        out = box.get("out")
        ctx.check(isinstance(out, list) and len(out) == n, "positional", f"execute returned {type(out).__name__} of length "
                  f"{len(out) if hasattr(out, '__len__') else '?'} for {n} inputs")
        for i in range(n):
            if fail[i]:
                ctx.check(out[i] is None, "failed_slot", f"slot {i} of a failed task holds {out[i]!r}", released=released)
            else:
                ctx.check(out[i] == expected[i], "positional", f"out[{i}] = {out[i]!r}, expected f_{i}(inputs[{i}]) = {expected[i]!r}",
                          released=released)
        if p.get("tsc"):
            ctx.check(len(submitted) == 1, "task_submitted_callback", f"task_submitted_callback called {len(submitted)} times")
    for j, log in enumerate(cb_log):
        seen = {}
        for index, output in log:
            ctx.check(isinstance(index, (int, np.integer)) and 0 <= index < n, "callback", f"callback {j} got index {index!r}")
            ctx.check(not fail[index], "callback", f"callback {j} called for failed task {index}", released=released)
            ctx.check(output == expected[index], "callback", f"callback {j} called with ({index}, {output!r}); f(inputs[{index}]) = {expected[index]!r}",
                      released=released)
            seen[index] = seen.get(index, 0) + 1
        dup = sorted(i for i, c in seen.items() if c > 1)
        ctx.check(not dup, "callback", f"callback {j} called more than once for tasks {dup}", released=released)
        if exc is None:
            missing = [i for i in range(n) if not fail[i] and i not in seen]
            ctx.check(not missing, "callback", f"callback {j} never called for successful tasks {missing}", released=released)
        elif ack_timeouts == 0:
            # execute stopped at the first re-raised failure: everything consumed before it was notified
            before = released[: min(released.index(i) for i in failing_reraised)] if all(i in released for i in failing_reraised) else []
            missing = [i for i in before if not fail[i] and i not in seen]
            ctx.check(not missing, "callback", f"callback {j} never called for tasks {missing} completed before the re-raised failure",
                      released=released)
    # harness consistency (after the oracles: none of these alters a task outcome)
    if problems:
        raise HarnessError(f"schedule could not be driven: {problems} payload={p}")
    if leftover:
        raise HarnessError(f"{leftover} worker(s) outlived execute: {p}")

    if reordered and (n_fail == 0 or 0 < n_fail < n):
        ctx.nontriv(("sched", p["back"], n_workers, released, fail, shared, p["reraise"]))
        ctx.cls("nontrivial_fault_schedule" if n_fail else "nontrivial_schedule")
    ctx.sample({"oracle": "sched", "back": p["back"], "workers": n_workers, "realised_order": released, "fail": fail,
                "shared": shared, "reraise": p["reraise"]})


# --------------------------------------------------------------------------- enumeration and strategies
def sched_domain(back: str, max_n: int, max_w, fail_codes=(0, 1, 2), modes=None, min_n: int = 0, min_w: int = 1, rotate: bool = False):
    """Every (n, workers, feasible order, failure vector, callable mode, re-raise set).

    ``rotate``: one (callable mode, re-raise set) per schedule x failure vector, taken in turn, instead of all four.
    """
    modes = modes or [(s, r) for s in (0, 1) for r in (0, 1)]
    turn = 0
    for n in range(min_n, max_n + 1):
        w_values = [1] if n == 0 else [w for w in range(min_w, n + 1) if max_w is None or w <= max_w]
        if n and (max_w is None or n + 1 <= max_w) and n <= 2:
            w_values.append(n + 1)  # more workers than tasks
        for w in w_values:
            for order in feasible_orders(n, w):
                prio = [0] * n
                for rank, t in enumerate(order):
                    prio[t] = rank
                for fail in itertools.product(fail_codes, repeat=n):
                    turn += 1
                    for shared, reraise in ([modes[turn % len(modes)]] if rotate else modes):
                        yield {"back": back, "n": n, "w": w, "prio": prio, "fail": list(fail), "shared": bool(shared),
                               "reraise": reraise, "ncb": 1 + (n + w + shared) % 2, "tsc": bool((n + reraise) % 2)}


def _chance(draw, num: int, den: int) -> bool:
    """True with probability num/den (sampled_from is uniform, small integers are not); shrinks to False."""
    return draw(st.sampled_from([False] * (den - num) + [True] * num)) if num else False


def _slice(iterable, stride: int, offset: int):
    for k, item in enumerate(iterable):
        if k % stride == offset % stride:
            yield item


@st.composite
def sched_payloads(draw, back: str, max_n: int = 10):
    n = draw(st.integers(2, max_n))
    w = draw(st.integers(1, n + 2))
    prio = draw(st.permutations(list(range(n))))
    p_fail = draw(st.sampled_from([0, 1, 2, 3]))
    fail = [draw(st.sampled_from([1, 2, 3])) if _chance(draw, p_fail, 6) else 0 for _ in range(n)]
    return {"back": back, "n": n, "w": w, "prio": list(prio), "fail": fail, "shared": draw(st.booleans()),
            "reraise": draw(st.sampled_from([0, 0, 1, 2, 3])), "ncb": draw(st.integers(1, 3)), "bare_cb": draw(st.booleans()),
            "tsc": draw(st.booleans()), "vals": draw(st.lists(st.integers(-9, 9), min_size=n, max_size=n))}


ORACLES = {
    "sched_threads_exhaustive": case_sched, "sched_threads_slice": case_sched, "sched_threads_random": case_sched,
    "sched_processes_exhaustive": case_sched, "sched_processes_random": case_sched,
}


def _timed(ctx, name, fn):
    """Run one oracle and record its wall time in the evidence (information only)."""
    t0 = time.time()
    try:
        return fn()
    finally:
        ctx.extra.setdefault("wall_s_by_oracle", {})[name] = round(time.time() - t0, 2)


def run(ctx):
    quick = ctx.tier == "quick"
    shard = lambda it: _slice(it, ctx.n_shards, ctx.shard)  # noqa: E731
    # ---- threads: exhaustive schedules, then random larger pools
    if quick:
        # every schedule x failing subset x callable mode x re-raise set for <= 3 tasks; the exception-type variants
        # ({ok, ValueError, custom}^n) and 4 tasks are covered by a seeded slice of the thorough domain
        ok = _timed(ctx, "sched_threads_exhaustive", lambda: ctx.enumerate(
            "sched_threads_exhaustive", sched_domain("thread", 3, None, fail_codes=(0, 1)), case_sched))
        _timed(ctx, "sched_threads_slice", lambda: ctx.enumerate(
            "sched_threads_slice", _slice(sched_domain("thread", 4, None, min_n=3), 59, ctx.seed), case_sched))
    else:
        ok = _timed(ctx, "sched_threads_exhaustive", lambda: ctx.enumerate("sched_threads_exhaustive", shard(sched_domain("thread", 5, None)), case_sched))
    ctx.extra["max_tasks_exhaustive_threads"] = 3 if quick else 5
    ctx.extra["exhaustive_threads_complete"] = bool(ok)
    _timed(ctx, "sched_threads_random", lambda: ctx.drive("sched_threads_random", sched_payloads("thread"), case_sched, quick=200, thorough=1500))
    # ---- forked processes
    if quick:
        # every 2-worker schedule x failing subset for 2 and 3 tasks; callable mode / re-raise set taken in turn
        domain = sched_domain("process", 3, 2, fail_codes=(0, 1), min_n=2, min_w=2, rotate=True)
    else:
        domain = shard(sched_domain("process", 4, 3))
    ok = _timed(ctx, "sched_processes_exhaustive", lambda: ctx.enumerate("sched_processes_exhaustive", domain, case_sched))
    ctx.extra["max_tasks_exhaustive_processes"] = 3 if quick else 4
    ctx.extra["exhaustive_processes_complete"] = bool(ok)
    _timed(ctx, "sched_processes_random", lambda: ctx.drive("sched_processes_random", sched_payloads("process", max_n=7), case_sched, quick=25, thorough=150))
    # ---- derived equivalences (each with its own drive: one defect does not hide the others).  The dimensions that
    # matter are cycled deterministically; Hypothesis only draws the rest (its small runs are too clustered).
    backs = ("thread", "process")
    _variants(ctx, "disc", case_disc, 50, 512, [
        disc_payloads(mode, back, failures=fl) for mode in ("exec", "lin") for back in backs for fl in (False, True)
    ] + [disc_payloads(mode, "process", one_disc=True) for mode in ("exec", "lin")])
    _variants(ctx, "chain", case_chain, 24, 160, [chain_payloads(back) for back in backs])
    _variants(ctx, "exec_history", case_exec_history, 32, 400,
              [exec_history_payloads(target, back) for target in ("executor", "chain") for back in backs])
    _variants(ctx, "chain_lin_history", case_chain_lin_history, 20, 300, [chain_lin_history_payloads(back) for back in backs])
    _variants(ctx, "chain_inplace", case_chain_inplace, 80, 600, [inplace_payloads(n, deep) for n in (2, 3) for deep in (True, True, False)][:5])
    _variants(ctx, "doe", case_doe, 32, 200, [doe_payloads(r, j) for r in (False, True) for j in (False, True)])
    _timed(ctx, "fd", lambda: ctx.drive("fd", fd_payloads(), case_fd, quick=20, thorough=120))
    _variants(ctx, "cache", case_cache, 32, 240, [cache_payloads(back, lin) for back in backs for lin in (False, True)])


def _variants(ctx, name, case_fn, quick, thorough, strategies):
    """One drive per stratum, same oracle name, the budget shared equally."""
    k = len(strategies)
    t0 = time.time()
    for strategy in strategies:
        ctx.drive(name, strategy, case_fn, quick=max(1, quick // k), thorough=max(1, thorough // k))
    ctx.extra.setdefault("wall_s_by_oracle", {})[name] = round(time.time() - t0, 2)


# =========================================================================== derived equivalences
# Small polynomial maps with dyadic coefficients: o = c/2 + sum_i (A_i x_i + B_i x_i^2) / 2.
_COEF = st.integers(-3, 3)
_HALF = st.integers(-6, 6).map(lambda k: k * 0.5)
_DELAY = st.sampled_from([0, 0, 1, 2, 3])  # milliseconds, perturbation only


def _mat(draw, rows, cols):
    return [[draw(_COEF) for _ in range(cols)] for _ in range(rows)]


def poly_value(out, sizes, data):
    """Reference value of one output spec on a dict name -> 1-D array."""
    v = np.array(out["c"], dtype=float) / 2
    for name, blocks in out["terms"].items():
        x = np.array(data[name], dtype=float)  # contiguous copy: the summation order must not depend on the strides of the caller
        v = v + (np.array(blocks["a"], dtype=float) @ x + np.array(blocks["b"], dtype=float) @ (x * x)) / 2
    return v


def poly_jac(out, name, sizes, data):
    """Reference Jacobian block d out / d name."""
    if name not in out["terms"]:
        return np.zeros((out["size"], sizes[name]))
    x = np.array(data[name], dtype=float)
    blocks = out["terms"][name]
    return (np.array(blocks["a"], dtype=float) + 2 * np.array(blocks["b"], dtype=float) * x[None, :]) / 2


@st.composite
def disc_specs(draw, index: int, sizes: dict, allow_fail: bool, ins=None):
    names = sorted(sizes)
    ins = ins or draw(st.lists(st.sampled_from(names), min_size=1, max_size=len(names), unique=True))
    outs = []
    for j in range(draw(st.integers(1, 2))):
        size = draw(st.integers(1, 2))
        outs.append({"name": f"y{index}_{j}", "size": size, "c": [draw(_COEF) for _ in range(size)],
                     "terms": {nm: {"a": _mat(draw, size, sizes[nm]), "b": _mat(draw, size, sizes[nm])} for nm in sorted(ins)}})
    return {"ins": sorted(ins), "outs": outs, "delay": draw(_DELAY), "fail": allow_fail and _chance(draw, 1, 3),
            "sparse": draw(st.booleans())}


def _input_values(draw, sizes):
    return {nm: [draw(_HALF) for _ in range(sz)] for nm, sz in sorted(sizes.items())}


_DISC_CLASS = []


def _poly_disc_class():
    if _DISC_CLASS:
        return _DISC_CLASS[0]
    from gemseo.core.discipline import Discipline
    from scipy.sparse import csr_array

    class PolyDisc(Discipline):
        """A discipline evaluating the generated polynomial outputs (optionally slow or failing)."""

        default_grammar_type = Discipline.GrammarType.SIMPLE

        def __init__(self, spec, sizes, name):
            super().__init__(name=name)
            self.spec, self.sizes = spec, sizes
            self.n_run = 0
            self.io.input_grammar.update_from_data({n: np.zeros(sizes[n]) for n in spec["ins"]})
            self.io.output_grammar.update_from_data({o["name"]: np.zeros(o["size"]) for o in spec["outs"]})
            self.io.input_grammar.defaults.update({n: np.zeros(sizes[n]) for n in spec["ins"]})

        def _run(self, input_data):
            self.n_run += 1
            if self.spec["delay"]:
                time.sleep(self.spec["delay"] / 1000.0)
            if self.spec["fail"]:
                raise ValueError(f"{self.name} fails")
            return {o["name"]: poly_value(o, self.sizes, input_data) for o in self.spec["outs"]}

        def _compute_jacobian(self, input_names=(), output_names=()):
            jac = {o["name"]: {n: poly_jac(o, n, self.sizes, self.io.data) for n in self.spec["ins"]} for o in self.spec["outs"]}
            if self.spec["sparse"]:
                jac = {o: {i: csr_array(b) for i, b in row.items()} for o, row in jac.items()}
            self.jac = jac

    _DISC_CLASS.append(PolyDisc)
    return PolyDisc


def _build_discs(specs, sizes, cache_none: bool = False):
    cls = _poly_disc_class()
    discs = [cls(s, sizes, f"D{k}") for k, s in enumerate(specs)]
    if cache_none:
        for d in discs:
            d.set_cache(d.CacheType.NONE)
    return discs


def _arrays(values):
    return {k: np.array(v, dtype=float) for k, v in values.items()}


def _dense(block):
    return block.toarray() if hasattr(block, "toarray") else np.asarray(block)


def _same(a, b, exact: bool) -> bool:
    """Equality of two arrays: bitwise for parallel-versus-serial, 1e-12 against the closed form."""
    a, b = np.asarray(a, dtype=float), np.asarray(b, dtype=float)
    if a.shape != b.shape:
        return False
    return bool(np.array_equal(a, b, equal_nan=True)) if exact else bool(np.allclose(a, b, rtol=1e-12, atol=1e-12))


class _Quiet:
    """Silence the tracebacks gemseo workers print and reap the workers at the end of a case."""

    def __init__(self, use_threading: bool):
        self.use_threading = use_threading

    def __enter__(self):
        _install_ack_handler()
        self.old, sys.stderr = sys.stderr, _DEVNULL
        return self

    def __exit__(self, *exc_info):
        sys.stderr = self.old
        leftover = _reap_workers()
        for t in _worker_threads():
            t.join(JOIN_TIMEOUT)
        leftover += len(_worker_threads())
        if leftover and exc_info[0] is None:
            raise HarnessError(f"{leftover} worker(s) outlived the case")
        return False


def _run_with_timeout(fn, what: str, ctx=None):
    """Run a gemseo call that involves no harness gate in a helper thread, so that a call that never returns is reported."""
    box = {}

    def target():
        try:
            box["out"] = fn()
        except BaseException as exc:  # noqa: BLE001
            box["exc"] = exc

    thread = threading.Thread(target=target, name="c13-call", daemon=True)
    thread.start()
    thread.join(EXEC_TIMEOUT)
    if thread.is_alive():
        _give_up_on_threads()
        if ctx is not None:
            ctx.fail("termination", f"{what} did not return within {EXEC_TIMEOUT}s (nothing in it waits for the harness)")
        raise HarnessError(f"{what} did not return within {EXEC_TIMEOUT}s")
    if "exc" in box:
        raise box["exc"]
    return box["out"]


# --------------------------------------------------------------------------- DiscParallelExecution / Linearization
@st.composite
def disc_payloads(draw, mode: str, back: str, failures: bool = False, one_disc: bool = False):
    """The stratifying dimensions are arguments (run() cycles through them): Hypothesis draws the rest."""
    sizes = {f"x{i}": draw(st.integers(1, 2)) for i in range(draw(st.integers(1, 3)))}
    n = draw(st.integers(2, 5))
    specs = [draw(disc_specs(k, sizes, allow_fail=failures)) for k in range(1 if one_disc else n)]
    if failures and not any(sp["fail"] for sp in specs):
        specs[draw(st.integers(0, len(specs) - 1))]["fail"] = True
    return {"back": back, "w": draw(st.integers(1, 4)), "mode": mode, "sizes": sizes,
            "discs": specs, "one_disc": one_disc, "inputs": [_input_values(draw, sizes) for _ in range(n)],
            "ncb": draw(st.integers(0, 2))}


def case_disc(p, ctx):
    from gemseo.core.parallel_execution.disc_parallel_execution import DiscParallelExecution
    from gemseo.core.parallel_execution.disc_parallel_linearization import DiscParallelLinearization

    sizes, specs, use_threading = p["sizes"], p["discs"], p["back"] == "thread"
    n = len(p["inputs"])
    spec_of = (lambda i: specs[0]) if p["one_disc"] else (lambda i: specs[i])
    fails = [spec_of(i)["fail"] for i in range(n)]
    lin = p["mode"] == "lin"
    if lin and any(fails) and ctx.known("parallel_linearization_failed_discipline"):
        return
    discs = _build_discs(specs, sizes)
    twins = _build_discs(specs, sizes)
    inputs = [_arrays(v) for v in p["inputs"]]
    log = [[] for _ in range(p["ncb"])]
    callbacks = [lambda i, o, j=j: log[j].append((i, o)) for j in range(p["ncb"])]
    with _Quiet(use_threading):
        if lin:
            for d in discs + twins:
                d.add_differentiated_inputs()
                d.add_differentiated_outputs()
            par = DiscParallelLinearization(discs, n_processes=p["w"], use_threading=use_threading)
        else:
            par = DiscParallelExecution(discs, n_processes=p["w"], use_threading=use_threading)
        out = _run_with_timeout(lambda: par.execute(inputs, exec_callback=callbacks), "parallel discipline execution", ctx)
    ctx.cls(f"disc:{p['mode']}:{p['back']}", "disc:one_discipline" if p["one_disc"] else "disc:one_discipline_per_input",
            "disc:with_failure" if any(fails) else "disc:no_failure")
    ctx.check(isinstance(out, list) and len(out) == n, "disc_positional", f"{type(par).__name__}.execute returned {len(out)} results for {n} inputs",
              fails=fails)
    for i in range(n):
        spec = spec_of(i)
        if fails[i]:
            ctx.check(out[i] is None, "disc_failed_slot", f"slot {i} of a failed discipline holds {out[i]!r}")
            continue
        ctx.check(out[i] is not None, "disc_positional", f"slot {i} of a successful discipline is None", fails=fails)
        twin = twins[0] if p["one_disc"] else twins[i]
        for o in spec["outs"]:
            ref = poly_value(o, sizes, inputs[i])
            if lin:
                serial = twin.linearize(inputs[i])
                ctx.check(o["name"] in out[i], "disc_positional", f"Jacobian {i} has no row {o['name']}: {sorted(out[i])}")
                for nm in spec["ins"]:
                    ctx.check(nm in out[i][o["name"]], "disc_positional", f"Jacobian {i} has no block d{o['name']}/d{nm}")
                    got = _dense(out[i][o["name"]][nm])
                    ctx.check(_same(got, poly_jac(o, nm, sizes, inputs[i]), exact=False), "disc_positional",
                              f"parallel d{o['name']}/d{nm} of task {i} differs from the closed form", got=got)
                    ctx.check(_same(got, _dense(serial[o["name"]][nm]), exact=True), "disc_vs_serial",
                              f"parallel d{o['name']}/d{nm} of task {i} differs from the serial linearization")
            else:
                serial = twin.execute(inputs[i])
                ctx.check(o["name"] in out[i], "disc_positional", f"output data {i} has no {o['name']}: {sorted(out[i])}")
                ctx.check(_same(out[i][o["name"]], ref, exact=False), "disc_positional",
                          f"parallel {o['name']} of task {i} differs from the closed form", got=out[i][o["name"]], ref=ref)
                ctx.check(_same(out[i][o["name"]], serial[o["name"]], exact=True), "disc_vs_serial",
                          f"parallel {o['name']} of task {i} differs from the serial execution")
            if not p["one_disc"]:
                # the local data of discipline i are those of ITS task
                ctx.check(o["name"] in discs[i].io.data and _same(discs[i].io.data[o["name"]], ref, exact=False), "disc_local_data",
                          f"{discs[i].name}.io.data[{o['name']}] is not the output of its own task", got=discs[i].io.data.get(o["name"]))
                if lin:
                    for nm in spec["ins"]:
                        block = (discs[i].jac or {}).get(o["name"], {}).get(nm)
                        ctx.check(block is not None and _same(_dense(block), poly_jac(o, nm, sizes, inputs[i]), exact=False), "disc_local_data",
                                  f"{discs[i].name}.jac[{o['name']}][{nm}] is not the Jacobian of its own task")
    for j, entries in enumerate(log):
        idx = sorted(i for i, _ in entries)
        ctx.check(idx == [i for i in range(n) if not fails[i]], "disc_callback",
                  f"callback {j} called for tasks {idx}; successful tasks are {[i for i in range(n) if not fails[i]]}")
    delays = {spec_of(i)["delay"] for i in range(n)}
    if min(p["w"], n) >= 2 and (len(delays) > 1 or p["one_disc"]):
        ctx.nontriv(("disc", p))
        ctx.cls("disc:nontrivial")
    ctx.sample({"oracle": "disc", "back": p["back"], "mode": p["mode"], "w": p["w"], "n": n, "fails": fails})


# --------------------------------------------------------------------------- MDOParallelChain
@st.composite
def chain_payloads(draw, back: str):
    sizes = {f"x{i}": draw(st.integers(1, 2)) for i in range(draw(st.integers(1, 3)))}
    n = draw(st.integers(2, 4))
    return {"back": back, "w": draw(st.sampled_from([None, 1, 2, 3])),
            "deep": draw(st.booleans()), "sizes": sizes, "discs": [draw(disc_specs(k, sizes, allow_fail=False)) for k in range(n)],
            "x": _input_values(draw, sizes), "x2": _input_values(draw, sizes)}


def case_chain(p, ctx):
    from gemseo.core.chains.parallel_chain import MDOParallelChain

    sizes, specs, use_threading = p["sizes"], p["discs"], p["back"] == "thread"
    used = sorted({nm for s in specs for nm in s["ins"]})
    with _Quiet(use_threading):
        chain = MDOParallelChain(_build_discs(specs, sizes), use_threading=use_threading, n_processes=p["w"], use_deep_copy=p["deep"])
        twins = _build_discs(specs, sizes)
        for which in ("x", "x2"):  # two executions: the second one must not see results of the first
            x = {k: v for k, v in _arrays(p[which]).items() if k in used}
            data = _run_with_timeout(lambda: chain.execute({k: v.copy() for k, v in x.items()}), "MDOParallelChain.execute", ctx)
            for spec, twin in zip(specs, twins):
                serial = twin.execute({k: x[k].copy() for k in spec["ins"]})
                for o in spec["outs"]:
                    ctx.check(o["name"] in data, "chain_data", f"{o['name']} missing from the chain output")
                    ctx.check(_same(data[o["name"]], poly_value(o, sizes, x), exact=False), "chain_data",
                              f"{o['name']} of the parallel chain differs from the closed form", got=data[o["name"]])
                    ctx.check(_same(data[o["name"]], serial[o["name"]], exact=True), "chain_vs_serial",
                              f"{o['name']} of the parallel chain differs from the sequential execution")
            jac = _run_with_timeout(lambda: chain.linearize({k: v.copy() for k, v in x.items()}, compute_all_jacobians=True),
                                    "MDOParallelChain.linearize", ctx)
            for spec, twin in zip(specs, twins):
                serial = twin.linearize({k: x[k].copy() for k in spec["ins"]}, compute_all_jacobians=True)
                for o in spec["outs"]:
                    ctx.check(o["name"] in jac, "chain_jacobian", f"no Jacobian row for {o['name']}")
                    for nm in used:
                        ctx.check(nm in jac[o["name"]], "chain_jacobian", f"no Jacobian block d{o['name']}/d{nm}")
                        got = _dense(jac[o["name"]][nm])
                        ctx.check(_same(got, poly_jac(o, nm, sizes, x), exact=False), "chain_jacobian",
                                  f"d{o['name']}/d{nm} of the parallel chain differs from the closed form", got=got)
                        if nm in spec["ins"]:
                            ctx.check(_same(got, _dense(serial[o["name"]][nm]), exact=True), "chain_vs_serial",
                                      f"d{o['name']}/d{nm} of the parallel chain differs from the sequential linearization")
    n_workers = min(len(specs), p["w"] or len(specs))
    ctx.cls(f"chain:{p['back']}", f"chain:workers={n_workers}", "chain:deep_copy" if p["deep"] else "chain:shared_input_data")
    if n_workers >= 2 and len({s["delay"] for s in specs}) > 1:
        ctx.nontriv(("chain", p))
        ctx.cls("chain:nontrivial")
    ctx.sample({"oracle": "chain", "back": p["back"], "workers": n_workers, "n_disciplines": len(specs)})


# --------------------------------------------------------------------------- finite differences
@st.composite
def fd_payloads(draw):
    d = draw(st.integers(1, 4))
    m = draw(st.integers(1, 3))
    idx = draw(st.one_of(st.just([]), st.lists(st.integers(0, d - 1), min_size=1, max_size=d, unique=True).map(sorted)))
    return {"d": d, "out": {"name": "f", "size": m, "c": [draw(_COEF) for _ in range(m)], "terms": {"x": {"a": _mat(draw, m, d), "b": _mat(draw, m, d)}}},
            "x": [draw(_HALF) for _ in range(d)], "step": draw(st.sampled_from([1e-6, 1e-4, 0.5, 0.25])), "w": draw(st.integers(2, 4)),
            "indices": idx, "delays": [draw(_DELAY) for _ in range(d + 1)], "scalar": m == 1 and draw(st.booleans()),
            "opt_step": _chance(draw, 1, 4)}


def case_fd(p, ctx):
    from gemseo.utils.derivatives.finite_differences import FirstOrderFD

    d, out, x0 = p["d"], p["out"], np.array(p["x"], dtype=float)
    sizes = {"x": d}

    def f(x):
        moved = np.flatnonzero(np.asarray(x).real != x0)
        delay = p["delays"][1 + int(moved[0])] if moved.size else p["delays"][0]
        if delay:
            time.sleep(delay / 1000.0)
        v = poly_value(out, sizes, {"x": x})
        return float(v[0]) if p["scalar"] else v

    with _Quiet(False):
        serial = FirstOrderFD(f, step=p["step"])
        parallel = FirstOrderFD(f, step=p["step"], parallel=True, n_processes=p["w"])
        g_ser = serial.f_gradient(x0.copy(), x_indices=p["indices"])
        g_par = _run_with_timeout(lambda: parallel.f_gradient(x0.copy(), x_indices=p["indices"]), "parallel finite differences", ctx)
        ctx.check(_same(g_par, g_ser, exact=True), "fd_vs_serial", "parallel and serial finite-difference gradients differ", par=g_par, ser=g_ser)
        cols = p["indices"] or list(range(d))
        exact = poly_jac(out, "x", sizes, {"x": x0})[:, cols]
        b_abs = np.abs(np.array(out["terms"]["x"]["b"], dtype=float))
        a_abs = np.abs(np.array(out["terms"]["x"]["a"], dtype=float))
        scale = 1 + np.abs(np.array(out["c"], dtype=float)) / 2 + (a_abs @ (np.abs(x0) + 1) + b_abs @ ((np.abs(x0) + 1) ** 2)) / 2
        # forward difference of a quadratic: truncation error exactly |b| h / 2, rounding error <= 64 eps |f| / h
        bound = b_abs[:, cols] * p["step"] / 2 + 64 * np.finfo(float).eps * scale[:, None] / p["step"]
        got = np.asarray(g_par, dtype=float).reshape(exact.shape) if np.asarray(g_par).size == exact.size else None
        ctx.check(got is not None, "fd_shape", f"parallel gradient has shape {np.asarray(g_par).shape}, Jacobian block has shape {exact.shape}")
        ctx.check(bool(np.all(np.abs(got - exact) <= bound)), "fd_columns", "a column of the parallel gradient does not approximate "
                  "the derivative with respect to ITS component", got=got, exact=exact)
        if p["opt_step"] and not p["scalar"]:
            s_ser = FirstOrderFD(f, step=p["step"]).compute_optimal_step(x0.copy())
            par2 = FirstOrderFD(f, step=p["step"], parallel=True, n_processes=p["w"])
            s_par = _run_with_timeout(lambda: par2.compute_optimal_step(x0.copy()), "parallel compute_optimal_step", ctx)
            ctx.check(_same(s_par[0], s_ser[0], exact=True) and _same(s_par[1], s_ser[1], exact=True), "fd_vs_serial",
                      "parallel and serial compute_optimal_step differ", par=s_par, ser=s_ser)
            ctx.cls("fd:optimal_step")
    ctx.cls(f"fd:d={d}", "fd:subset_of_components" if p["indices"] else "fd:all_components")
    if len(cols) >= 2 and len({p["delays"][1 + c] for c in cols} | {p["delays"][0]}) > 1:
        ctx.nontriv(("fd", p))
        ctx.cls("fd:nontrivial")
    ctx.sample({"oracle": "fd", "d": d, "m": out["size"], "w": p["w"], "indices": p["indices"]})


# --------------------------------------------------------------------------- workers sharing one cache
@st.composite
def cache_payloads(draw, back: str, lin: bool):
    sizes = {f"x{i}": draw(st.integers(1, 2)) for i in range(draw(st.integers(1, 2)))}
    spec = draw(disc_specs(0, sizes, allow_fail=False))
    pool = [_input_values(draw, sizes) for _ in range(draw(st.integers(1, 5)))]
    n = draw(st.integers(2, 6))
    return {"back": back, "w": draw(st.integers(2, 4)), "sizes": sizes, "disc": spec,
            "pool": pool, "picks": [draw(st.integers(0, len(pool) - 1)) for _ in range(n)], "delays": [draw(_DELAY) for _ in range(n)],
            "lin": lin}


def case_cache(p, ctx):
    from gemseo.caches.memory_full_cache import MemoryFullCache
    from gemseo.core.parallel_execution.disc_parallel_execution import DiscParallelExecution
    from gemseo.core.parallel_execution.disc_parallel_linearization import DiscParallelLinearization

    sizes, use_threading = p["sizes"], p["back"] == "thread"
    n = len(p["picks"])
    specs = [dict(p["disc"], delay=p["delays"][i]) for i in range(n)]
    discs = _build_discs(specs, sizes)
    cache = MemoryFullCache()
    for d in discs:
        d.cache = cache
        if p["lin"]:
            d.add_differentiated_inputs()
            d.add_differentiated_outputs()
    ins = p["disc"]["ins"]
    pool = [{k: v for k, v in _arrays(x).items() if k in ins} for x in p["pool"]]
    inputs = [{k: v.copy() for k, v in pool[j].items()} for j in p["picks"]]
    distinct = []
    for j in p["picks"]:
        if not any(all(np.array_equal(pool[j][k], q[k]) for k in ins) for q in distinct):
            distinct.append(pool[j])
    with _Quiet(use_threading):
        cls = DiscParallelLinearization if p["lin"] else DiscParallelExecution
        par = cls(discs, n_processes=p["w"], use_threading=use_threading)
        out = _run_with_timeout(lambda: par.execute(inputs), "parallel execution with a shared cache", ctx)
        ctx.check(len(out) == n and all(o is not None for o in out), "cache_results", f"results {out!r}")
        entries = list(cache.get_all_entries())
        ctx.check(len(cache) == len(distinct) and len(entries) == len(distinct), "cache_one_entry_per_input",
                  f"shared cache holds {len(cache)} entries ({len(entries)} listed) for {len(distinct)} distinct inputs among {n} tasks")
        for x in distinct:
            hits = [e for e in entries if all(k in e.inputs and np.array_equal(e.inputs[k], x[k]) for k in ins)]
            ctx.check(len(hits) == 1, "cache_one_entry_per_input", f"{len(hits)} entries for input {x}")
            entry = cache[x]
            for o in p["disc"]["outs"]:
                ctx.check(o["name"] in entry.outputs and _same(entry.outputs[o["name"]], poly_value(o, sizes, x), exact=False),
                          "cache_entry_value", f"cached {o['name']} for input {x} is {entry.outputs.get(o['name'])!r}")
                if p["lin"]:
                    for nm in ins:
                        block = (entry.jacobian or {}).get(o["name"], {}).get(nm)
                        ctx.check(block is not None and _same(_dense(block), poly_jac(o, nm, sizes, x), exact=False),
                                  "cache_entry_value", f"cached d{o['name']}/d{nm} for input {x} is wrong or missing")
    ctx.cls(f"cache:{p['back']}", "cache:lin" if p["lin"] else "cache:exec", "cache:duplicated_inputs" if len(distinct) < n else "cache:all_inputs_distinct")
    if len(distinct) < n and len(distinct) >= 1:
        ctx.nontriv(("cache", p))
        ctx.cls("cache:nontrivial")
    ctx.sample({"oracle": "cache", "back": p["back"], "tasks": n, "distinct_inputs": len(distinct), "w": p["w"]})


# --------------------------------------------------------------------------- parallel DOE versus sequential DOE
@st.composite
def doe_payloads(draw, raising_samples: bool, eval_jac: bool):
    d = draw(st.integers(1, 3))
    n = draw(st.integers(2, 7))
    samples = [[draw(st.integers(-8, 8)) * 0.5 for _ in range(d)] for _ in range(n)]
    if _chance(draw, 1, 4):
        samples[draw(st.integers(1, n - 1))] = list(samples[0])  # a repeated sample
    funcs = []
    for k, kind in enumerate(["obj"] + draw(st.lists(st.sampled_from(["ineq", "eq", "obs"]), max_size=2))):
        m = 1 if kind == "obj" else draw(st.integers(1, 2))
        funcs.append({"kind": kind, "name": f"{kind[0]}{k}", "size": m, "c": [draw(_COEF) for _ in range(m)],
                      "terms": {"x": {"a": _mat(draw, m, d), "b": _mat(draw, m, d)}},
                      "scalar": m == 1 and (kind == "obj" or draw(st.booleans()))})
    p_fail = draw(st.sampled_from([1, 2])) if raising_samples else 0
    # mostly the objective (evaluated first): a later function raising is ledger entry C13-F3
    which = st.sampled_from([0, 0, 0, len(funcs) - 1]) if _chance(draw, 2, 3) else st.just(0)
    raising = [draw(which) if _chance(draw, p_fail, 6) else None for _ in range(n)]
    if raising_samples and all(r is None for r in raising):
        raising[draw(st.integers(0, n - 1))] = draw(which)
    return {"d": d, "samples": samples, "funcs": funcs, "raising": raising, "delays": [draw(_DELAY) for _ in range(n)],
            "n_processes": draw(st.sampled_from([2, 2, 3])), "eval_jac": eval_jac,
            "pre": draw(st.one_of(st.just([]), st.just([]), st.lists(st.integers(0, n - 1), max_size=2, unique=True))),
            "callback": draw(st.booleans()), "prio": list(draw(st.permutations(list(range(n)))))}


def _doe_problem(p, board=None):
    """The generated problem; with a board, the objective (evaluated first) blocks on the gate of its sample in workers."""
    from gemseo.algos.design_space import DesignSpace
    from gemseo.algos.optimization_problem import OptimizationProblem
    from gemseo.core.mdo_functions.mdo_function import MDOFunction

    d, sizes = p["d"], {"x": p["d"]}
    samples = [np.array(s, dtype=float) for s in p["samples"]]

    def index_of(x):
        for i, s in enumerate(samples):
            if np.array_equal(s, x):
                return i
        return None

    def make(k, spec):
        def func(x):
            i = index_of(x)
            if i is not None:
                if k == 0 and board is not None and multiprocessing.current_process().name == SUBPROCESS_NAME:
                    board.gate(i)
                elif k == 0 and p["delays"][i]:
                    time.sleep(p["delays"][i] / 1000.0)
                # a sample is bad for every occurrence of the same point
                if any(p["raising"][j] == k for j, s in enumerate(samples) if np.array_equal(s, x)):
                    raise ValueError(f"{spec['name']} cannot be evaluated at sample {i}")
            v = poly_value(spec, sizes, {"x": x})
            return float(v[0]) if spec["scalar"] else v

        def jac(x):
            j = poly_jac(spec, "x", sizes, {"x": x})
            return j[0] if spec["scalar"] else j

        return MDOFunction(func, spec["name"], jac=jac, input_names=["x"], dim=spec["size"])

    space = DesignSpace()
    space.add_variable("x", d, lower_bound=-4.0, upper_bound=4.0, value=0.0)
    problem = OptimizationProblem(space)
    for k, spec in enumerate(p["funcs"]):
        fn = make(k, spec)
        if spec["kind"] == "obj":
            problem.objective = fn
        elif spec["kind"] == "obs":
            problem.add_observable(fn)
        else:
            problem.add_constraint(fn, constraint_type=spec["kind"])
    return problem


def _db_items(problem):
    return [(np.array(x.wrapped_array, dtype=float), {k: np.array(v, dtype=float) for k, v in vals.items()}) for x, vals in problem.database.items()]


def case_doe(p, ctx):
    from gemseo.algos.doe.custom_doe.custom_doe import CustomDOE

    samples = np.array(p["samples"], dtype=float)
    n = len(samples)
    bad = [any(p["raising"][j] is not None for j in range(n) if p["samples"][j] == p["samples"][i]) for i in range(n)]
    # a function other than the first evaluated one (the objective) raises: see ledger C13-F2
    partial = [any(p["raising"][j] not in (None, 0) for j in range(n) if p["samples"][j] == p["samples"][i]) for i in range(n)]
    if any(partial) and ctx.known("doe_sample_fails_after_first_function"):
        return
    # the harness owns the completion order of the parallel run when every sample is a distinct task evaluated by a worker
    gated = len({tuple(s) for s in p["samples"]}) == n and not p["pre"] and sorted(p.get("prio", [])) == list(range(n))
    runs, released, problems, leftover = {}, None, [], 0
    # snapshot at call time: the parallel DOE later adds the gradients to the very dict it passed to the callbacks
    snap = lambda o: ({k: np.array(v, dtype=float) for k, v in o[0].items()}, {k: np.array(v, dtype=float) for k, v in (o[1] or {}).items()})  # noqa: E731
    with _Quiet(False):
        for label, n_proc in (("serial", 1), ("parallel", p["n_processes"])):
            board = _Board(n, use_threading=False) if gated and label == "parallel" else None
            problem = _doe_problem(p, board)
            log = []
            acks = {i: threading.Event() for i in range(n)}

            def callback(i, o, log=log, acks=acks):
                log.append((int(i), snap(o)))
                if int(i) in acks:
                    acks[int(i)].set()

            if p["pre"]:
                CustomDOE().execute(problem, samples=samples[sorted(p["pre"])], eval_jac=p["eval_jac"])
            kwargs = {"callbacks": [callback]} if p["callback"] or board is not None else {}
            call = lambda problem=problem, n_proc=n_proc, kwargs=kwargs: CustomDOE().execute(  # noqa: E731
                problem, samples=samples, n_processes=n_proc, eval_jac=p["eval_jac"], **kwargs)
            if board is None:
                _run_with_timeout(call, f"{label} DOE", ctx)
            else:
                box, released, problems, ack_timeouts, leftover = run_gated(
                    call, board, n, min(n_proc, n), p["prio"], acks, [False] * n, False, str(p))
                ctx.extra["ack_timeouts"] = ctx.extra.get("ack_timeouts", 0) + ack_timeouts
                ctx.check(not box.get("hung"), "termination", f"the parallel DOE did not return within {EXEC_TIMEOUT}s after every sample "
                          "had been released", released=released)
                if "exc" in box:
                    raise box["exc"]
            runs[label] = (problem, log)
    ser, par = _db_items(runs["serial"][0]), _db_items(runs["parallel"][0])
    ctx.cls("doe:with_raising_sample" if any(bad) else "doe:all_samples_valid", f"doe:n_processes={p['n_processes']}",
            "doe:eval_jac" if p["eval_jac"] else "doe:values_only")
    if len({tuple(s) for s in p["samples"]}) < n:
        ctx.cls("doe:repeated_sample")
    if p["pre"]:
        ctx.cls("doe:database_not_empty_before")
    ctx.check(len(par) == len(ser) and all(np.array_equal(a[0], b[0]) for a, b in zip(par, ser)), "doe_database_keys",
              "the databases of the parallel and sequential DOE differ in keys or order",
              parallel=[a[0] for a in par], serial=[b[0] for b in ser])
    sizes = {"x": p["d"]}
    for (x, vp), (_, vs) in zip(par, ser):
        ctx.check(sorted(vp) == sorted(vs), "doe_database_values", f"entry {x}: parallel names {sorted(vp)}, sequential names {sorted(vs)}")
        for name in vp:
            ctx.check(_same(vp[name], vs[name], exact=True), "doe_database_values", f"entry {x}: {name} differs between parallel and sequential DOE",
                      parallel=vp[name], serial=vs[name])
        for spec in p["funcs"]:
            if spec["name"] in vp:
                ctx.check(_same(np.ravel(vp[spec["name"]]), poly_value(spec, sizes, {"x": x}), exact=False), "doe_database_positional",
                          f"entry {x}: {spec['name']} = {vp[spec['name']]} is not the value of the function at this sample")
    # every valid sample is there, in sample order (first occurrence)
    expected_keys = []
    pre_keys = [p["samples"][i] for i in sorted(p["pre"])]
    for s, b, part in zip(pre_keys + p["samples"], [bad[i] for i in sorted(p["pre"])] + bad, [partial[i] for i in sorted(p["pre"])] + partial):
        if (not b or part) and s not in expected_keys:
            expected_keys.append(s)
    if not any(partial):
        ctx.check([list(a[0]) for a in par] == expected_keys, "doe_database_keys",
                  "the database of the parallel DOE does not hold the valid samples in sample order", got=[a[0] for a in par], expected=expected_keys)
    if p["callback"]:
        key = lambda log: sorted((i, sorted((k, np.ravel(v).tolist()) for k, v in o[0].items()), sorted((k, np.ravel(v).tolist()) for k, v in o[1].items())) for i, o in log)  # noqa: E731
        ctx.check(key(runs["parallel"][1]) == key(runs["serial"][1]), "doe_callbacks", "callbacks of the parallel and sequential DOE were called with "
                  "different (index, outputs) pairs", parallel=key(runs["parallel"][1]), serial=key(runs["serial"][1]))
    if problems:
        raise HarnessError(f"DOE schedule could not be driven: {problems} payload={p}")
    if leftover:
        raise HarnessError(f"{leftover} DOE worker(s) outlived the run: {p}")
    valid = [i for i in range(n) if not bad[i]]
    if gated:
        ctx.cls("doe:gated_schedule", "doe:gated_reordered" if released != sorted(released) else "doe:gated_in_order")
        if released != sorted(released) and len(valid) >= 1:
            ctx.nontriv(("doe", p["n_processes"], released, p["raising"], p["eval_jac"], p["samples"]))
            ctx.cls("doe:nontrivial_fault" if any(bad) else "doe:nontrivial")
    elif len(valid) >= 2 and len({p["delays"][i] for i in valid}) > 1:
        ctx.cls("doe:delays_only")
        ctx.nontriv(("doe", p))
        ctx.cls("doe:nontrivial_fault" if any(bad) else "doe:nontrivial")
    ctx.sample({"oracle": "doe", "n_samples": n, "n_processes": p["n_processes"], "raising": p["raising"], "funcs": [f["kind"] for f in p["funcs"]]})


ORACLES.update({"doe": case_doe, "chain": case_chain, "disc": case_disc, "fd": case_fd, "cache": case_cache})


# --------------------------------------------------------------------------- MDOParallelChain: independent input copies
# Disciplines sharing input names, some of which modify their input arrays in place (the use case of
# use_deep_copy=True).  The interleaving is owned by the harness: discipline d touches its inputs only after the
# discipline of the previous turn has finished (events, thread back-end, one thread per discipline).
WRITE_OPS = {"double": lambda x: x.__imul__(2.0), "shift": lambda x: x.__iadd__(1.0), "quarter": lambda x: x.__itruediv__(4.0)}


class _Turns:
    """done[t] is set when the discipline whose turn is t has finished; timed_out records a harness time-out."""

    def __init__(self, n):
        self.done = [threading.Event() for _ in range(n)]
        self.timed_out = False


_WRITER_CLASS = []


def _writer_disc_class():
    if _WRITER_CLASS:
        return _WRITER_CLASS[0]
    base = _poly_disc_class()

    class InPlaceDisc(base):
        """PolyDisc that first applies in-place operations to some of its input arrays, in its turn."""

        def __init__(self, spec, sizes, name, turns=None):
            super().__init__(spec, sizes, name)
            self.turns = turns

        def _run(self, input_data):
            turn = self.spec["turn"]
            try:
                if self.turns is not None and turn > 0 and not self.turns.done[turn - 1].wait(GATE_TIMEOUT):
                    self.turns.timed_out = True
                    raise _GateTimeout(self.name)
                for name, op in sorted(self.spec["write"].items()):
                    WRITE_OPS[op](input_data[name])  # in-place modification of the discipline's own input
                return {o["name"]: poly_value(o, self.sizes, input_data) for o in self.spec["outs"]}
            finally:
                if self.turns is not None:
                    self.turns.done[turn].set()

    _WRITER_CLASS.append(InPlaceDisc)
    return InPlaceDisc


@st.composite
def inplace_payloads(draw, n: int, deep: bool):
    sizes = {f"x{i}": draw(st.integers(1, 3)) for i in range(draw(st.integers(1, 2)))}
    names = sorted(sizes)
    specs = []
    for k in range(n):
        spec = draw(disc_specs(k, sizes, allow_fail=False))
        spec["delay"] = 0
        # every discipline reads every input, so that the input names are shared
        for o in spec["outs"]:
            o["terms"] = {nm: o["terms"].get(nm) or {"a": _mat(draw, o["size"], sizes[nm]), "b": _mat(draw, o["size"], sizes[nm])} for nm in names}
        spec["ins"] = names
        spec["write"] = {nm: draw(st.sampled_from(sorted(WRITE_OPS))) for nm in names if _chance(draw, 1, 2)} if deep else {}
        specs.append(spec)
    if deep and not any(sp["write"] for sp in specs):
        specs[draw(st.integers(0, n - 1))]["write"] = {names[0]: draw(st.sampled_from(sorted(WRITE_OPS)))}
    for sp, turn in zip(specs, draw(st.permutations(list(range(n))))):
        sp["turn"] = turn
    return {"sizes": sizes, "discs": specs, "deep": deep, "w": draw(st.sampled_from([None, n, n + 1])),
            "x": {nm: [draw(st.integers(1, 6)) * 0.5 for _ in range(sizes[nm])] for nm in names}}


def case_chain_inplace(p, ctx):
    from gemseo.core.chains.parallel_chain import MDOParallelChain

    sizes, specs, n = p["sizes"], p["discs"], len(p["discs"])
    if sorted(sp["turn"] for sp in specs) != list(range(n)) or (not p["deep"] and any(sp["write"] for sp in specs)) \
            or (p["w"] is not None and p["w"] < n):
        raise HarnessError(f"malformed payload {p}")
    cls = _writer_disc_class()
    turns = _Turns(n)
    x0 = _arrays(p["x"])
    # sequential counterpart: each discipline alone on a fresh copy of the inputs
    serial = [cls(sp, sizes, f"S{k}").execute({k2: v.copy() for k2, v in x0.items()}) for k, sp in enumerate(specs)]
    with _Quiet(True):
        chain = MDOParallelChain([cls(sp, sizes, f"D{k}", turns) for k, sp in enumerate(specs)], use_threading=True,
                                 n_processes=p["w"], use_deep_copy=p["deep"])
        given = {k: v.copy() for k, v in x0.items()}
        try:
            data = _run_with_timeout(lambda: chain.execute(given), "MDOParallelChain.execute with in-place writers", ctx)
        finally:
            for ev in turns.done:
                ev.set()
    if turns.timed_out:
        raise HarnessError(f"a discipline waited {GATE_TIMEOUT}s for its turn: {p}")
    writers = [k for k, sp in enumerate(specs) if sp["write"]]
    ctx.cls("inplace:deep_copy" if p["deep"] else "inplace:read_only_shared_inputs", f"inplace:n={n}", f"inplace:writers={len(writers)}")
    for k, sp in enumerate(specs):
        own = {k2: v.copy() for k2, v in x0.items()}
        for name, op in sorted(sp["write"].items()):
            WRITE_OPS[op](own[name])
        for o in sp["outs"]:
            ctx.check(o["name"] in data, "chain_independent_inputs", f"{o['name']} missing from the chain output")
            ctx.check(_same(data[o["name"]], serial[k][o["name"]], exact=True), "chain_independent_inputs",
                      f"{o['name']} of D{k} (turn {sp['turn']}) in the parallel chain differs from its execution alone on a fresh copy of the inputs: "
                      "the disciplines do not have independent input data", got=data[o["name"]], alone=serial[k][o["name"]],
                      turns=[s["turn"] for s in specs], writers=writers)
            ctx.check(_same(data[o["name"]], poly_value(o, sizes, own), exact=False), "chain_independent_inputs",
                      f"{o['name']} of D{k} differs from the closed form on its own (modified) inputs", got=data[o["name"]])
    for name, v in x0.items():
        ctx.check(np.array_equal(given[name], v), "chain_caller_input", f"the array {name} given by the caller was modified: {given[name]} (was {v})")
    # a writer whose turn comes before another discipline's: the interleaving in which sharing would be visible
    exposed = any(specs[a]["turn"] < specs[b]["turn"] and set(specs[a]["write"]) for a in writers for b in range(n) if b != a)
    if exposed:
        ctx.nontriv(("inplace", p))
        ctx.cls("inplace:writer_before_another_discipline")
    ctx.sample({"oracle": "chain_inplace", "n": n, "deep": p["deep"], "turns": [s["turn"] for s in specs], "writers": writers})


ORACLES["chain_inplace"] = case_chain_inplace


# --------------------------------------------------------------------------- multi-step histories on one executor / chain
OPT = "opt"  # an optional input (not required, no default value) shared by the disciplines

_OPT_CLASS = []


def _opt_disc_class():
    if _OPT_CLASS:
        return _OPT_CLASS[0]
    base = _poly_disc_class()

    class OptDisc(base):
        """PolyDisc with an optional input: when given, opt[0] is added to every output component."""

        def __init__(self, spec, sizes, name):
            super().__init__(spec, sizes, name)
            self.io.input_grammar.update_from_data({OPT: np.zeros(1)})
            self.io.input_grammar.required_names.remove(OPT)

        def _run(self, input_data):
            out = super()._run(input_data)
            opt = input_data.get(OPT)
            if opt is not None:
                out = {k: v + opt[0] for k, v in out.items()}
            return out

    _OPT_CLASS.append(OptDisc)
    return OptDisc


def _same_data(got, ref):
    """Names AND values of two discipline data (bitwise: same code run in parallel and sequentially)."""
    if sorted(got) != sorted(ref):
        return False
    return all(_same(got[k], ref[k], exact=True) for k in ref)


@st.composite
def exec_history_payloads(draw, target: str, back: str):
    sizes = {f"x{i}": draw(st.integers(1, 2)) for i in range(draw(st.integers(1, 2)))}
    n = draw(st.integers(2, 4))
    specs = [draw(disc_specs(k, sizes, allow_fail=False)) for k in range(n)]
    n_steps = draw(st.integers(2, 3))
    steps = []
    for t in range(n_steps):
        row = []
        for _ in range(n if target == "executor" else 1):
            values = _input_values(draw, sizes)
            values[OPT] = [draw(st.integers(1, 6)) * 0.5] if draw(st.booleans()) else None
            row.append(values)
        steps.append(row)
    # at least one discipline gets the optional input at one step and not at the next one
    j, t = draw(st.integers(0, len(steps[0]) - 1)), draw(st.integers(0, n_steps - 2))
    steps[t][j][OPT] = steps[t][j][OPT] or [1.5]
    steps[t + 1][j][OPT] = None
    return {"target": target, "back": back, "w": draw(st.integers(2, 4)), "deep": draw(st.booleans()), "sizes": sizes, "discs": specs,
            "steps": steps}


def case_exec_history(p, ctx):
    """Several executions of ONE DiscParallelExecution / MDOParallelChain: the disciplines hold the sequential data after each."""
    from gemseo.core.chains.parallel_chain import MDOParallelChain
    from gemseo.core.parallel_execution.disc_parallel_execution import DiscParallelExecution

    sizes, specs, use_threading = p["sizes"], p["discs"], p["back"] == "thread"
    n = len(specs)
    cls = _opt_disc_class()
    discs = [cls(sp, sizes, f"D{k}") for k, sp in enumerate(specs)]
    twins = [cls(sp, sizes, f"D{k}") for k, sp in enumerate(specs)]
    is_chain = p["target"] == "chain"
    dropped = False
    with _Quiet(use_threading):
        if is_chain:
            par = MDOParallelChain(discs, use_threading=use_threading, n_processes=p["w"], use_deep_copy=p["deep"])
        else:
            par = DiscParallelExecution(discs, n_processes=p["w"], use_threading=use_threading)
        previous = None
        for t, row in enumerate(p["steps"]):
            inputs = [{k: np.array(v, dtype=float) for k, v in values.items() if v is not None} for values in row]
            if is_chain:
                inputs = inputs * n
                data = _run_with_timeout(lambda: par.execute({k: v.copy() for k, v in inputs[0].items()}), "MDOParallelChain.execute", ctx)
            else:
                out = _run_with_timeout(lambda: par.execute([{k: v.copy() for k, v in i.items()} for i in inputs]), "DiscParallelExecution.execute", ctx)
                ctx.check(isinstance(out, list) and len(out) == n and all(o is not None for o in out), "history_positional", f"step {t}: results {out!r}")
            if previous is not None and any(OPT in a and OPT not in b for a, b in zip(previous, inputs)):
                dropped = True
            previous = inputs
            for k, (disc, twin, spec) in enumerate(zip(discs, twins, specs)):
                twin.execute({k2: v.copy() for k2, v in inputs[k].items()})
                ref = {o["name"]: poly_value(o, sizes, inputs[k]) + (inputs[k][OPT][0] if OPT in inputs[k] else 0.0) for o in spec["outs"]}
                for name, value in ref.items():
                    holder = data if is_chain else out[k]
                    ctx.check(name in holder and _same(holder[name], value, exact=False), "history_positional",
                              f"step {t}: {name} returned for D{k} differs from the closed form", got=holder.get(name), ref=value)
                ctx.check(_same_data(disc.io.data, twin.io.data), "history_discipline_data",
                          f"step {t}: after the parallel execution D{k}.io.data holds {sorted(disc.io.data)} = "
                          f"{[np.asarray(v).tolist() for _, v in sorted(disc.io.data.items())]}; its sequential twin executed on the same inputs holds "
                          f"{sorted(twin.io.data)} = {[np.asarray(v).tolist() for _, v in sorted(twin.io.data.items())]}")
                ctx.check(_same_data(disc.io.get_input_data(), twin.io.get_input_data()), "history_discipline_data",
                          f"step {t}: D{k}.io.get_input_data() has names {sorted(disc.io.get_input_data())}, sequential twin {sorted(twin.io.get_input_data())}")
    ctx.cls(f"history:{p['target']}:{p['back']}", f"history:steps={len(p['steps'])}")
    if dropped:
        ctx.nontriv(("exec_history", p))
        ctx.cls("history:optional_input_given_then_omitted")
    ctx.sample({"oracle": "exec_history", "target": p["target"], "back": p["back"], "opt": [[v[OPT] is not None for v in row] for row in p["steps"]]})


@st.composite
def chain_lin_history_payloads(draw, back: str):
    names = [f"x{i}" for i in range(draw(st.integers(2, 3)))]
    sizes = {nm: draw(st.integers(1, 2)) for nm in names}
    n = draw(st.integers(2, 4))
    # members with different inputs: the first two read disjoint inputs, the others anything
    forced = [[names[0]], [names[1]]]
    specs = [draw(disc_specs(k, sizes, allow_fail=False, ins=forced[k] if k < 2 else None)) for k in range(n)]
    order = draw(st.permutations(list(range(n))))
    specs = [specs[i] for i in order]
    return {"back": back, "w": draw(st.sampled_from([None, 2, 3])), "deep": draw(st.booleans()), "sizes": sizes, "discs": specs,
            "points": [_input_values(draw, sizes), _input_values(draw, sizes)], "all_jacobians": draw(st.booleans())}


def _jac_equal(got, ref, ctx, sub, what):
    """Same outputs, same inputs per output, same blocks (bitwise) as the sequential twin."""
    ctx.check(isinstance(got, dict) and sorted(got) == sorted(ref), sub, f"{what}: rows {sorted(got) if isinstance(got, dict) else got!r}, "
              f"sequential twin {sorted(ref)}")
    for o, row in ref.items():
        ctx.check(sorted(got[o]) == sorted(row), sub, f"{what}: d{o}/d. has blocks w.r.t. {sorted(got[o])}, the sequential twin w.r.t. {sorted(row)}")
        for i, block in row.items():
            ctx.check(_same(_dense(got[o][i]), _dense(block), exact=True), sub, f"{what}: block d{o}/d{i} differs from the sequential twin",
                      got=_dense(got[o][i]), ref=_dense(block))


def case_chain_lin_history(p, ctx):
    """chain.linearize; members inspected and linearized on their own; chain.linearize at another point."""
    from gemseo.core.chains.parallel_chain import MDOParallelChain

    sizes, specs, use_threading = p["sizes"], p["discs"], p["back"] == "thread"
    used = sorted({nm for sp in specs for nm in sp["ins"]})
    members = _build_discs(specs, sizes)
    with _Quiet(use_threading):
        chain = MDOParallelChain(members, use_threading=use_threading, n_processes=p["w"], use_deep_copy=p["deep"])
        if not p["all_jacobians"]:
            chain.add_differentiated_inputs()
            chain.add_differentiated_outputs()
        for step, point in enumerate(p["points"]):
            x = {k: v for k, v in _arrays(point).items() if k in used}
            jac = _run_with_timeout(lambda: chain.linearize({k: v.copy() for k, v in x.items()}, compute_all_jacobians=p["all_jacobians"]),
                                    "MDOParallelChain.linearize", ctx)
            twins = _build_discs(specs, sizes)  # fresh sequential counterparts, never seen by a chain
            for k, (member, twin, spec) in enumerate(zip(members, twins, specs)):
                own = {nm: x[nm].copy() for nm in spec["ins"]}
                ref = twin.linearize(own, compute_all_jacobians=True)
                for o in spec["outs"]:
                    ctx.check(o["name"] in jac, "history_chain_jacobian", f"step {step}: no row {o['name']} in the chain Jacobian")
                    for nm in used:
                        ctx.check(nm in jac[o["name"]], "history_chain_jacobian", f"step {step}: no block d{o['name']}/d{nm} in the chain Jacobian")
                        ctx.check(_same(_dense(jac[o["name"]][nm]), poly_jac(o, nm, sizes, x), exact=False), "history_chain_jacobian",
                                  f"step {step}: d{o['name']}/d{nm} of the chain differs from the closed form", got=_dense(jac[o["name"]][nm]))
                # the chain must leave its members as their own (sequential) linearization does
                _jac_equal(member.jac, ref, ctx, "history_member_jacobian", f"step {step}: {member.name}.jac after the linearization of the chain")
                alone = member.linearize({nm: v.copy() for nm, v in own.items()}, compute_all_jacobians=True)
                _jac_equal(alone, ref, ctx, "history_member_jacobian", f"step {step}: {member.name} linearized on its own after the chain")
                if member.cache is not None:
                    cached = member.cache[own].jacobian
                    if cached:
                        _jac_equal(cached, ref, ctx, "history_member_cache", f"step {step}: Jacobian in the cache of {member.name}")
            # the chain Jacobian itself was not altered by what happened to the members
            for spec in specs:
                for o in spec["outs"]:
                    for nm in used:
                        ctx.check(_same(_dense(chain.jac[o["name"]][nm]), poly_jac(o, nm, sizes, x), exact=False), "history_chain_jacobian",
                                  f"step {step}: chain.jac[{o['name']}][{nm}] changed after the members were linearized on their own")
    ctx.cls(f"lin_history:{p['back']}", "lin_history:compute_all_jacobians" if p["all_jacobians"] else "lin_history:differentiated_io")
    ctx.nontriv(("chain_lin_history", p))  # members always have different inputs (forced) and two steps
    ctx.sample({"oracle": "chain_lin_history", "back": p["back"], "ins": [sp["ins"] for sp in specs]})


ORACLES.update({"exec_history": case_exec_history, "chain_lin_history": case_chain_lin_history})
