"""C14 - DOE samples honour bounds, types, sample count and seed.

Every algorithm the property names is run over generated bounded design spaces
(asymmetric bounds, mixed float/integer variables, sizes > 1) through the three public
routes (``DOELibraryFactory().create(name).compute_doe``, ``gemseo.compute_doe`` and
``library.execute`` on a trivial problem) and the returned samples are compared with a
reference written here: the box of the space, integrality, the count formula of the
algorithm, the affine image of the unit samples and bit-identity of repeated runs.
"""

from __future__ import annotations

import logging
import math
import os
import tempfile
import warnings

import numpy as np
from hypothesis import strategies as st

logging.getLogger("gemseo").setLevel(logging.ERROR)
warnings.filterwarnings("ignore", message="The balance properties of Sobol")
warnings.filterwarnings("ignore", category=RuntimeWarning, module="numpy")  # corrcoef of constant columns inside pyDOE

PROPERTY = "C14"
LEVEL = "exploration"
RULE = (
    "Hypothesis draws an algorithm name (uniformly over the 26 named ones), a bounded design space (1-3 variables "
    "of size 1-3, total dimension <= 5 and >= the algorithm's minimum, float/integer types, each component in its "
    "own disjoint slot of the real line so that a column can only satisfy its own bounds - or, one case in four, "
    "free bounds incl. [0,1], lb==ub and wide ranges - optional current value), the algorithm's settings "
    "(n_samples 1-60, or levels/centres/replicates/criteria for structured designs), a seed or None and a route "
    "(library.compute_doe with keyword settings or a settings model, gemseo.compute_doe, library.execute, "
    "DOELibraryFactory.execute). Oracles: shape, box membership, integrality, count formula, unit samples in "
    "[0,1]^d, samples == harness affine map (+rounding) of the unit samples, database keys == samples, "
    "bit-identical repetition on fresh library objects under perturbed global RNG states, default seed sequence "
    "1,2,3.. of one library object reproduced by explicit seeds; a dedicated CustomDOE drive (all input forms, mapping keys in "
    "a drawn order) and an explicit sweep of n_samples over several periods of every count formula in dimensions 1-4. "
    "Non-trivial = a component whose bounds are not [0,1] and (dimension >= 2 or an integer variable); "
    "distinct = structural hash of (algorithm, space, settings, seed, route)."
)
ASSUMPTIONS = [
    "box membership is decided with the tolerance 100*eps*max(1,|lb|,|ub|) (the design space's own 100*eps, scaled); "
    "the largest excess seen is reported in ulps as max_bound_excess_ulp",
    "OATDOE is exercised through MorrisDOE only (it steps from a user-given unit point); PYDOE_CCDESIGN, BBDESIGN, "
    "FF2N and PBDESIGN are outside the property's list",
    "MorrisDOE relative step in (0, 0.5] (a larger step cannot stay in the unit cube from every start point)",
    "OT_SOBOL_INDICES is given n_samples >= one block (d+2, or 2d+2 with second order and d != 2), the stratified "
    "OpenTURNS designs n_samples >= their documented minimum, levels in ]0,1] as a sequence and centres in ]0,1[",
    "custom samples are points of the box; integer components are integers",
    "a fresh DesignSpace is built for every library call",
]

EPS = float(np.finfo(float).eps)

SCIPY = ["MC", "LHS", "Halton", "Sobol", "PoissonDisk"]
OT_SAMPLING = [
    "OT_MONTE_CARLO", "OT_RANDOM", "OT_LHS", "OT_LHSC", "OT_OPT_LHS", "OT_SOBOL", "OT_HALTON",
    "OT_REVERSE_HALTON", "OT_FAURE", "OT_HASELGROVE",
]
OT_STRATIFIED = ["OT_AXIAL", "OT_FACTORIAL", "OT_COMPOSITE"]
FULLFACT = ["OT_FULLFACT", "PYDOE_FULLFACT"]
ALGOS = [*SCIPY, *OT_SAMPLING, *OT_STRATIFIED, *FULLFACT, "OT_SOBOL_INDICES", "PYDOE_LHS", "DiagonalDOE", "MorrisDOE", "CustomDOE"]
# algorithms that take a seed, and the name of that setting
SEED_KEY = {name: "seed" for name in [*SCIPY, *OT_SAMPLING, *OT_STRATIFIED, "OT_FULLFACT", "OT_SOBOL_INDICES"]}
SEED_KEY["PYDOE_LHS"] = "random_state"
# count == n_samples exactly
EXACT_N = {*SCIPY, *OT_SAMPLING, "PYDOE_LHS", "DiagonalDOE"}
MORRIS_INNER = ["PYDOE_LHS", "LHS", "MC", "Halton", "OT_LHS", "OT_MONTE_CARLO", "OT_SOBOL", "OT_LHSC"]
NAMES = ["y", "x", "k", "ab", "zz", "var", "x_1", "n1", "z"]  # index order is not the alphabetical one
FREE_FLOAT = [(0.0, 1.0), (0.0, 1.0), (-1.0, 1.0), (-0.1, 0.7), (0.001, 0.002), (-1000.0, 1000.0), (5.5, 5.5), (-7.3, -7.1), (0.1, 0.3)]
FREE_INT = [(0, 1), (0, 1), (-5, 5), (3, 3), (0, 100), (-1000, 1000), (-3, -1), (2, 7)]
# SciPy's PoissonDisk allocates a grid of (sqrt(d)/radius)^d cells: minutes and gigabytes from d = 5 on
MAX_DIM = {"PoissonDisk": 3}
SEEDS = st.one_of(st.integers(1, 50), st.integers(1, 2**31 - 2))


# --------------------------------------------------------------------------- strategies
@st.composite
def spaces(draw, min_dim: int = 1, max_dim: int = 5):
    n_vars = draw(st.integers(1, 3))
    sizes = [draw(st.integers(1, 3)) for _ in range(n_vars)]
    while sum(sizes) > max_dim:
        sizes[sizes.index(max(sizes))] -= 1
    if sum(sizes) < min_dim:
        sizes[-1] += min_dim - sum(sizes)
    d = sum(sizes)
    names = draw(st.lists(st.sampled_from(NAMES), min_size=n_vars, max_size=n_vars, unique=True))
    slotted = draw(st.integers(0, 3)) > 0
    perm = draw(st.permutations(list(range(d)))) if slotted else None
    out, comp = [], 0
    for name, size in zip(names, sizes):
        vtype = draw(st.sampled_from(["float", "float", "integer"]))
        lb, ub = [], []
        for _ in range(size):
            if slotted:
                base = -70 + 35 * perm[comp]
                if vtype == "float":
                    lo = round(base + draw(st.integers(0, 100)) / 10.0, 6)
                    width = draw(st.one_of(st.sampled_from([0.1, 0.25, 0.7, 1.0, 2.5, 3.3, 10.0]), st.integers(1, 200).map(lambda k: k / 10.0)))
                    lb.append(lo)
                    ub.append(round(lo + width, 6))
                else:
                    lo = base + draw(st.integers(0, 10))
                    lb.append(lo)
                    ub.append(lo + draw(st.sampled_from([1, 1, 2, 3, 6, 7, 20, 0])))
            else:
                lo, hi = draw(st.sampled_from(FREE_FLOAT if vtype == "float" else FREE_INT))
                lb.append(lo)
                ub.append(hi)
            comp += 1
        out.append({"name": name, "size": size, "type": vtype, "lb": lb, "ub": ub, "value": draw(st.sampled_from(["none", "none", "lb", "mid"]))})
    return out


def _dim(space) -> int:
    return sum(v["size"] for v in space)


def _pick(options):
    """One of the options, evenly: a wide integer taken modulo the number of options.

    (st.sampled_from clusters on a few values within one run - whole algorithms or boundary cases were
    left with a handful of cases at some seeds; the wide integer is drawn almost uniformly.)
    """
    options = list(options)
    return st.integers(0, 2**20).map(lambda k: options[k % len(options)])


def _remainder(m: int):
    """0..m-1 with the two ends (where an off-by-one in a count formula shows) as likely as the interior."""
    return st.integers(0, 2**20).map(lambda k: [0, m - 1, (k // 4) % m, (k // 4) % m][k % 4])


@st.composite
def settings_for(draw, algo: str, space, with_seed: bool = True):
    """Keyword settings of one algorithm (JSON primitives) valid for the dimension of the space."""
    d = _dim(space)
    s: dict = {}
    if algo in SCIPY:
        s["n_samples"] = draw(st.integers(1, 60))
        if algo in ("Halton", "Sobol", "LHS") and draw(st.booleans()):
            s["scramble"] = draw(st.booleans())
        if algo not in ("MC", "PoissonDisk"):  # a saturated PoissonDisk hands a single point to the optimiser (ValueError)
            opt = draw(st.sampled_from([None] * 8 + ["lloyd", "random-cd"]))
            if opt == "lloyd" and d < 2:
                opt = None  # SciPy's Lloyd iteration rejects dimension 1 with a ValueError
            if opt is not None:
                s["optimization"] = opt
                # SciPy's optimisers need two points (ValueError otherwise), Lloyd's Voronoi diagram d+2 (QhullError)
                s["n_samples"] = max(2 * d + 2 if opt == "lloyd" else 2, min(s["n_samples"], 12))
        if algo == "LHS" and draw(st.integers(0, 5)) == 0:
            primes = [p for p in (2, 3, 5, 7) if d <= p + 1]
            s["strength"] = 2
            s["n_samples"] = draw(st.sampled_from(primes)) ** 2
            s.pop("optimization", None)
        if algo == "PoissonDisk":
            if draw(st.booleans()):
                s["radius"] = draw(st.sampled_from([0.01, 0.05, 0.1, 0.2] if d <= 2 else [0.05, 0.1, 0.2]))
            if draw(st.booleans()):
                s["hypersphere"] = draw(st.sampled_from(["volume", "surface"]))
            if draw(st.booleans()):
                s["ncandidates"] = draw(st.sampled_from([5, 30]))
    elif algo == "OT_OPT_LHS":
        s["n_samples"] = draw(st.integers(2, 30))
        if draw(st.booleans()):
            s["annealing"] = draw(st.booleans())
        if draw(st.booleans()):
            s["criterion"] = draw(st.sampled_from(["C2", "PhiP", "MinDist"]))
        if draw(st.booleans()):
            s["temperature"] = draw(st.sampled_from(["Geometric", "Linear"]))
        s["n_replicates"] = draw(st.integers(1, 20))
    elif algo in OT_SAMPLING:
        s["n_samples"] = draw(st.integers(1, 60))
    elif algo in OT_STRATIFIED:
        m = {"OT_AXIAL": 2 * d, "OT_FACTORIAL": 2**d, "OT_COMPOSITE": 2 * d + 2**d}[algo]
        if draw(st.booleans()):
            s["n_samples"] = 1 + m * draw(st.integers(1, 3)) + draw(_remainder(m))
        else:
            s["levels"] = sorted(draw(st.lists(st.sampled_from([0.1, 0.25, 0.5, 0.8, 1.0, 0.05]), min_size=1, max_size=3, unique=True)))
            centre = st.sampled_from([0.5, 0.3, 0.25, 0.9, 0.05])
            mode = draw(st.sampled_from(["default", "scalar", "list"]))
            if mode == "scalar":
                s["centers"] = draw(centre)
            elif mode == "list":
                s["centers"] = [draw(centre) for _ in range(d)]
    elif algo in FULLFACT:
        mode = draw(_pick(["n", "n", "scalar", "list", "list"]))
        top = 4 if d <= 3 else 3
        if mode == "n":
            k = draw(st.integers(1, 4 if d <= 3 else 3))
            s["n_samples"] = draw(st.one_of(st.integers(1, 60), st.integers(1, 300), st.sampled_from([k**d, max(1, k**d - 1), k**d + 1])))
        elif mode == "scalar":
            s["levels"] = draw(st.integers(1, top))
        else:
            # one level count per direction; single-level directions at arbitrary positions (before, between, after the others)
            s["levels"] = [draw(st.sampled_from([1, 1, 2, 3, top])) for _ in range(d)]
    elif algo == "OT_SOBOL_INDICES":
        second = draw(st.sampled_from([None, True, False]))
        if second is not None:
            s["eval_second_order"] = second
        block = d + 2 if (second is False or d == 2) else 2 * d + 2
        s["n_samples"] = block * draw(st.integers(1, 4)) + draw(_remainder(block))
    elif algo == "PYDOE_LHS":
        s["n_samples"] = draw(st.integers(1, 40))
        crit = draw(st.sampled_from([None, None, "center", "c", "maximin", "m", "centermaximin", "cm", "correlation", "corr", "lhsmu"]))
        if crit in ("correlation", "corr"):
            # pyDOE takes the maximum over the off-diagonal correlations != 1: empty in dimension 1 or with two points
            if d < 2:
                crit = None
            else:
                s["n_samples"] = max(3, s["n_samples"])
        if crit is not None:
            s["criterion"] = crit
            if crit not in ("center", "c", "lhsmu"):
                s["n_samples"] = max(2, s["n_samples"])  # pyDOE's distance/correlation criteria need two points (ValueError)
        if draw(st.booleans()):
            s["iterations"] = draw(st.integers(1, 5))
    elif algo == "DiagonalDOE":
        s["n_samples"] = draw(st.integers(2, 60))
        pool = [v["name"] for v in space] + [str(i) for i in range(d)]
        s["reverse"] = draw(st.lists(st.sampled_from(pool), max_size=3, unique=True))
    elif algo == "MorrisDOE":
        inner = draw(st.sampled_from(MORRIS_INNER))
        if draw(st.booleans()):
            s["doe_algo_name"] = inner
        else:
            inner = "PYDOE_LHS"
        inner_settings: dict = {}
        if draw(st.booleans()):
            s["n_samples"] = (d + 1) * draw(st.integers(1, 6)) + draw(_remainder(d + 1))
        elif draw(st.booleans()):
            inner_settings["n_samples"] = draw(st.integers(1, 6))
        if with_seed and draw(st.booleans()):
            inner_settings[SEED_KEY[inner]] = draw(SEEDS)
        if inner_settings or draw(st.booleans()):
            s["doe_algo_settings"] = inner_settings
        if draw(st.booleans()):
            s["step"] = draw(st.sampled_from([0.05, 0.1, 0.25, 0.5, 0.01, 0.33]))
    elif algo == "CustomDOE":
        n = draw(st.integers(1, 12))
        s["_custom"] = {
            "form": draw(_pick(["array", "dict", "dict", "dicts", "dicts", "file"])),
            "t": [[draw(st.integers(0, 8)) for _ in range(d)] for _ in range(n)],
            # insertion order of the keys of the mappings: a mapping is keyed by name, its order carries no meaning
            "order": draw(st.one_of(st.just(list(range(len(space)))[::-1]), st.just(list(range(1, len(space))) + [0]), st.permutations(list(range(len(space)))))),
        }
    if with_seed and algo in SEED_KEY and draw(st.integers(0, 3)) > 0:
        s[SEED_KEY[algo]] = draw(SEEDS)
    return s


@st.composite
def cases(draw, routes):
    algo = draw(_pick(ALGOS))
    space = draw(spaces(max_dim=MAX_DIM.get(algo, 5)))
    settings = draw(settings_for(algo, space))
    route = draw(st.sampled_from(routes))
    if route.startswith("exec") and draw(st.integers(0, 9)) == 0:
        # a documented DOE setting: the functions then take normalised inputs, the samples stay physical
        settings["normalize_design_space"] = draw(st.sampled_from([True, True, False]))
    return {"algo": algo, "space": space, "settings": settings, "route": route, "rng": draw(st.integers(0, 2**31 - 1))}


@st.composite
def custom_cases(draw):
    """CustomDOE only: every input form (2D array, mapping of 2D arrays, list of per-point mappings, file) on every route."""
    space = draw(spaces())
    return {
        "algo": "CustomDOE", "space": space, "settings": draw(settings_for("CustomDOE", space)),
        "route": draw(st.sampled_from(["lib", "top", "model", "exec", "exec_factory"])), "rng": draw(st.integers(0, 2**31 - 1)),
    }


@st.composite
def seed_cases(draw):
    algo = draw(_pick(ALGOS))
    space = draw(spaces(max_dim=MAX_DIM.get(algo, 5)))
    # a call without seed after the first one is where the default seed sequence (1, 2, 3, ...) shows
    template = draw(_pick(["none_none", "free", "seed_none", "same_seed_twice", "default_then_the_same_seed"]))
    if template == "none_none":
        calls = [None, None]
    elif template == "same_seed_twice":
        calls = [draw(SEEDS)] * 2  # one library object asked twice for the same seed
    elif template == "default_then_the_same_seed":
        calls = [None, 1]  # the first call without seed uses seed 1
    elif template == "seed_none":
        calls = [draw(SEEDS), None]
    else:
        calls = draw(st.lists(st.one_of(st.none(), SEEDS), min_size=1, max_size=3))
    return {
        "algo": algo, "space": space, "settings": draw(settings_for(algo, space, with_seed=algo == "MorrisDOE")),
        "calls": calls, "route": draw(st.sampled_from(["lib", "exec"])), "rng": draw(st.integers(0, 2**31 - 1)),
    }


# --------------------------------------------------------------------------- building the real objects
def reseed(value: int) -> None:
    """Re-seed every global generator a DOE library could read."""
    import openturns

    np.random.seed(value % (2**32))
    openturns.RandomGenerator.SetSeed(value % (2**31 - 1))


def flat(space):
    lb = np.array([b for v in space for b in v["lb"]], dtype=float)
    ub = np.array([b for v in space for b in v["ub"]], dtype=float)
    is_int = np.array([v["type"] == "integer" for v in space for _ in range(v["size"])], dtype=bool)
    return lb, ub, is_int


def build_space(space):
    from gemseo.algos.design_space import DesignSpace

    ds = DesignSpace()
    for v in space:
        integer = v["type"] == "integer"
        dtype = int if integer else float
        lb, ub = np.array(v["lb"], dtype=dtype), np.array(v["ub"], dtype=dtype)
        value = None
        if v["value"] == "lb":
            value = lb.copy()
        elif v["value"] == "mid":
            value = lb + (ub - lb) // 2 if integer else np.minimum(lb + (ub - lb) / 2, ub)
        ds.add_variable(v["name"], size=v["size"], type_="integer" if integer else "float", lower_bound=lb, upper_bound=ub, value=value)
    return ds


def custom_points(space, t_rows) -> np.ndarray:
    """Points of the box from eighths: lb + t/8*(ub-lb), integer components rounded."""
    lb, ub, is_int = flat(space)
    pts = np.empty((len(t_rows), lb.size))
    for i, row in enumerate(t_rows):
        x = lb + (np.array(row, dtype=float) / 8.0) * (ub - lb)
        x = np.where(is_int, np.round(x), x)
        pts[i] = np.minimum(np.maximum(x, lb), ub)
    return pts


def real_settings(p, scratch_files: list) -> dict:
    """The keyword arguments passed to gemseo (numpy samples / file for CustomDOE)."""
    s = {k: (dict(v) if isinstance(v, dict) else v) for k, v in p["settings"].items() if k != "_custom"}
    custom = p["settings"].get("_custom")
    if custom is not None:
        pts = custom_points(p["space"], custom["t"])
        form = custom["form"]
        if form == "array":
            s["samples"] = pts
        elif form in ("dict", "dicts"):
            starts, start = [], 0
            for v in p["space"]:
                starts.append(start)
                start += v["size"]
            order = custom.get("order") or list(range(len(p["space"])))
            if form == "dict":
                s["samples"] = {p["space"][i]["name"]: pts[:, starts[i] : starts[i] + p["space"][i]["size"]] for i in order}
            else:
                s["samples"] = [{p["space"][i]["name"]: row[starts[i] : starts[i] + p["space"][i]["size"]] for i in order} for row in pts]
        else:
            fd, path = tempfile.mkstemp(suffix=".csv", dir=os.environ.get("VERIF_SCRATCH"))
            os.close(fd)
            np.savetxt(path, pts, delimiter=",", fmt="%.17g")
            scratch_files.append(path)
            s["doe_file"] = path
    return s


class Run:
    """Outcome of one library call."""

    def __init__(self, samples, unit=None, database_x=None, flag_before=None, flag_after=None, space=None):
        self.samples, self.unit, self.database_x = samples, unit, database_x
        self.flag_before, self.flag_after, self.space = flag_before, flag_after, space


def call(p, route: str, extra: dict | None = None, unit_sampling: bool = False, library=None) -> Run:
    """One library call on a fresh design space (and a fresh library unless one is given)."""
    import gemseo
    from gemseo.algos.doe.factory import DOELibraryFactory
    from gemseo.algos.optimization_problem import OptimizationProblem
    from gemseo.core.mdo_functions.mdo_function import MDOFunction

    files: list = []
    try:
        kwargs = real_settings(p, files)
        kwargs.update(extra or {})
        ds = build_space(p["space"])
        before = ds.enable_integer_variables_normalization
        algo = p["algo"]
        if route in ("exec", "exec_factory"):
            problem = OptimizationProblem(ds)
            problem.objective = MDOFunction(lambda x: float(np.sum(x)), "f")
            if route == "exec":
                lib = library or DOELibraryFactory().create(algo)
                lib.execute(problem, **kwargs)
                samples, unit = lib.samples, lib.unit_samples
            else:
                DOELibraryFactory().execute(problem, algo_name=algo, **kwargs)
                samples, unit = None, None
            xs = problem.database.get_x_vect_history()
            return Run(samples, unit, xs, before, ds.enable_integer_variables_normalization, ds)
        if route == "top":
            samples = gemseo.compute_doe(ds, unit_sampling=unit_sampling, algo_name=algo, **kwargs)
        else:
            lib = library or DOELibraryFactory().create(algo)
            if route == "model":
                model = lib.ALGORITHM_INFOS[algo].Settings(**kwargs)
                samples = lib.compute_doe(ds, unit_sampling=unit_sampling, settings_model=model)
            else:
                samples = lib.compute_doe(ds, unit_sampling=unit_sampling, **kwargs)
        return Run(samples, None, None, before, ds.enable_integer_variables_normalization, ds)
    finally:
        for path in files:
            try:
                os.remove(path)
            except OSError:
                pass


# --------------------------------------------------------------------------- reference model
def largest_root(n: int, d: int) -> int:
    """Largest integer k with k**d <= n (integer arithmetic)."""
    k = 1
    while (k + 1) ** d <= n:
        k += 1
    return k


def expected_count(p):
    """(rule, value): rule in {"exact", "sobol_indices"}; the documented number of samples."""
    algo, s, d = p["algo"], p["settings"], _dim(p["space"])
    n = s.get("n_samples", 0)
    if algo in EXACT_N:
        return "exact", n
    if algo in FULLFACT:
        if n:
            return "exact", largest_root(n, d) ** d
        levels = s["levels"]
        return "exact", (levels**d if isinstance(levels, int) else math.prod(levels))
    if algo in OT_STRATIFIED:
        m = {"OT_AXIAL": 2 * d, "OT_FACTORIAL": 2**d, "OT_COMPOSITE": 2 * d + 2**d}[algo]
        return "exact", 1 + m * ((n - 1) // m if n else len(s["levels"]))
    if algo == "OT_SOBOL_INDICES":
        second = s.get("eval_second_order", True)
        return "sobol_indices", (2 * d + 2 if second and d != 2 else d + 2)
    if algo == "MorrisDOE":
        replicates = n // (d + 1) if n else s.get("doe_algo_settings", {}).get("n_samples", 5)
        return "exact", replicates * (d + 1)
    if algo == "CustomDOE":
        return "exact", len(s["_custom"]["t"])
    raise AssertionError(algo)


def affine_image(unit: np.ndarray, space) -> tuple[np.ndarray, np.ndarray]:
    """lb + u*(ub-lb) with integer components rounded; also the mask of rounding ties."""
    lb, ub, is_int = flat(space)
    raw = unit * (ub - lb) + lb
    ties = is_int & (np.abs(np.abs(raw - np.floor(raw)) - 0.5) < 1e-9)
    return np.where(is_int, np.round(raw), raw), ties


def check_samples(p, ctx, samples, oracle: str, where: str, count: bool = True):
    """Shape, box, integrality and (optionally) count of a sample array."""
    lb, ub, is_int = flat(p["space"])
    d = lb.size
    ctx.check(isinstance(samples, np.ndarray) and samples.ndim == 2 and samples.shape[1] == d, f"{oracle}:shape",
              f"{where}: expected a 2D array with {d} columns, got {getattr(samples, 'shape', type(samples))}")
    values = np.asarray(samples, dtype=float)
    ctx.check(bool(np.all(np.isfinite(values))), f"{oracle}:finite", f"{where}: non-finite sample")
    tol = 100 * EPS * np.maximum(1.0, np.maximum(np.abs(lb), np.abs(ub)))  # design-space tolerance, scaled by the magnitude
    excess = np.maximum(lb - values, values - ub)
    if values.size:
        ulps = float(np.max(excess / np.spacing(np.maximum(1.0, np.maximum(np.abs(lb), np.abs(ub))))))
        ctx.extra["max_bound_excess_ulp"] = max(ctx.extra.get("max_bound_excess_ulp", 0.0), ulps, 0.0)
    bad = np.argwhere(excess > tol)
    if bad.size:
        i, c = (int(v) for v in bad[0])
        ctx.fail(f"{oracle}:bounds", f"{where}: sample {i} component {c} = {values[i, c]!r} outside [{lb[c]}, {ub[c]}]", row=values[i])
    if is_int.any() and values.size:
        cols = values[:, is_int]
        ctx.check(bool(np.all(cols == np.round(cols))), f"{oracle}:integer", f"{where}: integer variable with a non-integer value", rows=cols[:3])
    if count:
        check_count(p, ctx, values.shape[0], oracle, where)
    return values


def check_count(p, ctx, n: int, oracle: str, where: str, upper_only: bool = False):
    """Count rule: == n_samples (sampling), == documented formula (structured), never above the request."""
    d = _dim(p["space"])
    requested = p["settings"].get("n_samples", 0)
    rule, value = expected_count(p)
    if requested:
        if n > requested and p["algo"] == "OT_SOBOL_INDICES" and d == 1 and p["settings"].get("eval_second_order", True) \
                and ctx.known("sobol_indices_dimension_1_second_order"):
            return
        ctx.check(n <= requested, f"{oracle}:count", f"{where}: {n} samples returned, more than the {requested} requested")
    if upper_only:
        ctx.check(rule != "exact" or n <= value, f"{oracle}:count", f"{where}: {n} points, more than the documented count {value}")
    elif rule == "exact":
        if p["algo"] == "PoissonDisk" and 0 < n < value and ctx.known("poisson_disk_saturated"):
            return
        ctx.check(n == value, f"{oracle}:count", f"{where}: {n} samples, the documented count is {value}")
    else:
        # OpenTURNS' Sobol' experiment: whole blocks, as many as fit into n_samples
        ctx.check(n > 0 and n % value == 0 and n > requested - value, f"{oracle}:count",
                  f"{where}: {n} samples for n_samples={requested}, expected the largest multiple of {value} not above it")


def check_unit_and_image(p, ctx, samples, unit, oracle: str, where: str):
    lb, ub, is_int = flat(p["space"])
    ctx.check(isinstance(unit, np.ndarray) and unit.shape == samples.shape, f"{oracle}:unit_shape",
              f"{where}: unit samples of shape {getattr(unit, 'shape', None)}, samples of shape {samples.shape}")
    # 4*eps: the stratified designs reach 1 through c + 1*(1-c)
    ctx.check(bool(np.all((unit >= -4 * EPS) & (unit <= 1 + 4 * EPS))), f"{oracle}:unit_cube",
              f"{where}: unit samples outside [0,1]: min {unit.min() if unit.size else None}, max {unit.max() if unit.size else None}")
    image, ties = affine_image(unit, p["space"])
    # same IEEE operations as the design space performs (u*(ub-lb)+lb): 4 ulps of the magnitude are granted
    tol = 4 * EPS * np.maximum(1.0, np.maximum(np.abs(lb), np.abs(ub)))
    diff = np.abs(samples - image)
    diff = np.where(ties, np.maximum(diff - 1.0, 0.0), diff)
    bad = np.argwhere(diff > tol)
    if bad.size:
        i, c = (int(v) for v in bad[0])
        ctx.fail(f"{oracle}:image", f"{where}: sample {i} component {c} is {samples[i, c]!r}, the image of the unit sample {unit[i, c]!r} is {image[i, c]!r}")


def check_custom(p, ctx, values, oracle: str):
    """A custom DOE is the user's points, column for column.

    The unit samples are derived from them (not the converse), so the image oracle does not apply;
    transform-then-untransform and the CSV parser may each move a float component by an ulp: 8 ulps granted.
    """
    lb, ub, is_int = flat(p["space"])
    pts = custom_points(p["space"], p["settings"]["_custom"]["t"])
    tol = 8 * EPS * np.maximum(1.0, np.maximum(np.abs(lb), np.abs(ub)))
    ctx.check(values.shape == pts.shape and bool(np.all(np.abs(values - pts) <= tol)), f"{oracle}:custom",
              "the custom DOE is not the given samples", got=values[:3], given=pts[:3])
    ctx.check(bool(np.all(values[:, is_int] == pts[:, is_int])), f"{oracle}:custom", "integer components of the custom samples were altered")


def factorial_levels(p) -> list[int]:
    """Number of levels of each direction of a full-factorial design."""
    s, d = p["settings"], _dim(p["space"])
    if s.get("n_samples"):
        return [largest_root(s["n_samples"], d)] * d
    return [s["levels"]] * d if isinstance(s["levels"], int) else list(s["levels"])


def check_factorial_structure(p, ctx, values, unit):
    """Direction j of a full-factorial design takes exactly levels[j] values; every combination occurs once.

    A single-level direction sits at the centre; the OpenTURNS and pyDOE designs are the same set of points.
    """
    levels = factorial_levels(p)
    rows = {tuple(np.round(r, 12)) for r in unit}
    ctx.check(len(rows) == unit.shape[0], "compute:factorial", f"{unit.shape[0]} unit samples but only {len(rows)} distinct combinations")
    for j, n_levels in enumerate(levels):
        distinct = np.unique(np.round(unit[:, j], 12))
        ctx.check(distinct.size == n_levels, "compute:factorial",
                  f"direction {j} takes {distinct.size} distinct values {distinct.tolist()[:6]}, its number of levels is {n_levels} (levels {levels})")
        if n_levels == 1:
            ctx.check(abs(distinct[0] - 0.5) <= 4 * EPS, "compute:factorial", f"single-level direction {j} is at {distinct[0]!r}, not at the centre 0.5")
        else:
            # the documented designs include both ends of every direction with at least two levels
            ctx.check(abs(distinct[0]) <= 4 * EPS and abs(distinct[-1] - 1.0) <= 4 * EPS, "compute:factorial",
                      f"direction {j} spans [{distinct[0]!r}, {distinct[-1]!r}], not [0, 1]")
    other = "PYDOE_FULLFACT" if p["algo"] == "OT_FULLFACT" else "OT_FULLFACT"
    twin_settings = {k: v for k, v in p["settings"].items() if k != "seed"}
    twin = np.asarray(call(dict(p, algo=other, settings=twin_settings), "lib").samples, dtype=float)
    ctx.check(twin.shape == values.shape, "compute:factorial_twin", f"{p['algo']} gives {values.shape[0]} samples, {other} {twin.shape[0]}")
    lb, ub, _ = flat(p["space"])
    tol = 8 * EPS * np.maximum(1.0, np.maximum(np.abs(lb), np.abs(ub)))
    width = np.where(ub > lb, ub - lb, 1.0)

    def ordered(points):
        # sort by the level index of each coordinate (an integer up to rounding noise), not by raw floats
        keys = np.rint((points - lb) / width * (np.array(levels) - 1))
        return points[np.lexsort(keys.T[::-1])]

    a, b = ordered(values), ordered(twin)
    ctx.check(bool(np.all(np.abs(a - b) <= tol)), "compute:factorial_twin", f"{p['algo']} and {other} are not the same set of points for levels {levels}", first=a[:4], second=b[:4])
    if isinstance(p["settings"].get("levels"), list):
        ones = [j for j, n in enumerate(levels) if n == 1]
        if ones and any(n > 1 for n in levels[ones[0] :]):
            ctx.cls("factorial_single_level_direction_before_a_multi_level_one")


def classify(p, ctx, oracle: str):
    lb, ub, is_int = flat(p["space"])
    d = lb.size
    ctx.cls(f"algo:{p['algo']}", f"route:{p['route']}", f"dim:{d}")
    if is_int.any() and not is_int.all():
        ctx.cls("mixed_float_integer")
    elif is_int.all():
        ctx.cls("all_integer")
        if all(v["value"] != "none" for v in p["space"]):
            ctx.cls("all_integer_with_current_value(int dtype)")
    if any(v["size"] > 1 for v in p["space"]):
        ctx.cls("variable_of_size>1")
    if np.any(lb == ub):
        ctx.cls("component_with_lb==ub")
    seeded = any(k in p["settings"] for k in ("seed", "random_state"))
    ctx.cls("explicit_seed" if seeded else "default_seed")
    if p["settings"].get("normalize_design_space"):
        ctx.cls("normalize_design_space")
    if "_custom" in p["settings"]:
        names = [v["name"] for v in p["space"]]
        ctx.cls(f"custom:{p['settings']['_custom']['form']}" + ("" if names == sorted(names) else ":names_not_in_alphabetical_order"))
        order = p["settings"]["_custom"].get("order") or []
        if p["settings"]["_custom"]["form"] in ("dict", "dicts") and list(order) != sorted(order):
            ctx.cls(f"custom:{p['settings']['_custom']['form']}:keys_not_in_design_space_order")
    off_unit = bool(np.any((lb != 0.0) | (ub != 1.0)))
    if off_unit and (d >= 2 or is_int.any()):
        ctx.nontriv((oracle, p["algo"], p["space"], p["settings"], p["route"]))
        ctx.cls("nontrivial")


def same_rows(a: np.ndarray, b: np.ndarray) -> bool:
    return a.shape == b.shape and a.dtype == b.dtype and bool(np.array_equal(a, b))


# --------------------------------------------------------------------------- oracles
def excluded(p, ctx) -> bool:
    """Input classes of open ledger entries."""
    custom = p["settings"].get("_custom")
    if custom and custom["form"] == "dict" and len(p["space"]) >= 2 and ctx.known("custom_dict_of_2d_arrays_multi_variable"):
        return True
    return bool(p["settings"].get("normalize_design_space") and p["route"].startswith("exec") and ctx.known("doe_execute_with_normalized_design_space"))


def case_compute(p, ctx):
    """compute_doe through the library (keywords or settings model) or gemseo.compute_doe."""
    if excluded(p, ctx):
        return
    reseed(p["rng"])
    lb, ub, is_int = flat(p["space"])
    run = call(p, p["route"])
    values = check_samples(p, ctx, run.samples, "compute", "compute_doe")
    ctx.check(run.flag_after == run.flag_before, "compute:space_restored",
              "enable_integer_variables_normalization of the design space was changed by compute_doe")
    if p["algo"] == "CustomDOE":
        check_custom(p, ctx, values, "compute")
    else:
        reseed(p["rng"] + 1)
        unit = call(p, p["route"], unit_sampling=True).samples
        check_unit_and_image(p, ctx, values, unit, "compute", "compute_doe")
        if p["algo"] in FULLFACT:
            check_factorial_structure(p, ctx, values, unit)
        if p["algo"] == "DiagonalDOE":
            n = values.shape[0]
            names = [v["name"] for v in p["space"] for _ in range(v["size"])]
            tol = 4 * EPS * np.maximum(1.0, np.maximum(np.abs(lb), np.abs(ub)))
            for c in range(lb.size):
                rev = names[c] in p["settings"]["reverse"] or str(c) in p["settings"]["reverse"]
                first, last = (ub[c], lb[c]) if rev else (lb[c], ub[c])
                ctx.check(abs(values[0, c] - first) <= tol[c] and abs(values[n - 1, c] - last) <= tol[c], "compute:diagonal",
                          f"component {c} (reverse={rev}) runs from {values[0, c]} to {values[n - 1, c]}, expected {first} to {last}")
                steps = np.diff(values[:, c]) * (-1 if rev else 1)
                ctx.check(bool(np.all(steps >= -tol[c])), "compute:diagonal", f"component {c} is not monotone along the diagonal")
    # the design space still normalises the way it did (integer components untouched)
    if values.shape[0] and is_int.any():
        x = np.array(values[0], dtype=float)
        normed = run.space.normalize_vect(x.copy())
        ctx.check(bool(np.all(normed[is_int] == x[is_int])), "compute:space_restored",
                  "after compute_doe the design space normalises integer components", x=x, normalized=normed)
    classify(p, ctx, "compute")
    ctx.sample({"oracle": "compute", "case": p})


def case_execute(p, ctx):
    """library.execute / DOELibraryFactory.execute on a trivial problem."""
    if excluded(p, ctx):
        return
    reseed(p["rng"])
    lb, ub, is_int = flat(p["space"])
    run = call(p, p["route"])
    ctx.check(run.flag_after == run.flag_before, "execute:space_restored",
              "enable_integer_variables_normalization of the design space was changed by execute")
    xs = [np.asarray(x, dtype=float) for x in run.database_x]
    if run.samples is not None:
        values = check_samples(p, ctx, run.samples, "execute", "library.samples")
        if p["algo"] == "CustomDOE":
            check_custom(p, ctx, values, "execute")
        else:
            check_unit_and_image(p, ctx, values, run.unit, "execute", "library.samples")
        # database keys: every sample is stored, every stored point is a sample, in the order of first appearance
        firsts = []
        for row in values:
            if not any(np.array_equal(row, f) for f in firsts):
                firsts.append(row)
        ctx.check(len(firsts) <= len(xs) <= len(values), "execute:database",
                  f"{len(xs)} database entries for {len(values)} samples ({len(firsts)} distinct)")
        if p["settings"].get("normalize_design_space"):
            # the functions then work in normalised coordinates: a sample is recorded as unnormalize(normalize(sample)),
            # i.e. up to the round-off of the affine round trip (8 ulp of the bounds' magnitude), not bit for bit
            slack = 8 * np.finfo(float).eps * np.maximum(1.0, np.maximum(np.abs(lb), np.abs(ub)))

            def same_point(a, b):
                return a.shape == b.shape and bool(np.all(np.abs(a - b) <= slack))
        else:
            def same_point(a, b):
                return bool(np.array_equal(a, b))
        for x in xs:
            ctx.check(x.shape == (lb.size,) and any(same_point(x, f) for f in firsts), "execute:database", f"database point {x!r} is not a sample")
        if len(xs) == len(firsts):
            ctx.check(all(same_point(x, f) for x, f in zip(xs, firsts)), "execute:database", "database points are not in the order of the samples")
        if len(firsts) < len(values):
            ctx.cls("duplicated_samples")
    else:
        # only the database is observable: equal samples are merged there, so the count is an upper bound
        for x in xs:
            ctx.check(x.shape == (lb.size,), "execute:database", f"database point of shape {x.shape}")
        stacked = np.array(xs, dtype=float).reshape(len(xs), lb.size)
        check_samples(p, ctx, stacked, "execute", "database", count=False)
        distinct = not is_int.all() and not np.any(lb == ub) and p["algo"] in EXACT_N and "scramble" not in p["settings"]
        check_count(p, ctx, len(xs), "execute", "database", upper_only=not distinct)
        if p["algo"] == "CustomDOE":
            # the functions are evaluated at the given points, in the given order (equal points are stored once)
            pts = custom_points(p["space"], p["settings"]["_custom"]["t"])
            firsts = []
            for row in pts:
                if not any(np.array_equal(row, f) for f in firsts):
                    firsts.append(row)
            tol = 8 * EPS * np.maximum(1.0, np.maximum(np.abs(lb), np.abs(ub)))
            ctx.check(len(xs) <= len(firsts), "execute:custom", f"{len(xs)} database points for {len(firsts)} distinct given points")
            if len(xs) == len(firsts):
                ctx.check(all(bool(np.all(np.abs(x - f) <= tol)) for x, f in zip(xs, firsts)), "execute:custom",
                          "the database points are not the given points in the given order", database=stacked[:3], given=np.array(firsts)[:3])
    # same samples as compute_doe with the same settings and seed
    seeded = p["algo"] not in SEED_KEY or SEED_KEY[p["algo"]] in p["settings"]
    if p["algo"] == "MorrisDOE":
        seeded = True  # the inner library is created anew at every call
    if seeded and run.samples is not None:
        reseed(p["rng"] + 1)
        other = call(p, "lib").samples
        ctx.check(other.shape == run.samples.shape and bool(np.array_equal(np.asarray(other, dtype=float), np.asarray(run.samples, dtype=float))),
                  "execute:same_as_compute_doe", "execute and compute_doe give different samples for the same settings and seed")
    classify(p, ctx, "execute")
    ctx.sample({"oracle": "execute", "case": p})


def case_seed(p, ctx):
    """Repetition is bit-identical; the default seed sequence of one library is reproduced by explicit seeds."""
    from gemseo.algos.doe.factory import DOELibraryFactory

    if excluded(p, ctx):
        return
    algo, route = p["algo"], p["route"]
    key = SEED_KEY.get(algo)
    library = DOELibraryFactory().create(algo)
    outs = []
    for i, seed in enumerate(p["calls"], 1):
        reseed(p["rng"] + i)
        extra = {key: seed} if key and seed is not None else {}
        run = call(p, route, extra=extra, library=library)
        outs.append(run.samples)
        check_samples(p, ctx, run.samples, "seed", f"call {i}")
    for i, seed in enumerate(p["calls"], 1):
        # Seeder: the i-th call of a library object without seed uses initial_seed + i = i
        effective = seed if seed is not None else i
        extra = {key: effective} if key else {}
        reseed(p["rng"] + 1000 + 7 * i)  # another global state: only the seed may matter
        again = call(p, route, extra=extra).samples
        ctx.check(same_rows(again, outs[i - 1]), "seed:reproducible",
                  f"call {i} of one library object (seed={seed}) differs from a fresh library run with seed={effective if key else None}",
                  first=np.asarray(outs[i - 1])[:2], second=np.asarray(again)[:2])
    if key and len(outs) >= 2 and outs[0].shape == outs[1].shape and outs[0].size >= 2:
        eff = [s if s is not None else i for i, s in enumerate(p["calls"], 1)]
        if eff[0] != eff[1]:
            ctx.cls(f"seed_effect:{algo}:{'same' if np.array_equal(outs[0], outs[1]) else 'different'}_samples_for_different_seeds")
    if any(s is None for s in p["calls"][1:]) and key:
        ctx.cls("default_seed_after_first_call")
    classify(p, ctx, "seed")
    ctx.sample({"oracle": "seed", "case": p})


def count_grid(shard: int = 0, n_shards: int = 1):
    """Every structured design over dimensions 1-4 and every n_samples across several periods of its count formula.

    The count rules are step functions of n_samples: an explicit sweep decides them at every seed, where random
    draws reach a given boundary only now and then.
    """
    k = 0
    for d in range(1, 5):
        space = [{"name": "y", "size": d, "type": "float", "lb": [-3.5 + 10.0 * i for i in range(d)], "ub": [-1.25 + 10.0 * i for i in range(d)], "value": "none"}]
        grids = {
            "OT_FULLFACT": range(1, 100), "PYDOE_FULLFACT": range(1, 100), "DiagonalDOE": range(2, 6),
            "OT_AXIAL": range(1 + 2 * d, 2 + 4 * 2 * d), "OT_FACTORIAL": range(1 + 2**d, 2 + 3 * 2**d),
            "OT_COMPOSITE": range(1 + 2 * d + 2**d, 2 + 3 * (2 * d + 2**d)), "MorrisDOE": range(d + 1, 4 * (d + 1) + 1),
        }
        for algo, ns in grids.items():
            for n in ns:
                k += 1
                if k % n_shards == shard:
                    yield {"algo": algo, "space": space, "settings": {"n_samples": n, **({"reverse": []} if algo == "DiagonalDOE" else {})}, "route": "lib", "rng": n}
        for second in (True, False):
            block = d + 2 if (not second or d == 2) else 2 * d + 2
            for n in range(block, 4 * block + 1):
                k += 1
                if k % n_shards == shard:
                    yield {"algo": "OT_SOBOL_INDICES", "space": space, "settings": {"n_samples": n, "eval_second_order": second}, "route": "lib", "rng": n}


def case_custom(p, ctx):
    (case_execute if p["route"].startswith("exec") else case_compute)(p, ctx)


ORACLES = {"compute": case_compute, "execute": case_execute, "seed": case_seed, "custom": case_custom, "counts": case_compute}


def run(ctx):
    ctx.drive("compute", cases(["lib", "lib", "top", "model"]), case_compute, quick=1000, thorough=4000)
    ctx.drive("execute", cases(["exec", "exec", "exec_factory"]), case_execute, quick=450, thorough=2000)
    ctx.drive("seed", seed_cases(), case_seed, quick=350, thorough=1500)
    ctx.drive("custom", custom_cases(), case_custom, quick=200, thorough=600)
    ctx.enumerate("counts", count_grid(ctx.shard, ctx.n_shards), case_compute)
