"""C15 - Grammars stay well-formed under edits and validate exactly their definition.

One drawn list of edit/query operations drives, for each of two slots, a JSONGrammar, a
SimpleGrammar (and a PydanticGrammar for the operations whose meaning they share) in lock-step
with a plain Python model of (elements, required names, defaults, allowed types).

Oracles
* ``history``: after every operation names / required names / defaults of every grammar of every
  slot equal the model (so required names and defaults only refer to existing elements, edits of
  one grammar never leak into a copy or into the other slot, invalid edits raise KeyError/ValueError
  and change nothing); read-only queries leave (names, required, defaults, to_json(), schema)
  unchanged; ``to_json()`` and ``schema`` list the model's elements and required names;
  ``validate`` accepts exactly when the model does (tri-state model: undetermined combinations are
  not asserted); the JSON grammar's verdict equals the verdict of the ``jsonschema`` reference
  validator on ``json.loads(grammar.to_json())`` with the harness' own cast of the data; JSON and
  simple grammars driven by the same history have the same names / required names / defaults and
  ``to_simple_grammar()`` yields that simple grammar.  Data are generated from the model (valid by
  construction, then mutated) and the data of the previous validation are validated again after
  the edits that followed (stale compiled validators).
* ``files``: every JSON grammar file shipped under src/gemseo is loaded (constructor,
  update_from_file, pickle round trip, copy); data generated from the raw schema of the file
  (valid by construction, then mutated at the keywords the files use) must get the verdict of the
  reference validator on the *raw file schema* and on ``to_json()``.
"""

from __future__ import annotations

import copy as _copy
import glob
import json
import logging
import os
import pickle
import tempfile

import numpy as np
from hypothesis import strategies as st

logging.getLogger("gemseo").setLevel(logging.CRITICAL)

PROPERTY = "C15"
LEVEL = "exploration"
RULE = (
    "history oracle: Hypothesis draws a list of 1-34 operations (optional defining prefix of 2-4 + body of 1-30) over two slots, each holding a JSONGrammar, a "
    "SimpleGrammar and (half of the cases) a PydanticGrammar plus one Python model per grammar: update_from_names/"
    "types/data (merge on/off), update(other slot, excluded names, merge), update_from_schema/update_from_file, "
    "restrict_to, rename_element (also to the same name), del, add_namespace, clear, copy into the other slot, pickle round trip, degenerate arguments (empty updates, update from itself, restrict_to all names), "
    "required_names add/discard/remove/clear, defaults set/del/update/assign and assignment of the other slot's Defaults object / copy / dict, schemas with additionalProperties false, construction from a pydantic model "
    "with optional fields, invalid variants of these (unknown names, merge on a simple grammar, already namespaced "
    "name) and the queries keys/len/in, names_without_namespace, schema, to_json, repr, getitem, to_simple_grammar, "
    "validate; a quarter of the edits are 'probed': valid data are validated right before and right after the edit. "
    "Validation data are built from the model (every element gets a value of an accepted class: float/int/"
    "empty/2-d/complex arrays, lists, str, int, bool, float, integral float, None, nested dict, complex; optional "
    "elements may be omitted) and then mutated 0-2 times (drop a name, other value class, unknown name); the data of "
    "the previous validate of the slot are validated again. files oracle: each of the shipped *.json grammars x data "
    "generated from its raw schema (type, items, minItems/maxItems, minimum/exclusiveMinimum, enum, format, required) "
    "with 0-2 mutations. Non-trivial = (history) an edit executed after a validate call of that JSON grammar "
    "(validator compiled) followed by a validate of the same data whose verdict differs from the pre-edit verdict; "
    "(files) mutated data that the reference rejects although every required name is present. distinct = structural "
    "hash of the operation prefix / of (file, data description)."
)
ASSUMPTIONS = [
    "update(other) is only exercised between grammars of the same class (the signature says Self)",
    "rename_element/add_namespace targets never collide with an existing element; None is never used as a default "
    "value (rename_element drops it; the statement does not say which is right)",
    "merge semantics are only asserted through the reference validator plus a sound tri-state model: a value is "
    "'must accept' when every merged alternative of its JSON family accepts it and 'must reject' when no alternative "
    "is of its family (genson narrows e.g. any+integer to integer; not asserted either way)",
    "when $schema is the generic 'http://json-schema.org/schema#' (genson default) the draft is ambiguous: the "
    "verdict must equal the draft-04 or the draft-07 reference (they only differ on integral floats as integers)",
    "strings under a 'format' keyword are only generated as well-formed URIs (format checking is optional in draft-04)",
    "pydantic grammars: only names/types/data (ndarray, str, int, bool), update from all-required sources, restrict, "
    "rename, delete, namespace, clear, copy, pickle, construction from a model; required_names/defaults edits are "
    "not applied to them (their meaning is not shared)",
    "namespace maps (to_namespaced/from_namespaced) are not asserted (the statement does not mention them)",
    "to_simple_grammar() is only called when every element has a single JSON 'type' (KeyError('type') otherwise: "
    "observed, outside the statement) and the mapping of 'number' (-> complex) is not asserted",
]

BASE_NAMES = ["a", "b", "c", "x", "y"]
NAMESPACES = ["n1", "n2"]
UNKNOWN = "zz"  # never an element
KINDS = ("json", "simple", "pyd")
N_SLOTS = 2

# --------------------------------------------------------------------------- values
VALUE_CLASSES = [
    "arr_f", "arr_i", "arr_e", "arr_2d", "arr_c", "list_f", "list_s", "str", "int", "bool", "float", "fint",
    "none", "dict_ok", "dict_bad", "cplx",
]
# classes usable to *define* an element through update_from_data
DATA_DEF_CLASSES = ["arr_f", "arr_i", "arr_e", "arr_2d", "arr_c", "list_f", "str", "int", "bool", "float", "fint", "none", "dict_ok", "cplx"]
DEFAULT_CLASSES = ["arr_f", "int", "str", "float", "bool"]
PYD_SHARED_CLASSES = {"arr_f", "arr_i", "arr_e", "arr_2d", "arr_c", "str", "int", "bool"}


def make_value(cls: str):
    """A fresh Python value of a value class."""
    if cls == "arr_f":
        return np.array([1.0, 2.5])
    if cls == "arr_i":
        return np.array([1, 2])
    if cls == "arr_e":
        return np.array([])
    if cls == "arr_2d":
        return np.ones((2, 2))
    if cls == "arr_c":
        return np.array([1.5 + 2.0j, 2.5j])
    if cls == "list_f":
        return [1.5, 2.5]
    if cls == "list_s":
        return ["a"]
    if cls == "str":
        return "s"
    if cls == "int":
        return 3
    if cls == "bool":
        return True
    if cls == "float":
        return 1.5
    if cls == "fint":
        return 2.0
    if cls == "none":
        return None
    if cls == "dict_ok":
        return {"k": 1}
    if cls == "dict_bad":
        return {"k": "s"}
    if cls == "cplx":
        return 1.5 + 2.0j
    raise AssertionError(cls)


def ref_cast(value):
    """The harness' own conversion of data values into JSON instances."""
    if isinstance(value, np.ndarray):
        return (value.real if np.iscomplexobj(value) else value).tolist()
    if isinstance(value, complex):
        return value.real
    if isinstance(value, dict):
        return {k: ref_cast(v) for k, v in value.items()}
    if isinstance(value, (list, tuple)):
        return [ref_cast(v) for v in value]
    return value


def same_value(a, b) -> bool:
    if isinstance(a, np.ndarray) or isinstance(b, np.ndarray):
        return isinstance(a, np.ndarray) and isinstance(b, np.ndarray) and a.shape == b.shape and bool(np.array_equal(a, b))
    return type(a) is type(b) and a == b


# JSON family of a value class (top-level JSON type after the cast)
FAMILY = {
    "arr_f": "array", "arr_i": "array", "arr_e": "array", "arr_2d": "array", "arr_c": "array", "list_f": "array",
    "list_s": "array", "str": "string", "int": "numeric", "bool": "boolean", "float": "numeric", "fint": "numeric",
    "none": "null", "dict_ok": "object", "dict_bad": "object", "cplx": "numeric",
}

# --------------------------------------------------------------------------- JSON atoms (own mini validator)
# atom -> (family or None for any, schema, {value class: True/False/None}) ; classes not listed: False
ATOM_SCHEMA = {
    "array_number": {"type": "array", "items": {"type": "number"}},
    "array_integer": {"type": "array", "items": {"type": "integer"}},
    "array_any": {"type": "array"},
    "array_array_number": {"type": "array", "items": {"type": "array", "items": {"type": "number"}}},
    "string": {"type": "string"},
    "integer": {"type": "integer"},
    "boolean": {"type": "boolean"},
    "number": {"type": "number"},
    "null": {"type": "null"},
    "any": {},
    "object_k_int": {"type": "object", "properties": {"k": {"type": "integer"}}, "required": ["k"]},
}
ATOM_FAMILY = {
    "array_number": "array", "array_integer": "array", "array_any": "array", "array_array_number": "array",
    "string": "string", "integer": "numeric", "boolean": "boolean", "number": "numeric", "null": "null", "any": None,
    "object_k_int": "object",
}
ATOM_ACCEPTS = {
    "array_number": {"arr_f": True, "arr_i": True, "arr_e": True, "arr_c": True, "list_f": True},
    "array_integer": {"arr_i": True, "arr_e": True},
    "array_any": {"arr_f": True, "arr_i": True, "arr_e": True, "arr_2d": True, "arr_c": True, "list_f": True, "list_s": True},
    "array_array_number": {"arr_2d": True, "arr_e": True},
    "string": {"str": True},
    "integer": {"int": True, "fint": None},  # an integral float is an integer from draft-06 on only
    "boolean": {"bool": True},
    "number": {"int": True, "float": True, "fint": True, "cplx": True},
    "null": {"none": True},
    "any": dict.fromkeys(VALUE_CLASSES, True),
    "object_k_int": {"dict_ok": True},
}
ATOMS = list(ATOM_SCHEMA)

TYPE_TOKENS = ["ndarray", "str", "int", "bool", "float", "list", "any", "complex", "tuple"]
PY_TYPES = {"ndarray": np.ndarray, "str": str, "int": int, "bool": bool, "float": float, "list": list, "any": None, "complex": complex, "tuple": tuple}
TOKEN_ATOM = {"ndarray": "array_any", "list": "array_any", "tuple": "array_any", "str": "string", "int": "integer", "bool": "boolean", "float": "number", "complex": "number", "any": "any"}
CLASS_ATOM = {
    "arr_f": "array_number", "arr_i": "array_integer", "arr_e": "array_any", "arr_2d": "array_array_number",
    "arr_c": "array_number", "list_f": "array_number", "str": "string", "int": "integer", "bool": "boolean",
    "float": "number", "fint": "number", "none": "null", "dict_ok": "object_k_int", "cplx": "number",
}
PYD_TOKENS = ("ndarray", "str", "int", "bool")
ATOM_SIMPLE_TYPE = {"array_number": np.ndarray, "array_integer": np.ndarray, "array_any": np.ndarray, "array_array_number": np.ndarray,
                    "string": str, "integer": int, "boolean": bool}


def json_accepts(spec, cls):
    """Tri-state verdict of a JSON element spec (tuple of merged atoms) on a value class."""
    if len(spec) == 1:
        return ATOM_ACCEPTS[spec[0]].get(cls, False)
    if "any" in spec:
        return None
    fam = FAMILY[cls]
    same_family = [a for a in spec if ATOM_FAMILY[a] == fam]
    if not same_family:
        return False
    verdicts = [ATOM_ACCEPTS[a].get(cls, False) for a in same_family]
    if all(v is True for v in verdicts):
        return True
    return None


def simple_accepts(py_type, value) -> bool:
    return py_type is None or isinstance(value, py_type)


def pyd_accepts(token, value) -> bool:
    if token == "ndarray":
        return isinstance(value, np.ndarray)
    return type(value) is PY_TYPES[token]


def to_pyd_token(token: str) -> str:
    return token if token in PYD_TOKENS else "ndarray"


def to_pyd_class(cls: str) -> str:
    return cls if cls in PYD_SHARED_CLASSES else "arr_f"


# --------------------------------------------------------------------------- model
class Model:
    """Reference model of one grammar: ordered elements with a type spec, required names, defaults."""

    def __init__(self, kind: str):
        self.kind = kind
        self.types: dict = {}
        self.required: set = set()
        self.defaults: dict = {}
        # JSON only: names that are not elements are refused ("additionalProperties": false):
        # False / True / None (received from another grammar: not asserted by the model)
        self.closed = False

    def clone(self) -> "Model":
        m = Model(self.kind)
        m.types = dict(self.types)
        m.required = set(self.required)
        m.defaults = dict(self.defaults)
        m.closed = self.closed
        return m

    def clear(self) -> None:
        self.types, self.required, self.defaults = {}, set(), {}
        self.closed = False

    def set_type(self, name, spec, merge: bool) -> None:
        if merge and name in self.types:
            if self.kind == "json":
                old = self.types[name]
                self.types[name] = old + tuple(a for a in spec if a not in old)
            else:  # pragma: no cover - merge is never applied to the other kinds
                raise AssertionError("merge on a non-JSON model")
        else:
            self.types[name] = spec

    def accepts(self, name, cls, value):
        spec = self.types[name]
        if self.kind == "json":
            return json_accepts(spec, cls)
        if self.kind == "simple":
            return simple_accepts(spec, value)
        return pyd_accepts(spec, value)

    def verdict(self, data_cls: dict, data: dict):
        """True / False / None (undetermined by the statement)."""
        if self.required - data.keys():
            return False
        undetermined = False
        for name in data:
            if name in self.types:
                v = self.accepts(name, data_cls[name], data[name])
                if v is False:
                    return False
                if v is None:
                    undetermined = True
            elif self.closed is True:
                return False
            elif self.closed is None:
                undetermined = True
        return None if undetermined else True


class Family:
    """One slot: the grammars of the three kinds and their models (None = kind absent)."""

    def __init__(self, with_pyd: bool):
        from gemseo.core.grammars.json_grammar import JSONGrammar
        from gemseo.core.grammars.pydantic_grammar import PydanticGrammar
        from gemseo.core.grammars.simple_grammar import SimpleGrammar

        self.g = {"json": JSONGrammar("g"), "simple": SimpleGrammar("g"), "pyd": PydanticGrammar("g") if with_pyd else None}
        self.m = {k: Model(k) for k in KINDS}
        self.sync_js = True  # JSON and simple grammars received exactly the same edits
        self.pyd_user_model = False
        # bookkeeping for the known-finding classes (cached schema of the JSON grammar)
        self.cache_built = False
        self.req_dirty = False
        self.validated = False
        # the JSON grammar received a 'required' list / an object since its creation or clear()
        # (names, data, schema with 'required'); pickled since then
        self.req_slot = False
        self.pickled = False
        # previous validation of the slot: (data description, {kind: verdict}), edits since, validator compiled
        self.last = None
        self.edits_since_last = 0

    def kinds(self):
        return [k for k in KINDS if self.g[k] is not None]

    def structural_edit(self) -> None:
        self.cache_built = self.req_dirty = self.validated = False


# --------------------------------------------------------------------------- strategies
def _name_idx():
    return st.integers(0, 9)


_small = st.integers(0, 7)
_merge = st.integers(0, 5).map(lambda v: v == 3)  # False is the simplest value
_rare = st.integers(0, 7).map(lambda v: v == 5)  # degenerate arguments
_bad = st.integers(0, 11).map(lambda v: v == 7)
_slot = st.integers(0, 2).map(lambda v: 0 if v < 2 else 1)


def _op(name, **fields):
    return st.fixed_dictionaries({"op": st.just(name), "slot": _slot, **fields})


def _edit(name, **fields):
    """An edit; with probe=True valid data are validated right before and right after it."""
    return _op(name, probe=st.integers(0, 3).map(lambda v: v == 2), **fields)


def _mutations():
    return st.lists(st.fixed_dictionaries({"el": _small, "kind": st.integers(0, 2), "cls": st.integers(0, len(VALUE_CLASSES) - 1)}), max_size=2)


def op_groups():
    names = st.lists(st.integers(0, len(BASE_NAMES) - 1), min_size=1, max_size=3)
    typed = st.lists(st.tuples(st.integers(0, len(BASE_NAMES) - 1), st.integers(0, len(TYPE_TOKENS) - 1)).map(list), min_size=1, max_size=3)
    valued = st.lists(st.tuples(st.integers(0, len(BASE_NAMES) - 1), st.integers(0, len(DATA_DEF_CLASSES) - 1)).map(list), min_size=1, max_size=3)
    props = st.lists(st.tuples(st.integers(0, len(BASE_NAMES) - 1), st.integers(0, len(ATOMS) - 1), st.booleans()).map(list), min_size=1, max_size=3)
    fields = st.lists(st.tuples(st.integers(0, len(BASE_NAMES) - 1), st.integers(0, len(PYD_TOKENS) - 1), st.booleans(), st.integers(0, len(DEFAULT_CLASSES) - 1)).map(list),
                      min_size=1, max_size=4)
    dflt = st.integers(0, len(DEFAULT_CLASSES) - 1)
    excl = st.lists(st.integers(0, len(BASE_NAMES)), max_size=2)
    define = st.one_of(
        _edit("names", names=names, merge=_merge, empty=_rare), _edit("names", names=names, merge=_merge, empty=_rare), _edit("names", names=names, merge=_merge, empty=_rare),
        _edit("types", items=typed, merge=_merge, empty=_rare), _edit("types", items=typed, merge=_merge, empty=_rare), _edit("types", items=typed, merge=_merge, empty=_rare),
        _edit("data", items=valued, merge=_merge, empty=_rare), _edit("data", items=valued, merge=_merge, empty=_rare),
        _edit("schema", props=props, merge=_merge, via_file=st.booleans(), closed=st.booleans()),
        _edit("schema", props=props, merge=_merge, via_file=st.booleans(), closed=st.booleans()),
        _edit("from_model", fields=fields), _edit("from_model", fields=fields),
    )
    structural = st.one_of(
        _edit("update", excluded=excl, merge=_merge, common=st.just(False), itself=_rare), _edit("update", excluded=excl, merge=_merge, common=st.just(False), itself=_rare),
        _edit("update", excluded=excl, merge=_merge, common=st.just(True)),
        _edit("restrict", keep=st.integers(0, 31), bad=_bad), _edit("restrict", keep=st.integers(0, 31), bad=_bad),
        _edit("rename", el=_small, new=st.integers(0, len(BASE_NAMES) - 1), bad=_bad, same=st.integers(0, 3).map(lambda v: v == 2)), _edit("rename", el=_small, new=st.integers(0, len(BASE_NAMES) - 1), bad=_bad, same=st.integers(0, 3).map(lambda v: v == 2)),
        _edit("delete", el=_small, bad=_bad), _edit("delete", el=_small, bad=_bad),
        _edit("namespace", el=_small, ns=st.integers(0, len(NAMESPACES) - 1), bad=_bad), _edit("namespace", el=_small, ns=st.integers(0, len(NAMESPACES) - 1), bad=_bad),
        _edit("clear"),
        _edit("copy"), _edit("copy"),
        _edit("pickle"), _edit("pickle"), _edit("pickle"),
    )
    reqdef = st.one_of(
        _edit("req_add", el=_small, bad=_bad), _edit("req_add", el=_small, bad=_bad),
        _edit("req_discard", el=_small, bad=_bad), _edit("req_discard", el=_small, bad=_bad), _edit("req_discard", el=_small, bad=_bad),
        _edit("req_remove", el=_small),
        _edit("req_clear"),
        _edit("def_set", el=_small, cls=dflt, bad=_bad), _edit("def_set", el=_small, cls=dflt, bad=_bad), _edit("def_set", el=_small, cls=dflt, bad=_bad),
        _edit("def_del", el=_small),
        _edit("def_update", els=st.lists(_small, min_size=1, max_size=2), cls=dflt),
        _edit("def_assign", els=st.lists(_small, max_size=2), cls=dflt),
        _edit("def_from_other", mode=st.integers(0, 2)), _edit("def_from_other", mode=st.integers(0, 2)),
    )
    query = st.one_of(
        _op("q_keys"), _op("q_nons"), _op("q_schema"), _op("q_schema"), _op("q_schema"), _op("q_to_json"), _op("q_to_json"), _op("q_repr"),
        _op("q_getitem", el=_small), _op("q_to_simple"), _op("q_to_simple"),
    )
    validate = _op("validate", vsel=_small, omit=st.integers(0, 31), muts=_mutations(), snap_schema=st.booleans())
    return define, structural, reqdef, query, validate


def op_strategy():
    define, structural, reqdef, query, validate = op_groups()
    # the tuple wrapper keeps Hypothesis from flattening the groups into one uniform choice over all leaves
    g = lambda strategy: st.tuples(strategy).map(lambda t: t[0])  # noqa: E731
    return st.one_of(g(define), g(define), g(structural), g(structural), g(reqdef), g(reqdef), g(query), g(query), g(validate), g(validate), g(validate))


def histories():
    define = op_groups()[0]
    op = op_strategy()
    # a defining prefix (optional, so that failures shrink to nothing) and a body that is long half of the time
    # (the first two defining operations go to slot 0 and slot 1 so that update() has a non-empty source)
    prefix = st.one_of(st.just([]), st.lists(define, min_size=2, max_size=4).map(lambda ops: [{**o, "slot": i if i < 2 else o["slot"]} for i, o in enumerate(ops)]))
    body = st.one_of(st.lists(op, min_size=1, max_size=30), st.lists(op, min_size=10, max_size=30))
    return st.fixed_dictionaries({"pyd": st.booleans(), "prefix": prefix, "body": body}).map(
        lambda d: {"pyd": d["pyd"], "ops": d["prefix"] + d["body"]})


# --------------------------------------------------------------------------- observation helpers
def verdict_of(grammar, data, ctx, kind):
    """Verdict of gemseo: True accepted, False InvalidDataError."""
    from gemseo.core.grammars.errors import InvalidDataError

    try:
        grammar.validate(data)
    except InvalidDataError:
        accepted = False
    else:
        accepted = True
    # the non-raising form must not raise whatever the verdict
    try:
        out = grammar.validate(data, raise_exception=False)
    except InvalidDataError:
        ctx.fail("validate_no_raise", f"{kind}: validate(raise_exception=False) raised InvalidDataError")
    ctx.check(out is None, "validate_no_raise", f"{kind}: validate returned {out!r}")
    return accepted


def reference_verdicts(schema_doc: dict, instance: dict) -> set:
    """Verdict(s) of the reference validator; two when the draft is not stated by $schema."""
    import jsonschema
    from jsonschema.validators import validator_for

    cls = validator_for(schema_doc, default=None)
    classes = [cls] if cls is not None else [jsonschema.Draft4Validator, jsonschema.Draft7Validator]
    return {bool(c(schema_doc).is_valid(instance)) for c in classes}


def observe(grammar):
    names = list(grammar.keys())
    return names, set(grammar.required_names), dict(grammar.defaults)


def defaults_equal(a: dict, b: dict) -> bool:
    return a.keys() == b.keys() and all(same_value(a[k], b[k]) for k in a)


def check_against_model(ctx, grammar, model, where: str) -> None:
    names, required, defaults = observe(grammar)
    kind = model.kind
    ctx.check(len(names) == len(set(names)) == len(grammar), "names", f"{kind} {where}: keys {names} / len {len(grammar)} inconsistent")
    ctx.check(required <= set(names), "required_subset", f"{kind} {where}: required names {sorted(required)} not all elements of {sorted(names)}")
    ctx.check(defaults.keys() <= set(names), "defaults_subset", f"{kind} {where}: defaults {sorted(defaults)} not all elements of {sorted(names)}")
    ctx.check(set(names) == set(model.types), "names", f"{kind} {where}: names {sorted(names)}, model {sorted(model.types)}")
    ctx.check(required == model.required, "required", f"{kind} {where}: required names {sorted(required)}, model {sorted(model.required)}")
    ctx.check(defaults_equal(defaults, model.defaults), "defaults", f"{kind} {where}: defaults {defaults!r}, model {model.defaults!r}")


def snapshot(fam: Family, with_schema: bool):
    snap = {}
    for kind in fam.kinds():
        g = fam.g[kind]
        names, required, defaults = observe(g)
        item = [names, sorted(required), sorted(defaults), [repr(defaults[k]) for k in sorted(defaults)]]
        if kind == "json":
            item.append(g.to_json())
            if with_schema:
                item.append(_copy.deepcopy(g.schema))
        snap[kind] = item
    return snap


def expected_property(spec):
    """Expected to_json() description of a non-merged JSON element."""
    return ATOM_SCHEMA[spec[0]] if len(spec) == 1 else None


def required_dropped(ctx, fam: Family, doc: dict) -> bool:
    """Known-finding class: to_json()/schema carry no 'required' key at all although names are required,
    on a JSON grammar that never received a 'required' list or an object (types / update / copy only)."""
    return bool(fam.m["json"].required) and "required" not in doc and (not fam.req_slot or fam.pickled) and ctx.known("to_json_drops_required")


def check_json_documents(ctx, fam: Family, read_schema: bool, where: str) -> None:
    """to_json() (and schema) list the model's elements, required names and element descriptions."""
    g, model = fam.g["json"], fam.m["json"]
    doc = json.loads(g.to_json())
    props = doc.get("properties", {})
    ctx.check(set(props) == set(model.types), "to_json", f"{where}: to_json() properties {sorted(props)}, model {sorted(model.types)}")
    if required_dropped(ctx, fam, doc):
        ctx.cls("known:to_json_drops_required")
    else:
        ctx.check(sorted(doc.get("required", [])) == sorted(model.required), "to_json_required",
                  f"{where}: to_json() required {doc.get('required')}, required names {sorted(model.required)}")
    if model.closed is True:
        ctx.check(doc.get("additionalProperties") is False, "to_json", f"{where}: to_json() lost 'additionalProperties': false: {doc}")
    for name, spec in model.types.items():
        exp = expected_property(spec)
        if exp is not None:
            ctx.check(props[name] == exp, "to_json", f"{where}: element {name} described as {props[name]}, expected {exp}")
    if not read_schema:
        return
    schema = g.schema
    fam_flags = (fam.req_dirty, fam.validated)
    fam.cache_built = True
    sprops = schema.get("properties", {})
    ctx.check(set(sprops) == set(model.types), "schema", f"{where}: schema properties {sorted(sprops)}, model {sorted(model.types)}")
    ctx.check(sprops == props, "schema", f"{where}: schema and to_json() describe different properties")
    if sorted(schema.get("required", [])) != sorted(model.required):
        if "required" not in doc and required_dropped(ctx, fam, schema):
            ctx.cls("known:to_json_drops_required")
            return
        if fam_flags[0] and ctx.known("schema_stale_after_required_edit"):
            ctx.cls("known:schema_stale_after_required_edit")
            return
        if fam_flags[1] and ctx.known("schema_mutated_by_validate"):
            ctx.cls("known:schema_mutated_by_validate")
            return
        ctx.fail("schema_required", f"{where}: schema['required'] = {schema.get('required')} but required names are {sorted(model.required)} "
                                    f"(to_json() says {doc.get('required')})")


# --------------------------------------------------------------------------- data generation from the model
def accepted_classes(spec):
    """Value classes a JSON spec certainly accepts, ndarray classes first."""
    order = ["arr_f", "arr_i", "arr_e", "arr_2d", "arr_c", "str", "int", "bool", "float", "none", "dict_ok", "cplx", "list_f", "list_s", "fint"]
    return [c for c in order if json_accepts(spec, c) is True]


def build_data(op, fam: Family):
    """Data description {name: value class} from the JSON model: valid by construction, then mutated."""
    model = fam.m["json"]
    names = list(model.types)
    desc = {}
    for i, name in enumerate(names):
        if name not in model.required and (op["omit"] >> (i % 5)) & 1:
            continue
        ok = accepted_classes(model.types[name]) or ["arr_f"]
        desc[name] = ok[(op["vsel"] + i) % len(ok)] if (op["vsel"] + i) % 3 else ok[0]
    n_mut = 0
    for mut in op["muts"]:
        if mut["kind"] == 2:
            pool = [n for n in [UNKNOWN, *BASE_NAMES] if n not in model.types]
            desc[pool[mut["el"] % len(pool)]] = VALUE_CLASSES[mut["cls"]]
            n_mut += 1
        elif names:
            name = names[mut["el"] % len(names)]
            if mut["kind"] == 0:
                if desc.pop(name, None) is not None:
                    n_mut += 1
            else:
                desc[name] = VALUE_CLASSES[mut["cls"]]
                n_mut += 1
    return desc, n_mut


def materialize(desc: dict) -> dict:
    return {name: make_value(cls) for name, cls in desc.items()}


# --------------------------------------------------------------------------- the history oracle
def _attempt(ctx, kind, what, fn, expect_error: bool) -> bool:
    """Run an edit; True when it was applied. Invalid edits must raise KeyError/ValueError."""
    try:
        fn()
    except (KeyError, ValueError) as exc:
        if not expect_error:
            ctx.fail("edit_raises", f"{kind}: valid edit {what} raised {type(exc).__name__}: {exc}")
        ctx.cls("invalid_edit_rejected")
        return False
    if expect_error:
        ctx.fail("invalid_edit_accepted", f"{kind}: invalid edit {what} did not raise")
    return True


def _existing(fam: Family, idx: int, bad: bool = False):
    """Element name addressed by an index (JSON model is the reference list)."""
    names = list(fam.m["json"].types)
    if bad or not names:
        return UNKNOWN
    return names[idx % len(names)]


def _assign_pyd_from_model(fam: Family, fields) -> None:
    from gemseo.core.grammars.pydantic_grammar import PydanticGrammar
    from gemseo.utils.pydantic_ndarray import NDArrayPydantic
    from pydantic import Field
    from pydantic import create_model

    ann = {"ndarray": NDArrayPydantic, "str": str, "int": int, "bool": bool}
    defs = {}
    for name, token, optional, value in fields:
        if not optional:
            defs[name] = (ann[token], ...)
        elif isinstance(value, np.ndarray):
            defs[name] = (ann[token], Field(default_factory=lambda v=value: v))
        else:
            defs[name] = (ann[token], value)
    fam.g["pyd"] = PydanticGrammar("g", model=create_model("HarnessModel", **defs))
    fam.pyd_user_model = True


def nested_object_resets_update(ctx, model: Model, incoming: dict, merge: bool) -> bool:
    """Known-finding class: a non-merge update that brings a nested object together with another element
    which already exists with a different description."""
    if merge:
        return False
    objects = [n for n, spec in incoming.items() if spec == ("object_k_int",)]
    for name, spec in incoming.items():
        if name in model.types and model.types[name] != spec and any(o != name for o in objects):
            return bool(ctx.known("nested_object_resets_update_mode"))
    return False


def apply_edit(op, fams, ctx, scratch) -> bool:
    """Apply one edit operation to the grammars and models of its slot; True if anything was attempted."""
    fam: Family = fams[op["slot"]]
    other: Family = fams[1 - op["slot"]]
    name_of = lambda i: BASE_NAMES[i % len(BASE_NAMES)]  # noqa: E731
    kind_op = op["op"]
    json_structural = False

    if kind_op in ("names", "types", "data"):
        merge = op["merge"]
        # degenerate but legal: an empty collection of names is a no-op (even with merge on a simple grammar)
        empty = bool(op.get("empty"))
        if empty:
            ctx.cls("degenerate:empty_update")
        if kind_op == "data" and not empty:
            incoming = {name_of(i): (CLASS_ATOM[DATA_DEF_CLASSES[c]],) for i, c in op["items"]}
            if nested_object_resets_update(ctx, fam.m["json"], incoming, merge):
                ctx.cls("known:nested_object_update_skipped")
                return False
        for kind in fam.kinds():
            g, m = fam.g[kind], fam.m[kind]
            if merge and kind == "pyd":
                continue  # meaning of merge not shared
            if kind_op == "names":
                names = [] if empty else [name_of(i) for i in op["names"]]
                items = {n: {"json": ("array_number",), "simple": np.ndarray, "pyd": "ndarray"}[kind] for n in names}
                call = lambda g=g, names=names: g.update_from_names(names, merge=merge)  # noqa: E731
            elif kind_op == "types":
                toks = {} if empty else {name_of(i): TYPE_TOKENS[t] for i, t in op["items"]}
                if kind == "pyd":
                    toks = {n: to_pyd_token(t) for n, t in toks.items()}
                items = {n: {"json": (TOKEN_ATOM[t],), "simple": PY_TYPES[t], "pyd": t}[kind] for n, t in toks.items()}
                arg = {n: PY_TYPES[t] for n, t in toks.items()}
                call = lambda g=g, arg=arg: g.update_from_types(arg, merge=merge)  # noqa: E731
            else:
                classes = {} if empty else {name_of(i): DATA_DEF_CLASSES[c] for i, c in op["items"]}
                if kind == "pyd":
                    classes = {n: to_pyd_class(c) for n, c in classes.items()}
                arg = materialize(classes)
                if kind == "json":
                    items = {n: (CLASS_ATOM[c],) for n, c in classes.items()}
                elif kind == "simple":
                    import collections.abc

                    items = {n: (collections.abc.Mapping if type(v) is dict else type(v)) for n, v in arg.items()}
                else:
                    items = {n: ("ndarray" if isinstance(v, np.ndarray) else type(v).__name__) for n, v in arg.items()}
                call = lambda g=g, arg=arg: g.update_from_data(arg, merge=merge)  # noqa: E731
            invalid = merge and kind == "simple" and not empty
            if _attempt(ctx, kind, f"{kind_op}(merge={merge})", call, invalid):
                for n, spec in items.items():
                    m.set_type(n, spec, merge)
                m.required |= set(items)
                if kind == "json" and not empty:
                    json_structural = True
                    if kind_op in ("names", "data"):
                        fam.req_slot = True
            if invalid:
                fam.sync_js = False
        if merge:
            ctx.cls("edit_with_merge")

    elif kind_op == "update":
        merge = op["merge"]
        if op.get("itself"):
            # degenerate but legal: a grammar updated from itself does not change
            other = fam
            ctx.cls("degenerate:update_from_itself")
        src_names = list(other.m["json"].types)
        # exclusions address the elements of the source (index-modulo); the last index is an unknown name
        excluded = [UNKNOWN if i == len(BASE_NAMES) else (src_names[i % len(src_names)] if src_names else name_of(i)) for i in op["excluded"]]
        if op.get("common"):
            # exclude (also) the names the two grammars share
            excluded += [n for n in src_names if n in fam.m["json"].types]
        excluded = list(dict.fromkeys(excluded))
        incoming = {n: spec for n, spec in other.m["json"].types.items() if n not in excluded}
        if nested_object_resets_update(ctx, fam.m["json"], incoming, merge):
            ctx.cls("known:nested_object_update_skipped")
            return False
        for kind in fam.kinds():
            g, m = fam.g[kind], fam.m[kind]
            src_g, src_m = other.g[kind], other.m[kind]
            if src_g is None:
                continue
            if kind == "pyd" and (merge or any(n not in src_m.required and n not in excluded for n in src_m.types)):
                ctx.cls("pyd_update_skipped_(merge_or_optional_source)")
                continue
            invalid = merge and kind == "simple" and bool(src_m.types)
            call = lambda g=g, src_g=src_g: g.update(src_g, excluded_names=excluded, merge=merge)  # noqa: E731
            if _attempt(ctx, kind, f"update(excluded={excluded}, merge={merge})", call, invalid):
                for n, spec in list(src_m.types.items()):
                    if n not in excluded:
                        m.set_type(n, spec, merge)
                        if n in src_m.defaults:
                            m.defaults[n] = src_m.defaults[n]
                        if n in src_m.required:
                            m.required.add(n)
                if kind == "json" and src_m.types:
                    json_structural = True
                    if src_m.closed is not False and m.closed is not True:
                        m.closed = None
            if invalid:
                fam.sync_js = False
        if not (fam.sync_js and other.sync_js):
            fam.sync_js = False
        if excluded:
            ctx.cls("update_with_exclusions")
            src_m, dst_m = other.m["json"], fam.m["json"]
            if any(n in src_m.required and n in dst_m.types and n not in dst_m.required for n in excluded):
                ctx.cls("update_excluding_a_source_required_target_optional_name")
            if any(n in src_m.defaults and n in dst_m.types for n in excluded):
                ctx.cls("update_excluding_a_name_with_source_default")

    elif kind_op == "schema":
        g, m = fam.g["json"], fam.m["json"]
        merge = op["merge"]
        props, required = {}, []
        for i, a, req in op["props"]:
            n = name_of(i)
            props[n] = ATOMS[a % len(ATOMS)]
        for i, a, req in op["props"]:
            if req and name_of(i) not in required:
                required.append(name_of(i))
        schema = {"$schema": "http://json-schema.org/draft-04/schema", "type": "object",
                  "properties": {n: _copy.deepcopy(ATOM_SCHEMA[a]) for n, a in props.items()}}
        if required:
            schema["required"] = required
        if op.get("closed"):
            schema["additionalProperties"] = False
            ctx.cls("schema_with_additionalProperties_false")
        if nested_object_resets_update(ctx, m, {n: (a,) for n, a in props.items()}, merge):
            ctx.cls("known:nested_object_update_skipped")
            return False
        if required and (fam.req_slot or fam.pickled) and ctx.known("update_from_schema_drops_required"):
            # open finding: the 'required' list of a schema is lost when the grammar already received one
            ctx.cls("known:update_from_schema_on_used_grammar_skipped")
            return False
        if op["via_file"]:
            path = os.path.join(scratch, "schema.json")
            with open(path, "w") as fh:
                json.dump(schema, fh)
            call = lambda: g.update_from_file(path, merge=merge)  # noqa: E731
        else:
            call = lambda: g.update_from_schema(schema, merge=merge)  # noqa: E731
        if _attempt(ctx, "json", "update_from_schema", call, False):
            for n, a in props.items():
                m.set_type(n, (a,), merge)
            m.required |= set(required)
            json_structural = True
            if required:
                fam.req_slot = True
            if op.get("closed"):
                m.closed = True
        fam.sync_js = False

    elif kind_op == "from_model":
        fields = []
        seen = set()
        for i, t, optional, c in op["fields"]:
            n = name_of(i)
            if n in seen:
                continue
            seen.add(n)
            token = PYD_TOKENS[t]
            cls = {"ndarray": "arr_f", "str": "str", "int": "int", "bool": "bool"}[token]
            fields.append((n, token, optional, make_value(cls)))
        for kind in fam.kinds():
            g, m = fam.g[kind], fam.m[kind]
            if kind == "pyd":
                _assign_pyd_from_model(fam, fields)
            else:
                g.clear()
                g.update_from_types({n: PY_TYPES[t] for n, t, _, _ in fields})
                for n, _, optional, value in fields:
                    if optional:
                        g.required_names.discard(n)
                        g.defaults[n] = value
            m.clear()
            if kind == "json":
                fam.req_slot = fam.pickled = False
            for n, t, optional, value in fields:
                m.types[n] = {"json": (TOKEN_ATOM[t],), "simple": PY_TYPES[t], "pyd": t}[kind]
                if optional:
                    m.defaults[n] = value
                else:
                    m.required.add(n)
        json_structural = True
        if any(f[2] for f in fields):
            ctx.cls("from_model_with_optional_fields")

    elif kind_op == "restrict":
        names = list(fam.m["json"].types)
        keep = [n for i, n in enumerate(names) if (op["keep"] >> (i % 5)) & 1]
        if op["bad"]:
            keep.append(UNKNOWN)
        elif names and len(keep) == len(names):
            ctx.cls("degenerate:restrict_to_all_names")
        for kind in fam.kinds():
            g, m = fam.g[kind], fam.m[kind]
            invalid = any(n not in m.types for n in keep)
            if _attempt(ctx, kind, f"restrict_to({keep})", lambda g=g: g.restrict_to(list(keep)), invalid):
                m.types = {n: s for n, s in m.types.items() if n in keep}
                m.required &= set(keep)
                m.defaults = {n: v for n, v in m.defaults.items() if n in keep}
                if kind == "json":
                    json_structural = True

    elif kind_op in ("rename", "namespace"):
        cur = _existing(fam, op["el"], op["bad"])
        if kind_op == "rename":
            # degenerate but legal: renaming an element to its own name (e.g. an identity entry of a renaming map)
            # keeps the element, its required flag and its default
            new = cur if op.get("same") else name_of(op["new"])
            if new == cur:
                ctx.cls("degenerate:rename_to_same_name")
        else:
            new = NAMESPACES[op["ns"]] + ":" + cur
        if new != cur and any(new in fam.m[k].types for k in fam.kinds()):
            ctx.cls("rename_target_exists_skipped")
            return False
        for kind in fam.kinds():
            g, m = fam.g[kind], fam.m[kind]
            invalid = cur not in m.types or (kind_op == "namespace" and ":" in cur)
            if kind_op == "rename":
                call = lambda g=g: g.rename_element(cur, new)  # noqa: E731
            else:
                call = lambda g=g: g.add_namespace(cur, NAMESPACES[op["ns"]])  # noqa: E731
            if _attempt(ctx, kind, f"{kind_op}({cur} -> {new})", call, invalid):
                m.types[new] = m.types.pop(cur)
                if cur in m.required:
                    m.required.discard(cur)
                    m.required.add(new)
                if cur in m.defaults:
                    m.defaults[new] = m.defaults.pop(cur)
                if kind == "json":
                    json_structural = True

    elif kind_op == "delete":
        cur = _existing(fam, op["el"], op["bad"])

        def _del(g):
            del g[cur]

        for kind in fam.kinds():
            g, m = fam.g[kind], fam.m[kind]
            if _attempt(ctx, kind, f"del {cur}", lambda g=g: _del(g), cur not in m.types):
                del m.types[cur]
                m.required.discard(cur)
                m.defaults.pop(cur, None)
                if kind == "json":
                    json_structural = True

    elif kind_op == "clear":
        for kind in fam.kinds():
            fam.g[kind].clear()
            fam.m[kind].clear()
        fam.req_slot = fam.pickled = False
        json_structural = True

    elif kind_op == "pickle":
        for kind in fam.kinds():
            if kind == "pyd" and fam.pyd_user_model:
                ctx.cls("pickle_of_user_pydantic_model_skipped")
                continue
            if kind == "json" and fam.req_dirty and ctx.known("schema_stale_after_required_edit"):
                ctx.cls("known:pickle_with_stale_schema_skipped")
                continue
            fam.g[kind] = pickle.loads(pickle.dumps(fam.g[kind]))
            if kind == "json":
                fam.cache_built = True
                fam.pickled = True
                if fam.m["json"].required and ctx.known("unpickled_builder_keeps_required"):
                    # open finding: the unpickled schema builder keeps the pickled 'required' list until the first
                    # to_json(); edits between the two are excluded by flushing it at once
                    fam.g["json"].to_json()
                    ctx.cls("known:to_json_right_after_unpickling")

    elif kind_op in ("req_add", "req_discard", "req_remove", "req_clear"):
        cur = _existing(fam, op.get("el", 0), op.get("bad", False))
        for kind in ("json", "simple"):
            g, m = fam.g[kind], fam.m[kind]
            if kind_op == "req_add":
                applied = _attempt(ctx, kind, f"required_names.add({cur})", lambda g=g: g.required_names.add(cur), cur not in m.types)
                if applied:
                    m.required.add(cur)
            elif kind_op == "req_discard":
                applied = _attempt(ctx, kind, f"required_names.discard({cur})", lambda g=g: g.required_names.discard(cur), False)
                m.required.discard(cur)
            elif kind_op == "req_remove":
                applied = _attempt(ctx, kind, f"required_names.remove({cur})", lambda g=g: g.required_names.remove(cur), cur not in m.required)
                m.required.discard(cur)
            else:
                applied = _attempt(ctx, kind, "required_names.clear()", lambda g=g: g.required_names.clear(), False)
                m.required.clear()
            if kind == "json" and applied and fam.cache_built:
                fam.req_dirty = True

    elif kind_op == "def_from_other":
        # g.defaults = <the Defaults object of the other slot's grammar | a copy of it | a plain dict of it>
        for kind in ("json", "simple"):
            g, m = fam.g[kind], fam.m[kind]
            src_g, src_m = other.g[kind], other.m[kind]
            missing = [n for n in src_m.defaults if n not in m.types]

            def _take(g=g, src_g=src_g):
                source = src_g.defaults
                g.defaults = [source, source.copy(), dict(source)][op["mode"]]

            if _attempt(ctx, kind, f"defaults = other.defaults (mode {op['mode']}, names {sorted(src_m.defaults)})", _take, bool(missing)):
                m.defaults = dict(src_m.defaults)
        if not other.sync_js:
            fam.sync_js = False  # the JSON and simple sources differ
        ctx.cls("defaults_from_other_grammar_" + ("with_missing_name" if any(n not in fam.m["json"].types for n in other.m["json"].defaults)
                                                   else ("nonempty" if other.m["json"].defaults else "empty")))

    elif kind_op in ("def_set", "def_del", "def_update", "def_assign"):
        value_cls = DEFAULT_CLASSES[op["cls"]] if "cls" in op else "int"
        for kind in ("json", "simple"):
            g, m = fam.g[kind], fam.m[kind]
            if kind_op == "def_set":
                cur = _existing(fam, op["el"], op["bad"])

                def _set(g=g, cur=cur):
                    g.defaults[cur] = make_value(value_cls)

                if _attempt(ctx, kind, f"defaults[{cur}] = {value_cls}", _set, cur not in m.types):
                    m.defaults[cur] = make_value(value_cls)
            elif kind_op == "def_del":
                cur = _existing(fam, op["el"])

                def _ddel(g=g, cur=cur):
                    del g.defaults[cur]

                if _attempt(ctx, kind, f"del defaults[{cur}]", _ddel, cur not in m.defaults):
                    del m.defaults[cur]
            else:
                targets = [_existing(fam, i) for i in op["els"]]
                targets = [n for n in dict.fromkeys(targets) if n in m.types]
                new = {n: make_value(value_cls) for n in targets}
                if kind_op == "def_update":
                    if _attempt(ctx, kind, f"defaults.update({sorted(new)})", lambda g=g, new=new: g.defaults.update(new), False):
                        m.defaults.update({n: make_value(value_cls) for n in targets})
                else:

                    def _assign(g=g, new=new):
                        g.defaults = new

                    if _attempt(ctx, kind, f"defaults = {sorted(new)}", _assign, False):
                        m.defaults = {n: make_value(value_cls) for n in targets}
    else:  # pragma: no cover
        raise AssertionError(kind_op)

    if json_structural:
        fam.structural_edit()
    fam.edits_since_last += 1
    return True


PROBE_VALIDATE = {"op": "validate", "vsel": 0, "omit": 0, "muts": [], "snap_schema": False}


def pyd_copy_predicate(fam: Family) -> str:
    """Ledger predicate of the copies of a pydantic grammar (two root causes: internal / user model class)."""
    return "pydantic_user_model_shared_by_copies" if fam.pyd_user_model else "pydantic_edit_after_copy"


def copy_independence_probe(fam: Family, ctx) -> None:
    """Edits of a throw-away copy that do not touch the required names must leave the original alone.

    (The edits are chosen outside the class of the finding 'edit_after_copy': an optional element is
    deleted and a required element gets another type, so the shared required-names set is not changed.)
    """
    desc, _ = build_data(PROBE_VALIDATE, fam)
    probed = False
    for kind in fam.kinds():
        g, m = fam.g[kind], fam.m[kind]
        if not m.types:
            continue
        if kind == "pyd" and ctx.known(pyd_copy_predicate(fam)):
            ctx.cls("known:pydantic_copy_probe_skipped")
            continue
        throwaway = g.copy()
        optional = [n for n in m.types if n not in m.required]
        required = [n for n in m.types if n in m.required]
        if optional:
            del throwaway[optional[0]]
        if required:
            name = required[0]
            if kind == "pyd":
                new_type = np.ndarray if m.types[name] == "str" else str
            elif kind == "simple":
                new_type = int if m.types[name] is str else str
            else:
                new_type = int if m.types[name] == ("string",) else str
            throwaway.update_from_types({name: new_type})
        # validating the copy makes a pydantic grammar rebuild its model class
        verdict_of(throwaway, materialize(desc), ctx, kind)
        check_against_model(ctx, g, m, "after editing a copy")
        probed = True
    if probed:
        _validate_all(fam, desc, ctx, "original after editing a copy")
        ctx.cls("copy_independence_probed")


def apply_copy(op, fams, ctx) -> None:
    """copy(): the copy equals the original; then (no open finding) it replaces the other slot and lives on."""
    fam: Family = fams[op["slot"]]
    dst: Family = fams[1 - op["slot"]]
    all_known = ctx.known("edit_after_copy", count=False)
    copy_independence_probe(fam, ctx)
    for kind in fam.kinds():
        g, m = fam.g[kind], fam.m[kind]
        clone = g.copy()
        ctx.check(type(clone) is type(g) and clone is not g, "copy", f"{kind}: copy() returned {type(clone).__name__}")
        check_against_model(ctx, clone, m, "copy()")
        # open findings: the copy is observed once and dropped, so that neither the copy nor its
        # source is edited while both live (exactly the class of the findings)
        if all_known:
            ctx.known("edit_after_copy")
            ctx.cls("known:copy_observed_then_dropped")
            continue
        if kind == "pyd" and ctx.known(pyd_copy_predicate(fam)):
            ctx.cls("known:pydantic_copy_observed_then_dropped")
            continue
        dst.g[kind] = clone
        dst.m[kind] = m.clone()
        if kind == "pyd":
            dst.pyd_user_model = fam.pyd_user_model
    if all_known:
        return
    if fam.g["pyd"] is None:
        dst.g["pyd"] = None
    dst.sync_js = fam.sync_js
    dst.cache_built, dst.req_dirty, dst.validated = fam.cache_built, fam.req_dirty, fam.validated
    dst.req_slot = dst.pickled = False
    dst.last = None
    dst.edits_since_last = 0
    ctx.cls("copy_lives_on")


def run_query(op, fam: Family, ctx, prefix_key) -> None:
    kind_op = op["op"]
    with_schema = kind_op == "validate" and op["snap_schema"]
    if with_schema:
        fam.cache_built = True
    before = snapshot(fam, with_schema)
    validated_before = fam.validated

    if kind_op == "q_keys":
        for kind in fam.kinds():
            g, m = fam.g[kind], fam.m[kind]
            ctx.check(list(g) == list(g.keys()) == list(g.names), "query", f"{kind}: iter/keys/names differ")
            for n in [*m.types, UNKNOWN]:
                ctx.check((n in g) == (n in m.types), "query", f"{kind}: '{n}' in grammar is {n in g}")
            ctx.check(g.has_names(list(m.types)) and not g.has_names([UNKNOWN]), "query", f"{kind}: has_names wrong")
    elif kind_op == "q_nons":
        for kind in fam.kinds():
            g, m = fam.g[kind], fam.m[kind]
            got = sorted(g.names_without_namespace)
            exp = sorted(n.rsplit(":", 1)[-1] for n in m.types)
            ctx.check(got == exp, "query", f"{kind}: names_without_namespace {got}, expected {exp}")
    elif kind_op in ("q_schema", "q_to_json"):
        check_json_documents(ctx, fam, kind_op == "q_schema", kind_op)
    elif kind_op == "q_repr":
        for kind in fam.kinds():
            text = repr(fam.g[kind]) + str(fam.g[kind])
            for n in fam.m[kind].types:
                ctx.check(n in text, "query", f"{kind}: repr does not mention element {n}")
    elif kind_op == "q_getitem":
        cur = _existing(fam, op["el"])
        for kind in fam.kinds():
            g, m = fam.g[kind], fam.m[kind]
            if cur in m.types:
                item = g[cur]
                if kind == "simple":
                    ctx.check(item is m.types[cur], "query", f"simple: g[{cur}] is {item!r}, model {m.types[cur]!r}")
            else:
                try:
                    g[cur]
                except KeyError:
                    pass
                else:
                    ctx.fail("query", f"{kind}: g[{cur!r}] did not raise KeyError")
    elif kind_op == "q_to_simple":
        query_to_simple(fam, ctx)
    elif kind_op == "validate":
        query_validate(op, fam, ctx, prefix_key)
    else:  # pragma: no cover
        raise AssertionError(kind_op)

    after = snapshot(fam, with_schema)
    for kind in fam.kinds():
        if before[kind] == after[kind]:
            continue
        if kind == "json" and with_schema and before[kind][:5] == after[kind][:5]:
            # only the schema property changed across a validate call
            if ctx.known("schema_mutated_by_validate"):
                ctx.cls("known:schema_mutated_by_validate")
                continue
            ctx.fail("read_only", f"validate() changed JSONGrammar.schema from {before[kind][5]} to {after[kind][5]}", validated_before=validated_before)
        ctx.fail("read_only", f"{kind}: query {kind_op} changed the grammar: {before[kind]} -> {after[kind]}")


def query_to_simple(fam: Family, ctx) -> None:
    g, m = fam.g["json"], fam.m["json"]
    doc_props = json.loads(g.to_json()).get("properties", {})
    if not all(isinstance(p.get("type"), str) for p in doc_props.values()):
        ctx.cls("to_simple_grammar_inexpressible_skipped")
        return
    simple = g.to_simple_grammar()
    fam.cache_built = True
    names, required, defaults = observe(simple)
    ctx.check(set(names) == set(m.types) and required == m.required and defaults_equal(defaults, m.defaults), "to_simple",
              f"to_simple_grammar(): names {sorted(names)} required {sorted(required)} defaults {sorted(defaults)}; "
              f"model {sorted(m.types)} {sorted(m.required)} {sorted(m.defaults)}")
    for n, spec in m.types.items():
        if len(spec) == 1 and spec[0] in ATOM_SIMPLE_TYPE:
            ctx.check(simple[n] is ATOM_SIMPLE_TYPE[spec[0]], "to_simple", f"to_simple_grammar(): element {n} ({spec[0]}) has type {simple[n]!r}")
    ctx.cls("to_simple_grammar_checked")
    # the conversion is an independent grammar
    if m.types:
        probe = next(iter(m.types))
        del simple[probe]
        ctx.check(probe in g, "to_simple", "deleting from the converted grammar removed the element from the JSON grammar")


def _validate_all(fam: Family, desc: dict, ctx, label: str) -> dict:
    """Validate one data description with every grammar of the slot against models and reference."""
    verdicts = {}
    for kind in fam.kinds():
        g, m = fam.g[kind], fam.m[kind]
        data = materialize(desc)
        got = verdict_of(g, data, ctx, kind)
        verdicts[kind] = got
        exp = m.verdict(desc, data)
        if kind == "json":
            if not (m.required - desc.keys()):
                # the type validation was reached: validator compiled, schema cached
                fam.validated = True
                fam.cache_built = True
            doc = json.loads(g.to_json())
            refs = reference_verdicts(doc, ref_cast(materialize(desc)))
            if (m.required - desc.keys()) and required_dropped(ctx, fam, doc):
                ctx.cls("known:to_json_drops_required")
                refs = {True, False}
            ctx.check(got in refs, "json_vs_reference",
                      f"{label}: JSONGrammar {'accepts' if got else 'rejects'} {desc} but the reference validator "
                      f"{'accepts' if True in refs else 'rejects'} it for to_json() = {json.dumps(doc)}")
            if len(refs) == 2:
                ctx.cls("verdict_draft_dependent")
        if exp is None:
            ctx.cls(f"verdict_undetermined_by_model:{kind}")
        else:
            ctx.check(got == exp, f"validate_{kind}",
                      f"{label}: {kind} grammar {'accepts' if got else 'rejects'} {desc}; model (elements {m.types}, required {sorted(m.required)}) "
                      f"{'accepts' if exp else 'rejects'}")
    if fam.sync_js and fam.m["json"].verdict(desc, materialize(desc)) is not None:
        mj = fam.m["json"].verdict(desc, materialize(desc))
        ms = fam.m["simple"].verdict(desc, materialize(desc))
        if mj == ms:
            ctx.check(verdicts["json"] == verdicts["simple"], "json_simple_agree", f"{label}: JSON says {verdicts['json']}, simple says {verdicts['simple']} on {desc}")
            ctx.cls("json_simple_agreement_checked")
    return verdicts


def query_validate(op, fam: Family, ctx, prefix_key) -> None:
    model = fam.m["json"]
    # (1) the data of the previous validation of this slot, after the edits that followed
    if fam.last is not None and fam.edits_since_last:
        desc0, verdicts0, compiled0 = fam.last
        verdicts1 = _validate_all(fam, desc0, ctx, "re-validation after edits")
        if verdicts1["json"] != verdicts0["json"]:
            ctx.cls("verdict_flipped_after_edit")
            if compiled0:
                ctx.cls("verdict_flipped_after_edit_with_compiled_validator")
                ctx.nontriv(("flip", prefix_key))
        else:
            ctx.cls("verdict_same_after_edit")
    # (2) fresh data from the current model
    desc, n_mut = build_data(op, fam)
    verdicts = _validate_all(fam, desc, ctx, "validate")
    exp = model.verdict(desc, materialize(desc))
    if exp is True:
        ctx.cls("data_valid_unmutated" if not n_mut else "data_valid_after_mutation")
    elif exp is False:
        ctx.cls("data_rejected_missing_required" if model.required - desc.keys() else "data_rejected_wrong_type")
    if set(desc) - set(model.types):
        ctx.cls("data_with_unknown_name")
        if model.closed is not False:
            ctx.cls("data_with_unknown_name_on_closed_schema")
    if not model.types:
        ctx.cls("validate_on_empty_grammar")
    fam.last = (desc, verdicts, not (model.required - desc.keys()))
    fam.edits_since_last = 0


def check_cross(ctx, fams, step: int) -> None:
    for s, fam in enumerate(fams):
        for kind in fam.kinds():
            check_against_model(ctx, fam.g[kind], fam.m[kind], f"slot {s} after step {step}")
        if fam.sync_js:
            nj, rj, dj = observe(fam.g["json"])
            ns, rs, ds = observe(fam.g["simple"])
            ctx.check(set(nj) == set(ns) and rj == rs and defaults_equal(dj, ds), "json_simple_agree",
                      f"slot {s} after step {step}: JSON ({sorted(nj)}, {sorted(rj)}, {sorted(dj)}) and simple ({sorted(ns)}, {sorted(rs)}, {sorted(ds)}) differ")


def case_history(p, ctx):
    scratch = tempfile.mkdtemp(dir=os.environ.get("VERIF_SCRATCH"))
    try:
        fams = [Family(p["pyd"]) for _ in range(N_SLOTS)]
        probe_op = PROBE_VALIDATE
        for step, op in enumerate(p["ops"]):
            name = op["op"]
            ctx.cls("op:" + name)
            probing = bool(op.get("probe")) and name != "copy"
            if probing:
                ctx.cls("edit_between_two_validations")
                run_query({**probe_op, "slot": op["slot"]}, fams[op["slot"]], ctx, p["ops"][:step])
            if name == "copy":
                apply_copy(op, fams, ctx)
            elif name.startswith("q_") or name == "validate":
                run_query(op, fams[op["slot"]], ctx, p["ops"][: step + 1])
            else:
                apply_edit(op, fams, ctx, scratch)
            if probing:
                run_query({**probe_op, "slot": op["slot"]}, fams[op["slot"]], ctx, p["ops"][: step + 1])
            check_cross(ctx, fams, step)
        if p["pyd"]:
            ctx.cls("history_with_pydantic")
        ctx.extra["max_history_length"] = max(ctx.extra.get("max_history_length", 0), len(p["ops"]))
        ctx.sample({"oracle": "history", "case": p})
    finally:
        import shutil

        shutil.rmtree(scratch, ignore_errors=True)


# --------------------------------------------------------------------------- the shipped files
_FILES_CACHE: list | None = None


def shipped_files() -> list:
    """The JSON files under src/gemseo that are grammars (object schemas with properties)."""
    global _FILES_CACHE
    if _FILES_CACHE is None:
        import gemseo

        root = os.path.dirname(gemseo.__file__)
        found = []
        for path in sorted(glob.glob(os.path.join(root, "**", "*.json"), recursive=True)):
            try:
                with open(path) as fh:
                    doc = json.load(fh)
            except (OSError, ValueError):
                continue
            if isinstance(doc, dict) and isinstance(doc.get("properties"), dict) and doc.get("type") == "object":
                found.append((os.path.relpath(path, root), path, doc))
        _FILES_CACHE = found
    return _FILES_CACHE


URIS = ["file:///tmp/cache.h5", "http://example.com/x"]


def valid_desc(schema: dict, sel: int):
    """A JSON-able description of a valid value for a property schema of the shipped vocabulary."""
    t = schema.get("type")
    if t == "array":
        lo = schema.get("minItems", 0)
        hi = schema.get("maxItems", lo + 3)
        n = lo + sel % (hi - lo + 1)
        item_t = schema.get("items", {}).get("type", "number")
        form = ["ndarray", "ndarray", "list", "ndarray_int"][sel % 4]
        if item_t == "integer":
            form = "ndarray_int"
        elif item_t not in ("number",):
            return None
        return {"form": form, "n": n}
    if t == "number":
        lo = schema.get("minimum")
        if lo is None:
            return {"form": "scalar", "v": [1.5, -2, 0.0][sel % 3]}
        if schema.get("exclusiveMinimum") is True:
            return {"form": "scalar", "v": [lo + 0.5, lo + 1][sel % 2]}
        return {"form": "scalar", "v": [lo, lo + 0.5, lo + 1][sel % 3]}
    if t == "integer":
        lo = schema.get("minimum", 0)
        return {"form": "scalar", "v": lo + sel % 3}
    if t == "string":
        if "enum" in schema:
            return {"form": "scalar", "v": schema["enum"][sel % len(schema["enum"])]}
        if "format" in schema:
            return {"form": "scalar", "v": URIS[sel % len(URIS)]}
        return {"form": "scalar", "v": ["abc", ""][sel % 2]}
    if t == "boolean":
        return {"form": "scalar", "v": bool(sel % 2)}
    return None


def mutated_desc(schema: dict, how: int, sel: int):
    """A description that may violate one keyword of the property schema."""
    t = schema.get("type")
    classes = VALUE_CLASSES
    if "format" in schema:
        # a string under a 'format' keyword is only generated well-formed (see ASSUMPTIONS: fastjsonschema checks
        # 'uri', the reference validator does not by default), also on the mutation path
        classes = [c for c in VALUE_CLASSES if c != "str"]
    options = [{"form": "class", "cls": classes[sel % len(classes)]}]
    if t == "array":
        lo, hi = schema.get("minItems"), schema.get("maxItems")
        if lo:
            options.append({"form": "ndarray", "n": lo - 1})
        if hi is not None:
            options.append({"form": "ndarray", "n": hi + 1})
        n = lo or 2
        options += [{"form": "ndarray_2d", "n": n}, {"form": "list_str", "n": n}, {"form": "ndarray_complex", "n": n}, {"form": "list_mixed", "n": max(n, 2)}]
    elif t in ("number", "integer"):
        lo = schema.get("minimum")
        if lo is not None:
            options += [{"form": "scalar", "v": lo}, {"form": "scalar", "v": lo - 1}]
            if t == "number":
                options.append({"form": "scalar", "v": lo - 0.5})
        if t == "integer":
            options += [{"form": "scalar", "v": float((lo or 0) + 1)}, {"form": "scalar", "v": (lo or 0) + 0.5}]
        options.append({"form": "scalar", "v": True})
    elif t == "string":
        if "enum" in schema:
            options += [{"form": "scalar", "v": schema["enum"][0] + "_"}, {"form": "scalar", "v": schema["enum"][0].upper()}]
        options.append({"form": "scalar", "v": 3})
    elif t == "boolean":
        options += [{"form": "scalar", "v": 1}, {"form": "scalar", "v": "true"}]
    return options[how % len(options)]


def value_from_desc(d: dict):
    form = d["form"]
    if form == "class":
        return make_value(d["cls"])
    if form == "scalar":
        return d["v"]
    n = d["n"]
    if form == "ndarray":
        return np.linspace(0.5, 1.5, n) if n else np.array([])
    if form == "ndarray_int":
        return np.arange(n, dtype=int)
    if form == "list":
        return [0.5 + i for i in range(n)]
    if form == "ndarray_2d":
        return np.ones((n, 2))
    if form == "ndarray_complex":
        return np.linspace(0.5, 1.5, n) + 1j
    if form == "list_str":
        return ["a"] * n
    if form == "list_mixed":
        return [1.5, "a"][:n] + [2.5] * max(0, n - 2)
    raise AssertionError(form)


def files_strategy():
    mut = st.fixed_dictionaries({"el": st.integers(0, 15), "kind": st.integers(0, 3), "how": st.integers(0, 9), "sel": st.integers(0, 20)})
    return st.fixed_dictionaries({
        "file": st.integers(0, 199), "via": st.integers(0, 4), "sel": st.integers(0, 11), "omit": st.integers(0, 1023),
        "muts": st.lists(mut, max_size=2), "twice": st.booleans(),
    })


def case_files(p, ctx):
    import jsonschema
    from gemseo.core.grammars.json_grammar import JSONGrammar
    from jsonschema.validators import validator_for

    files = shipped_files()
    ctx.check(len(files) > 0, "files", "no JSON grammar file found under src/gemseo")
    rel, path, raw = files[p["file"] % len(files)]
    props = raw["properties"]
    names = list(props)
    required = list(raw.get("required", []))

    via = ["init", "update_from_file", "pickle", "copy", "init"][p["via"]]
    if via == "update_from_file":
        g = JSONGrammar("g")
        g.update_from_file(path)
    else:
        g = JSONGrammar("g", file_path=path)
    if via == "pickle":
        g = pickle.loads(pickle.dumps(g))
    elif via == "copy":
        g = g.copy()
    ctx.cls("files_via:" + via)

    ctx.check(set(g.keys()) == set(names), "files_definition", f"{rel}: elements {sorted(g.keys())}, file properties {sorted(names)}")
    ctx.check(set(g.required_names) == set(required), "files_definition", f"{rel}: required names {sorted(g.required_names)}, file {sorted(required)}")
    ctx.check(not dict(g.defaults), "files_definition", f"{rel}: defaults {dict(g.defaults)!r} out of a file without defaults")

    # data from the raw schema: valid by construction, then mutated
    desc = {}
    for i, name in enumerate(names):
        if name not in required and (p["omit"] >> (i % 10)) & 1:
            continue
        d = valid_desc(props[name], p["sel"] + i)
        if d is None:
            ctx.cls("files_property_outside_vocabulary")
            continue
        desc[name] = d
    n_mut = 0
    for mut in p["muts"]:
        name = names[mut["el"] % len(names)]
        if mut["kind"] == 0:
            if desc.pop(name, None) is not None:
                n_mut += 1
        elif mut["kind"] == 3:
            desc[UNKNOWN] = {"form": "class", "cls": VALUE_CLASSES[mut["sel"] % len(VALUE_CLASSES)]}
            n_mut += 1
        else:
            desc[name] = mutated_desc(props[name], mut["how"], mut["sel"])
            n_mut += 1

    def build():
        return {n: value_from_desc(d) for n, d in desc.items()}

    raw_schema = {k: v for k, v in raw.items() if k not in ("id", "name")}
    cls = validator_for(raw_schema, default=jsonschema.Draft4Validator)
    ref_raw = bool(cls(raw_schema).is_valid(ref_cast(build())))
    if not n_mut:
        ctx.check(ref_raw, "files_generator", f"{rel}: data valid by construction rejected by the reference: {desc}")

    for round_ in range(2 if p["twice"] else 1):
        got = verdict_of(g, build(), ctx, "json")
        doc = json.loads(g.to_json())
        refs = reference_verdicts(doc, ref_cast(build()))
        ctx.check(got == ref_raw, "files_vs_raw_schema",
                  f"{rel} ({via}, round {round_}): grammar {'accepts' if got else 'rejects'} {desc}; reference on the file's schema {'accepts' if ref_raw else 'rejects'}")
        if via == "copy" and required and "required" not in doc and ctx.known("to_json_drops_required"):
            ctx.cls("known:to_json_drops_required")
            doc["required"] = sorted(required)
            refs = reference_verdicts(doc, ref_cast(build()))
        ctx.check(got in refs, "files_vs_to_json", f"{rel} ({via}): grammar {'accepts' if got else 'rejects'} {desc}; reference on to_json() says {sorted(refs)}")
        ctx.check(set(doc.get("properties", {})) == set(names) and sorted(doc.get("required", [])) == sorted(required), "files_to_json_required",
                  f"{rel}: to_json() lists {sorted(doc.get('properties', {}))} / required {doc.get('required')}")
    missing = [n for n in required if n not in desc]
    if ref_raw:
        ctx.cls("files_accept_unmutated" if not n_mut else "files_accept_after_mutation")
    elif missing:
        ctx.cls("files_reject_missing_required")
    else:
        ctx.cls("files_reject_keyword")
        ctx.nontriv(("files", rel, desc))
    ctx.extra.setdefault("files_seen", [])
    if rel not in ctx.extra["files_seen"]:
        ctx.extra["files_seen"].append(rel)
    ctx.extra["max_shipped_grammar_files"] = len(files)
    ctx.sample({"oracle": "files", "file": rel, "data": desc})


ORACLES = {"history": case_history, "files": case_files}


def run(ctx):
    ctx.drive("history", histories(), case_history, quick=900, thorough=6000)
    ctx.drive("files", files_strategy(), case_files, quick=500, thorough=3000)
