"""C16 - Derivative approximations are accurate to their order and respect bounds.

Harness functions (polynomials of degree <= 3, products sin x exp of affine forms) come with their
exact derivative and with bounds of their 1st/2nd/3rd axis derivatives on the box inflated by the
step; the error of FirstOrderFD / CenteredDifferences / ComplexStep is compared with the analytic
error bound of the method, every point at which the function is called is logged (bound safety),
and the discipline-level wrappers (approximation linearization modes, check_jacobian with names and
indices on a correct and on a deliberately wrong Jacobian) are held to the same bounds.
"""

from __future__ import annotations

import logging
import math
import warnings

import numpy as np
from hypothesis import strategies as st

logging.getLogger("gemseo").setLevel(logging.CRITICAL)

PROPERTY = "C16"
LEVEL = "exploration"
RULE = (
    "Hypothesis draws a function (1-4 inputs, 1-3 outputs or a float: polynomial of degree <= 3 with integer "
    "coefficients, or a*sin(w.x+p)*exp(v.x+q)), a box, a point whose components are inside, exactly 0, on a "
    "bound or within one step of a bound, a method (forward, centred, complex step), a step (1e-8..1e-3; "
    "1e-30..1e-8 for the complex step; scalar or one per differentiated component), all components or a "
    "strict subset in any order, no design space / a design space / a normalised design space, a constructor step that is absent, the same or different (scalar / array) from "
    "the step passed per call, serial or parallel (processes, threads); the approximation is compared entry-wise with the exact derivative within the "
    "analytic bound of the method, and the logged evaluation points with the upper bounds.  Half of the cases differentiate "
    "a second time with the same approximator after the upper bounds and the point were moved.  Optimal-step cases "
    "(curved quadratics, convex and concave directions) check the steps, their symmetry under f -> -f and the accuracy "
    "with the steps in use.  Discipline "
    "level: a polynomial discipline with 1-3 inputs and 1-2 outputs of sizes 1-3 is linearised in the three "
    "approximation modes and checked by check_jacobian (names, indices as int / list / slice / ellipsis) "
    "with an exact and with a wrong analytic Jacobian.  Non-trivial = strict subset or per-component step, at "
    "a point with a zero component or on/near a bound, checked in full (discipline: indices or name subsets); "
    "distinct = structural hash of the payload."
)
ASSUMPTIONS = [
    "error bounds: forward M2*h/2 + r/h, centred M3*h^2/6 + r/h (M2*h/2 + r/h for a component on a bound "
    "or within one step of it, where a one-sided scheme is legitimate), complex step M3*d^2/6 + 64*eps*M1 with d = h*|x_j| (h when "
    "x_j = 0); r = 64*eps*(F + M1*R) covers the rounding of two evaluations and of x+h; F, M1, M2, M3 are "
    "sums of absolute values of the terms on the box inflated by the step; the truncation terms carry a relative "
    "slack of 1e-6 (quadratic and cubic functions attain them exactly)",
    "a per-component step array has one entry per differentiated component (the convention of f_gradient)",
    "the step passed to f_gradient is the step to be used whatever step (none, the same, another scalar, another "
    "array) the constructor received; ComplexStep takes a number in its constructor",
    "discipline cache: default, SimpleCache or MemoryFullCache with a tolerance in {0, 1e-3, 1e-2, 0.1} (far above "
    "the step; the approximation must not be served from the cache), or no cache; every case uses a fresh discipline",
    "component subsets are requested in any order without repetition (column j of the result is the derivative w.r.t. "
    "x_indices[j]; check_jacobian index lists keep the caller's order); steps are positive (a negative step is outside "
    "the domain: CenteredDifferences then returns the negated derivative, FirstOrderFD does not)",
    "a point may be given as an int64 array with integer coordinates (current value of an all-integer design space)",
    "check_jacobian acceptance rule (read on the code): |analytic - approx| <= threshold + threshold*|approx|; in the "
    "'precise' cases (entries ~1e3, thresholds 1e-8/1e-7, complex step or centred differences on quadratics) a verdict is "
    "required only when the error bound of the reference decides it either way",
    "thread-parallel discipline approximations use a harness discipline that pauses 2 ms between reading its inputs and "
    "writing its outputs and counts overlapping executions; the sleep is not part of any oracle",
    "after a switch of approximation mode through the linearization_mode setter the step may be the default 1e-7 or the "
    "one of the previous mode: the bound of the new scheme over that range is required",
    "DisciplineJacApprox with one step per input component (documented): the bound of the scheme over the range of the "
    "given steps is required, whichever entry a component subset uses",
    "boxes are at least 0.5 wide, steps at most 1e-3: a flipped step never leaves the box on the other side",
    "bound safety is asserted for the upper bounds (the statement); lower-bound excursions of the centred "
    "scheme are only counted",
    "parallel runs are compared with the serial result bit for bit; with processes the evaluation points "
    "cannot be logged",
    "check_jacobian: threshold = 2 x error bound + 1e-9 (<= 0.1), wrong entry off by 1 + |entry|",
    "discipline-level parallel approximation is exercised with threads only (2-4 threads, linearize and check_jacobian)",
    "two-call histories: the same approximator objects (serial and parallel) differentiate a second time after the upper "
    "bounds of the design space were moved (tightened by 25/50 %, relaxed by 50 % or kept) and the point was redrawn; "
    "every oracle is applied to each call with the bounds of the design space at that call; in a normalised space one "
    "component may have no lower bound (it is then not normalised and keeps physical coordinates)",
    "optimal steps (compute_optimal_step, set_optimal_fd_step, check_jacobian(auto_set_step=True)) are exercised on "
    "quadratics that are strictly convex or strictly concave along every axis (second differences exact for any initial "
    "step 1e-4..5e-2) with outputs >= 0.05 in magnitude at the point where the steps are computed (the default inputs "
    "at discipline level); the step of a component must lie within the range over the outputs of the documented "
    "2*sqrt(eps*|f|/|f''|) (1e-3 relative slack), f and -f must get identical steps and error estimates, and the "
    "Jacobian must stay within the bound of the scheme for the steps in use (worst end of that range at discipline level)",
]

EPS = 2.0**-52
K_CS_SUBSET = "complex_step_non_prefix_subset"
K_FD_SUBSET_SPACE = "differences_subset_with_design_space"
K_BEYOND_UB = "step_beyond_upper_bound"
K_THREADS = "parallel_threading"
K_SUBSET_DEFAULTS = "discipline_approximation_input_subset_uses_defaults"
K_AUTO_CACHE = "auto_step_with_cache_tolerance"
K_INT_POINT = "differences_at_integer_dtype_point"
K_STEP_ARRAY_INDICES = "discipline_step_array_with_indices"
K_MODE_SWITCH = "linearization_mode_switch_keeps_approximator"


# =========================================================================== strategies
def _lst(elem, k):
    return st.lists(elem, min_size=k, max_size=k)


@st.composite
def function_specs(draw, n: int, n_out: int, trig_ok: bool = True, dense: bool = False):
    if trig_ok and draw(st.integers(0, 2)) == 0:
        outs = [
            {"a": draw(st.sampled_from([-2, -1, 1, 2, 3])), "w": draw(_lst(st.integers(-2, 2), n)), "p": draw(st.integers(-3, 3)),
             "v": draw(_lst(st.integers(-2, 2), n)), "q": draw(st.integers(-1, 1))}
            for _ in range(n_out)
        ]
        return {"kind": "trig", "n": n, "out": outs}
    outs = []
    for _ in range(n_out):
        monos = []
        for _ in range(draw(st.integers(1, 4))):
            exps = [0] * n
            for _ in range(draw(st.integers(0, 3))):
                exps[draw(st.integers(0, n - 1))] += 1
            monos.append({"c": draw(st.sampled_from([-3, -2, -1, 1, 2, 3])), "e": exps})
        if dense:
            # every output depends on every input: no block of the Jacobian is identically zero
            for j in range(n):
                monos.append({"c": draw(st.sampled_from([-3, -2, -1, 1, 2, 3])), "e": [int(i == j) for i in range(n)]})
        outs.append(monos)
    return {"kind": "poly", "n": n, "out": outs}


@st.composite
def curved_specs(draw, n: int, n_out: int):
    """Quadratic outputs a + b.x + sum_j c_j x_j^2 (+ cross terms) with every c_j != 0: each output is strictly
    convex or strictly CONCAVE along each axis, and central second differences are exact for any step."""
    outs = []
    for _ in range(n_out):
        monos = [{"c": draw(st.sampled_from([-3, -2, -1, 1, 2, 3])), "e": [0] * n}]
        for j in range(n):
            b = draw(st.integers(-3, 3))
            if b:
                monos.append({"c": b, "e": [int(i == j) for i in range(n)]})
            monos.append({"c": draw(st.sampled_from([-3, -2, -1, 1, 2, 3])), "e": [2 * int(i == j) for i in range(n)]})
        if n >= 2 and draw(st.booleans()):
            i, j = draw(st.permutations(list(range(n))))[:2]
            monos.append({"c": draw(st.sampled_from([-2, -1, 1, 2])), "e": [int(q in (i, j)) for q in range(n)]})
        outs.append(monos)
    return {"kind": "poly", "n": n, "out": outs}


@st.composite
def large_specs(draw, n: int, n_out: int):
    """Quadratic maps whose Jacobian entries are ~1e3 (linear coefficients +-1000..3000, small curvatures)."""
    outs = []
    for _ in range(n_out):
        monos = [{"c": draw(st.integers(-3, 3)), "e": [0] * n}]
        for j in range(n):
            monos.append({"c": 1000 * draw(st.sampled_from([-3, -2, -1, 1, 2, 3])), "e": [int(i == j) for i in range(n)]})
            c = draw(st.integers(-2, 2))
            if c:
                monos.append({"c": c, "e": [2 * int(i == j) for i in range(n)]})
        outs.append(monos)
    return {"kind": "poly", "n": n, "out": outs}


@st.composite
def optimal_step_cases(draw):
    n = draw(st.integers(1, 3))
    n_out = draw(st.integers(1, 3))
    return {"n": n, "f": draw(curved_specs(n, n_out)), "scalar": n_out == 1 and draw(st.booleans()), "method": draw(st.sampled_from(["fd", "fd", "cd"])),
            "h_mant": draw(st.sampled_from([1.0, 2.0, 5.0])), "h_exp": draw(st.integers(-4, -2)), "x": draw(_lst(st.integers(-8, 8), n))}


MODES = ["inside", "inside", "zero", "ub", "lb", "near_ub", "near_ub", "near_lb"]


@st.composite
def approximator_cases(draw):
    n = draw(st.integers(1, 4))
    n_out = draw(st.integers(1, 3))
    method = draw(st.sampled_from(["fd", "fd", "cd", "cd", "cs"]))
    p = {
        "n": n, "f": draw(function_specs(n, n_out)), "scalar": n_out == 1 and draw(st.booleans()), "method": method,
        "lb": draw(_lst(st.sampled_from([-2.0, -1.0, -0.5, 0.0, 0.5, 1.0]), n)), "width": draw(_lst(st.sampled_from([0.5, 1.0, 2.0, 3.0]), n)),
        "pos": [{"mode": draw(st.sampled_from(MODES)), "t": draw(st.sampled_from([0.25, 0.5, 0.75]))} for _ in range(n)],
        "h_mant": draw(st.sampled_from([1.0, 2.0, 5.0])),
        "h_exp": draw(st.integers(-30, -8)) if method == "cs" else draw(st.integers(-8, -4)),
        "steps": draw(st.one_of(st.none(), _lst(st.sampled_from([0.5, 1.0, 2.0, 4.0]), n))),
        "step_in_constructor": False,
        # step given to the constructor: class default, the step itself (none per call), or ANOTHER scalar / array
        # while the step to be used is passed to f_gradient
        "ctor": draw(st.sampled_from(["default", "same", "other_scalar", "other_scalar", "other_array"])),
        "ctor_mult": draw(_lst(st.sampled_from([0.01, 0.1, 3.0, 10.0, 100.0]), n)),
        "subset": draw(_lst(st.booleans(), n)) if n >= 2 and draw(st.booleans()) else None,
        "explicit_all": draw(st.booleans()),
        "space": draw(st.sampled_from(["none", "plain", "plain", "normalized"])),
        "split": draw(st.integers(1, 3)), "inf_ub": draw(st.integers(0, 7)),
        "parallel": draw(st.sampled_from(["no"] * 12 + ["processes"] + ["threads"] * 5)),
        "inf_lb": draw(st.integers(0, 7)),  # normalised space: this component has no lower bound, hence is not normalised
        # order in which the differentiated components are requested (x_indices need not be increasing)
        "order": list(draw(st.permutations(list(range(n))))) if draw(st.booleans()) else None,
        # the point is given as an int64 array (DesignSpace.get_current_value() of an all-integer space)
        "int_point": draw(st.integers(0, 15)) == 11,
    }
    if draw(st.booleans()):
        # the SAME approximator differentiates a second time after the upper bounds were moved and the point too
        p["second"] = {"shrink": draw(_lst(st.sampled_from([-0.5, 0.0, 0.25, 0.5, 0.5]), n)),
                       "pos": [{"mode": draw(st.sampled_from(MODES)), "t": draw(st.sampled_from([0.25, 0.5, 0.75]))} for _ in range(n)]}
    return p


BASIC_ACTIONS = ["linearize", "check", "check", "check_wrong", "check_wrong"]
AUTO_ACTIONS = ["auto_check", "auto_check", "auto_check_wrong", "auto_linearize"]
PRECISE_ACTIONS = ["precise", "precise_wrong", "precise_wrong", "precise_wrong"]


@st.composite
def discipline_cases(draw, actions=tuple(BASIC_ACTIONS)):
    n_in = draw(st.integers(1, 3))
    n_out = draw(st.integers(1, 2))
    in_sizes = draw(_lst(st.integers(1, 3), n_in))
    out_sizes = draw(_lst(st.integers(1, 3), n_out))
    n, m = sum(in_sizes), sum(out_sizes)
    method = draw(st.sampled_from(["fd", "cd", "cs"]))
    idx = st.one_of(
        st.none(), st.just("ellipsis"), st.fixed_dictionaries({"int": st.integers(0, 5)}),
        st.fixed_dictionaries({"list": st.lists(st.integers(0, 5), min_size=1, max_size=3)}),
        st.fixed_dictionaries({"slice": _lst(st.integers(0, 3), 2)}),
    )
    return {
        "in_names": draw(st.sampled_from([["x", "y", "z"], ["ab", "a", "b"], ["x_1", "x_10", "x"]]))[:n_in], "in_sizes": in_sizes,
        "out_names": draw(st.sampled_from([["f", "g"], ["out", "o"]]))[:n_out], "out_sizes": out_sizes,
        "f": draw(function_specs(n, m, trig_ok=False, dense=draw(st.integers(0, 3)) > 0)), "x": draw(_lst(st.integers(-8, 8), n)),
        "method": method, "h_mant": draw(st.sampled_from([1.0, 2.0, 5.0])),
        "h_exp": draw(st.integers(-30, -8)) if method == "cs" else draw(st.integers(-7, -5)),
        "action": draw(st.sampled_from(list(actions))),
        # a wrong entry off by a RELATIVE error on a Jacobian with entries ~1e3, tight thresholds, near-exact reference
        "fl": draw(large_specs(n, m)), "rel": draw(st.sampled_from([5e-6, 5e-6, 2e-6, 1e-4, 1e-2, 1.0])), "tight": draw(st.sampled_from([1e-8, 1e-7])),
        "cd_exp": draw(st.sampled_from([-3, -2])),
        # thread-parallel approximation of ONE discipline
        "n_threads": draw(st.integers(2, 4)), "threads_via": draw(st.sampled_from(["linearize", "check", "check"])),
        # approximation mode set before the one under test (the setter must switch the scheme)
        "prev_method": draw(st.sampled_from([None, None, "fd", "cd", "cs"])), "prev_h_exp": draw(st.integers(-7, -5)), "prev_via_setter": draw(st.booleans()),
        # DisciplineJacApprox(step=<one step per input component>) used by check_jacobian
        "step_array": draw(st.one_of(st.none(), _lst(st.sampled_from([0.5, 1.0, 2.0, 4.0]), 9))),
        # strictly curved quadratic used by the optimal-step actions, with its initial step
        "fq": draw(curved_specs(n, m)), "auto_h_exp": draw(st.integers(-4, -2)),
        "via_setter": draw(st.booleans()), "default_step": draw(st.integers(0, 3)) == 0,
        "in_subset": draw(st.one_of(st.none(), _lst(st.booleans(), n_in))), "out_subset": draw(st.one_of(st.none(), _lst(st.booleans(), n_out))),
        "reverse_names": draw(st.booleans()),
        "indices_in": draw(_lst(idx, n_in)), "indices_out": draw(_lst(idx, n_out)), "use_indices": draw(st.booleans()),
        "wrong": [draw(st.integers(0, 20)), draw(st.integers(0, 20))], "grammar": draw(st.sampled_from(["JSON", "Simple"])),
        "defaults": draw(st.sampled_from(["same", "same", "same_no_input_data", "other", "none"])),
        # cache of the discipline: the default one, or set_cache(type, tolerance) with a tolerance far above the step
        "cache": draw(st.sampled_from(["default", "SimpleCache", "SimpleCache", "MemoryFullCache", "MemoryFullCache", "none"])),
        "cache_tol": draw(st.sampled_from([0.0, 1e-3, 1e-2, 0.1])),
    }


# =========================================================================== harness functions
def f_eval(spec, x):
    """Outputs (n_out,) at x (real or complex)."""
    out = []
    for o in spec["out"]:
        if spec["kind"] == "trig":
            s = sum(w * xi for w, xi in zip(o["w"], x)) + o["p"]
            e = sum(v * xi for v, xi in zip(o["v"], x)) * 0.25 + o["q"]
            out.append(o["a"] * np.sin(s) * np.exp(e))
        else:
            val = 0.0
            for mono in o:
                term = mono["c"]
                for xi, ex in zip(x, mono["e"]):
                    for _ in range(ex):
                        term = term * xi
                val = val + term
            out.append(val)
    return np.array(out)


def f_jac(spec, x):
    """Exact Jacobian (n_out, n) at a real point."""
    n = spec["n"]
    jac = np.zeros((len(spec["out"]), n))
    for k, o in enumerate(spec["out"]):
        if spec["kind"] == "trig":
            s = float(np.dot(o["w"], x)) + o["p"]
            e = float(np.dot(o["v"], x)) * 0.25 + o["q"]
            for j in range(n):
                jac[k, j] = o["a"] * math.exp(e) * (o["w"][j] * math.cos(s) + 0.25 * o["v"][j] * math.sin(s))
        else:
            for mono in o:
                for j in range(n):
                    ej = mono["e"][j]
                    if ej == 0:
                        continue
                    term = mono["c"] * ej * x[j] ** (ej - 1)
                    for i in range(n):
                        if i != j:
                            term *= x[i] ** mono["e"][i]
                    jac[k, j] += term
    return jac


def f_bounds(spec, radius):
    """F (n_out,) and M1, M2, M3 (n_out, n): bounds of |f| and of its 1st-3rd axis derivatives for |x_i| <= radius_i.

    F carries the conditioning of the evaluation: for sin x exp it is multiplied by 1 + the largest magnitude
    of the arguments (their rounding is amplified by that much)."""
    n, n_out = spec["n"], len(spec["out"])
    big = np.zeros(n_out)
    ms = [np.zeros((n_out, n)) for _ in range(3)]
    for k, o in enumerate(spec["out"]):
        if spec["kind"] == "trig":
            emax = o["q"] + 0.25 * sum(abs(v) * r for v, r in zip(o["v"], radius))
            amp = abs(o["a"]) * math.exp(emax)
            args = 1 + abs(o["p"]) + sum(abs(w) * r for w, r in zip(o["w"], radius)) + abs(o["q"]) + 0.25 * sum(abs(v) * r for v, r in zip(o["v"], radius))
            big[k] = amp * args
            for j in range(n):
                rate = abs(o["w"][j]) + 0.25 * abs(o["v"][j])
                for r in range(3):
                    ms[r][k, j] = amp * rate ** (r + 1)
        else:
            for mono in o:
                base = abs(mono["c"])
                big[k] += base * math.prod(radius[i] ** mono["e"][i] for i in range(n))
                for j in range(n):
                    ej = mono["e"][j]
                    others = math.prod(radius[i] ** mono["e"][i] for i in range(n) if i != j)
                    for r in range(1, 4):
                        if ej >= r:
                            ms[r - 1][k, j] += base * math.perm(ej, r) * radius[j] ** (ej - r) * others
    return big, ms[0], ms[1], ms[2]


def error_bound(method, h, x_j, on_bound, big_k, m1, m2, m3, radius_j):
    """Largest admissible |approximation - exact| for one entry."""
    if method == "cs":
        d = h * abs(x_j) if x_j != 0.0 else h
        return (m3 * d * d / 6) * (1 + 1e-6) + 64 * EPS * (m1 + big_k) + 1e-300
    rounding = 64 * EPS * (big_k + m1 * radius_j) / h
    if method == "fd" or on_bound:
        return (m2 * h / 2) * (1 + 1e-6) + rounding
    return (m3 * h * h / 6) * (1 + 1e-6) + rounding


# =========================================================================== oracle: approximators
def approximator_class(method):
    from gemseo.utils.derivatives.centered_differences import CenteredDifferences
    from gemseo.utils.derivatives.complex_step import ComplexStep
    from gemseo.utils.derivatives.finite_differences import FirstOrderFD

    return {"fd": FirstOrderFD, "cd": CenteredDifferences, "cs": ComplexStep}[method]


def layout(p):
    """Working box, point, selected indices and steps of an approximator case (all derived, no gemseo)."""
    n = p["n"]
    normalized = p["space"] == "normalized"
    lb = np.array(p["lb"])
    ub = lb + np.array(p["width"])
    inf_ub = [p["space"] == "plain" and p["inf_ub"] == j for j in range(n)]
    inf_lb = np.array([normalized and p.get("inf_lb", 9) == j for j in range(n)])  # not normalised: physical coordinates
    lb_w, ub_w = (np.where(inf_lb, lb, 0.0), np.where(inf_lb, ub, 1.0)) if normalized else (lb, ub)
    sel = list(range(n))
    if p["subset"] is not None:
        sel = [j for j in range(n) if p["subset"][j]]
        if not sel or len(sel) == n:
            sel = [j for j in range(n) if j != (sum(p["subset"]) % n)]  # always a strict subset
    if p.get("order") and (len(sel) < n or p["explicit_all"]):
        sel = sorted(sel, key=lambda j: p["order"][j])
    h0 = p["h_mant"] * 10.0 ** p["h_exp"]
    per_component = p["steps"] is not None
    steps = np.array([h0 * (p["steps"][j] if per_component else 1.0) for j in sel])
    h_of = dict(zip(sel, steps))
    x = np.empty(n)
    modes = []
    for j in range(n):
        mode, t = p["pos"][j]["mode"], p["pos"][j]["t"]
        h = h_of.get(j, h0)
        if inf_ub[j] and mode in ("ub", "near_ub"):
            mode = "inside"
        if inf_lb[j] and mode in ("lb", "near_lb"):
            mode = "inside"
        if mode == "zero" and not (lb_w[j] <= 0.0 <= ub_w[j]):
            mode = "inside"
        if p["method"] == "cs" and mode in ("near_ub", "near_lb"):
            mode = "inside"
        x[j] = {"inside": lb_w[j] + t * (ub_w[j] - lb_w[j]), "zero": 0.0, "ub": ub_w[j], "lb": lb_w[j],
                "near_ub": ub_w[j] - t * h, "near_lb": lb_w[j] + t * h}[mode]
        modes.append(mode)
    int_point = bool(p.get("int_point")) and all(math.ceil(lo) <= hi for lo, hi in zip(lb_w, ub_w))
    if int_point:
        # integer coordinates inside the box: the smallest integer >= lb, or the largest <= ub
        for j in range(n):
            x[j] = float(math.ceil(lb_w[j])) if p["pos"][j]["t"] < 0.6 else float(math.floor(ub_w[j]))
            modes[j] = "ub" if x[j] == ub_w[j] and not inf_ub[j] else "lb" if x[j] == lb_w[j] and not inf_lb[j] else "zero" if x[j] == 0.0 else "inside"
    return {"lb": np.where(inf_lb, -np.inf, lb), "lb_chk": np.where(inf_lb, -np.inf, lb_w), "ub": np.where(inf_ub, np.inf, ub), "lb_w": lb_w, "ub_w": np.where(inf_ub, np.inf, ub_w), "box_hi": ub_w, "x": x, "modes": modes,
            "sel": sel, "steps": steps, "h0": h0, "per_component": per_component, "strict": len(sel) < n, "int_point": int_point}


def build_space(p, lay, space=None):
    """The design space of a case; with ``space`` given, only its upper bounds are moved to those of ``lay``."""
    from gemseo.algos.design_space import DesignSpace

    update = space is not None
    space = space if update else DesignSpace()
    n, k, v = p["n"], 0, 0
    size0 = max(1, min(p["split"], n))
    while k < n:
        size = size0 if v == 0 else n - k
        name = ["x", "yy", "z"][v]
        if update:
            space.set_upper_bound(name, np.array(lay["ub"][k:k + size], dtype=float))
        else:
            space.add_variable(name, size=size, lower_bound=lay["lb"][k:k + size], upper_bound=lay["ub"][k:k + size])
        k += size
        v += 1
    return space


def case_approximator(p, ctx):
    lay = layout(p)
    n, method, spec = p["n"], p["method"], p["f"]
    sel, steps = lay["sel"], lay["steps"]
    with_space = p["space"] != "none"
    bounded_scheme = method in ("fd", "cd")
    prefix = sel == list(range(len(sel)))
    ctx.cls("method_" + method, "space_" + p["space"], "parallel_" + p["parallel"],
            "strict_subset" if lay["strict"] else "all_components", "per_component_step" if lay["per_component"] else "scalar_step")
    # ---- classes excluded by open ledger entries
    if method == "cs" and lay["strict"] and not prefix and ctx.known(K_CS_SUBSET):
        return
    if bounded_scheme and with_space and lay["strict"] and ctx.known(K_FD_SUBSET_SPACE):
        return
    if p["parallel"] == "threads" and ctx.known(K_THREADS):
        return

    calls = []
    scalar = p["scalar"]

    def func(v):
        calls.append(np.array(v, copy=True))
        out = f_eval(spec, v)
        return out[0] if scalar else out

    space = build_space(p, lay) if with_space else None
    cls = approximator_class(method)
    kwargs = {}
    if with_space:
        kwargs = {"design_space": space, "normalize": p["space"] == "normalized"}
    step_arg = steps.copy() if lay["per_component"] else lay["h0"]
    ctor = p.get("ctor") or ("same" if p["step_in_constructor"] else "default")
    if method == "cs" and ctor == "other_array":
        ctor = "other_scalar"  # the step setter of ComplexStep takes a number
    in_constructor = ctor == "same" and not (method == "cs" and lay["per_component"])
    if in_constructor:
        ctor_step = step_arg
    elif ctor == "other_scalar":
        ctor_step = lay["h0"] * p["ctor_mult"][0]
    elif ctor == "other_array":
        ctor_step = np.array([lay["h0"] * p["ctor_mult"][j] for j in sel])
    else:
        ctor_step = None
    ctx.cls("constructor_step_" + ("same" if in_constructor else ctor if ctor != "same" else "default"))
    approx = cls(func, step=ctor_step, **kwargs)
    par = None
    if p["parallel"] != "no":
        par = cls(func, step=ctor_step, parallel=True, n_processes=2, use_threading=p["parallel"] == "threads", **kwargs)
    x_indices = sel if (lay["strict"] or p["explicit_all"]) else ()
    n_out = len(spec["out"])

    def differentiate(lay, call):
        """One call of f_gradient on the (same) approximators, held to the bounds the design space has NOW."""
        x = lay["x"]
        x_given = x
        if lay["int_point"]:
            ctx.cls("point_given_as_int64")
            if bounded_scheme and ctx.known(K_INT_POINT):
                return False
            x_given = x.astype(np.int64)
        if sel != sorted(sel):
            ctx.cls("components_requested_in_non_increasing_order")
        near_ub = [j for j in sel if lay["modes"][j] == "near_ub"]
        for j in sel:
            ctx.cls("point_" + lay["modes"][j])
        del calls[:]
        x_before = x_given.copy()
        with warnings.catch_warnings():
            warnings.simplefilter("ignore", RuntimeWarning)
            grad = approx.f_gradient(x_given, None if in_constructor else step_arg, x_indices)
        ctx.check(np.array_equal(x_given, x_before) and x_given.dtype == x_before.dtype, "input_unmodified", "f_gradient modified the input vector")
        expected_shape = (len(sel),) if scalar else (n_out, len(sel))
        ctx.check(isinstance(grad, np.ndarray) and grad.shape == expected_shape, "shape", f"{call}: gradient has shape {np.shape(grad)}, expected {expected_shape}")
        got = grad.reshape(n_out, len(sel))

        # ---- accuracy
        radius = np.maximum(np.maximum(np.abs(lay["lb_w"]), np.abs(lay["box_hi"])), np.abs(x)) + (float(np.max(steps)) if bounded_scheme else 0.0)
        big, m1, m2, m3 = f_bounds(spec, radius)
        exact = f_jac(spec, x)
        for c, j in enumerate(sel):
            # centred scheme on a bound or within one step of it: a one-sided (first-order) quotient is legitimate
            on_bound = with_space and method == "cd" and (x[j] + steps[c] > lay["ub_w"][j] or x[j] - steps[c] < lay["lb_chk"][j])
            for k in range(n_out):
                bound = error_bound(method, steps[c], x[j], on_bound, big[k], m1[k, j], m2[k, j], m3[k, j], radius[j])
                err = abs(got[k, c] - exact[k, j])
                if err > 0 and np.isfinite(err):
                    key = "max_error_to_bound_ratio_" + method
                    ctx.extra[key] = max(ctx.extra.get(key, 0.0), float(err / bound))
                ctx.check(bool(np.isfinite(got[k, c])) and err <= bound, "accuracy",
                          f"{method}, {call}: d f[{k}]/d x[{j}] = {got[k, c]!r}, exact {exact[k, j]!r}: error {err:.3e} exceeds the bound {bound:.3e} of the scheme (step {steps[c]:g})",
                          point=x, indices=sel)
        # ---- bound safety
        if with_space and calls:
            over = [(c, j) for c in calls for j in range(n) if np.real(c[j]) > lay["ub_w"][j]]
            under = [1 for c in calls for j in range(n) if np.real(c[j]) < lay["lb_chk"][j]]
            if under:
                ctx.cls("evaluation_below_lower_bound")
            if bounded_scheme and near_ub:
                ctx.cls("selected_component_within_one_step_of_ub")
            if not (bounded_scheme and near_ub and ctx.known(K_BEYOND_UB)):
                ctx.check(not over, "bound_safety",
                          f"{method}, {call}: the function was evaluated at {over[0][0]!r} beyond the upper bound {lay['ub_w']!r} (component {over[0][1]})" if over else "", point=x)
        # ---- parallel == serial
        if par is not None:
            with warnings.catch_warnings():
                warnings.simplefilter("ignore", RuntimeWarning)
                grad_par = par.f_gradient(x_given, None if in_constructor else step_arg, x_indices)
            ctx.check(isinstance(grad_par, np.ndarray) and grad_par.shape == grad.shape and np.array_equal(grad_par, grad), "parallel_equals_serial",
                      f"{method}, {call}: the parallel gradient {grad_par!r} differs from the serial one {grad!r}")
        return any(lay["modes"][j] in ("zero", "ub", "lb", "near_ub", "near_lb") for j in sel)

    special_point = differentiate(lay, "first call")
    if p.get("second") is not None:
        # the same approximators are used again after the upper bounds of the design space and the point were moved
        widths = [w * (1.0 - sh) for w, sh in zip(p["width"], p["second"]["shrink"])]
        lay2 = layout(dict(p, width=widths, pos=p["second"]["pos"]))
        if with_space:
            build_space(p, lay2, space)
            ctx.cls("second_call_after_bounds_moved")
        else:
            ctx.cls("second_call_no_space")
        special_point = differentiate(lay2, "second call after the upper bounds were moved") or special_point
    if (lay["strict"] or lay["per_component"]) and special_point:
        ctx.nontriv(("approximator", p))
        ctx.cls("nontrivial")
    ctx.sample({"oracle": "approximator", "case": p})


# =========================================================================== oracle: optimal step
def curvatures(spec):
    """Exact second axis derivatives (n_out, n) of a curved quadratic."""
    n = spec["n"]
    out = np.zeros((len(spec["out"]), n))
    for k, monos in enumerate(spec["out"]):
        for mono in monos:
            for j in range(n):
                if mono["e"][j] == 2:
                    out[k, j] += 2.0 * mono["c"]
    return out


def documented_optimal_steps(spec, point):
    """Per input component, the interval of 2*sqrt(eps*|f_k|/|f_k''|) over the outputs (truncation error |f''|h/2
    equal to cancellation error 2*eps*|f|/h, error_estimators.compute_best_step); None when an output is too close to 0."""
    values = np.abs(np.real(f_eval(spec, point)))
    if np.any(values < 0.05):
        return None
    cand = 2.0 * np.sqrt(EPS * values[:, None] / np.abs(curvatures(spec)))
    return cand.min(axis=0) * (1 - 1e-3), cand.max(axis=0) * (1 + 1e-3)


def bound_over_interval(method, lo, hi, x_j, big_k, m1, m2, m3, radius_j):
    """The error bound is convex in the step: its maximum over [lo, hi] is at an end."""
    return max(error_bound(method, lo, x_j, False, big_k, m1, m2, m3, radius_j), error_bound(method, hi, x_j, False, big_k, m1, m2, m3, radius_j))


def case_optimal_step(p, ctx):
    n, spec, method, scalar = p["n"], p["f"], p["method"], p["scalar"]
    x = np.array(p["x"], dtype=float) / 4.0
    h_init = p["h_mant"] * 10.0 ** p["h_exp"]
    interval = documented_optimal_steps(spec, x)
    if interval is None:
        ctx.cls("optimal_step_skipped_output_near_zero")
        return
    lo, hi = interval
    cls = approximator_class(method)

    def func(v, sign=1.0):
        out = sign * f_eval(spec, v)
        return out[0] if scalar else out

    approx = cls(func, step=h_init)
    steps, errors = approx.compute_optimal_step(x)
    mirror = cls(lambda v: func(v, -1.0), step=h_init)
    steps_m, errors_m = mirror.compute_optimal_step(x)
    steps, errors = np.asarray(steps, dtype=float), np.asarray(errors, dtype=float)
    ctx.check(steps.shape == (n,) and errors.shape == (n,), "optimal_step", f"optimal steps have shape {steps.shape}, errors {errors.shape}, expected ({n},)")
    ctx.check(np.array_equal(steps, np.asarray(steps_m)) and np.array_equal(errors, np.asarray(errors_m)), "optimal_step_symmetry",
              f"{method}: f gets the optimal steps {steps!r} (errors {errors!r}), -f gets {np.asarray(steps_m)!r} (errors {np.asarray(errors_m)!r})", point=x)
    ctx.check(bool(np.all(np.isfinite(steps)) and np.all(steps >= lo) and np.all(steps <= hi)), "optimal_step_formula",
              f"{method}: optimal steps {steps!r} outside [{lo!r}, {hi!r}] = range over the outputs of 2*sqrt(eps*|f|/|f''|) (initial step {h_init:g})", point=x)
    # the Jacobian with the steps actually in use stays within the bound of the scheme for these steps
    used = np.asarray(approx.step, dtype=float) * np.ones(n)
    grad = approx.f_gradient(x)
    n_out = len(spec["out"])
    ctx.check(isinstance(grad, np.ndarray) and grad.size == n_out * n, "shape", f"gradient has shape {np.shape(grad)}")
    got = grad.reshape(n_out, n)
    radius = np.abs(x) + float(np.max(used))
    big, m1, m2, m3 = f_bounds(spec, radius)
    exact = f_jac(spec, x)
    for j in range(n):
        for k in range(n_out):
            bound = error_bound(method, used[j], x[j], False, big[k], m1[k, j], m2[k, j], m3[k, j], radius[j])
            err = abs(got[k, j] - exact[k, j])
            ctx.check(bool(np.isfinite(got[k, j])) and err <= bound, "accuracy_after_optimal_step",
                      f"{method}: d f[{k}]/d x[{j}] = {got[k, j]!r}, exact {exact[k, j]!r}: error {err:.3e} exceeds the bound {bound:.3e} for the step in use {used[j]:g}", point=x)
    curv = curvatures(spec)
    ctx.cls("optimal_step_" + method, "optimal_step_with_concave_direction" if np.any(curv < 0) else "optimal_step_all_convex")
    if np.any(curv < 0) and np.any(curv > 0):
        ctx.nontriv(("optimal", p))
    ctx.sample({"oracle": "optimal_step", "case": p})


# =========================================================================== oracle: discipline level
def make_discipline(p, wrong_entry, overlap=False):
    """The polynomial harness discipline; wrong_entry = (row, col) or (row, col, relative error); overlap=True records
    concurrent executions (a short pause separates reading the inputs from writing the outputs)."""
    import threading
    import time

    from gemseo.core.discipline import Discipline

    spec = p["f"]
    in_names, in_sizes, out_names, out_sizes = p["in_names"], p["in_sizes"], p["out_names"], p["out_sizes"]

    class HarnessDiscipline(Discipline):
        default_grammar_type = Discipline.GrammarType.JSON if p["grammar"] == "JSON" else Discipline.GrammarType.SIMPLE

        def __init__(self):
            super().__init__(name="H")
            self.io.input_grammar.update_from_names(in_names)
            self.io.output_grammar.update_from_names(out_names)
            self.n_runs = 0
            self.active = self.max_active = 0
            self.guard = threading.Lock()

        def _x(self, data):
            return np.concatenate([np.atleast_1d(data[name]) for name in in_names])

        def _run(self, input_data):
            self.n_runs += 1
            if overlap:
                with self.guard:
                    self.active += 1
                    self.max_active = max(self.max_active, self.active)
                try:
                    x_read = self._x(input_data).copy()
                    time.sleep(0.002)
                    y = f_eval(spec, x_read)
                finally:
                    with self.guard:
                        self.active -= 1
            else:
                y = f_eval(spec, self._x(input_data))
            out, k = {}, 0
            for name, size in zip(out_names, out_sizes):
                out[name] = y[k:k + size]
                k += size
            return out

        def _compute_jacobian(self, input_names=(), output_names=()):
            full = f_jac(spec, np.real(self._x(self.io.data)))
            if wrong_entry is not None and len(wrong_entry) == 3:
                full[wrong_entry[:2]] *= 1.0 + wrong_entry[2]
            elif wrong_entry is not None:
                full[wrong_entry] += 1.0 + abs(full[wrong_entry])
            self.jac = {}
            r = 0
            for oname, osize in zip(out_names, out_sizes):
                self.jac[oname] = {}
                c = 0
                for iname, isize in zip(in_names, in_sizes):
                    self.jac[oname][iname] = full[r:r + osize, c:c + isize].copy()
                    c += isize
                r += osize

    disc = HarnessDiscipline()
    cache = p.get("cache", "default")
    if cache == "none":
        disc.set_cache(Discipline.CacheType.NONE)
    elif cache != "default":
        disc.set_cache(Discipline.CacheType(cache), tolerance=p.get("cache_tol", 0.0))
    return disc


def resolve_indices(code, size):
    """(argument for check_jacobian, list of selected components) of one variable."""
    if code is None:
        return None, list(range(size))
    if code == "ellipsis":
        return Ellipsis, list(range(size))
    if "int" in code:
        i = code["int"] % size
        return i, [i]
    if "list" in code:
        items = list(dict.fromkeys(i % size for i in code["list"]))  # the caller's order, not necessarily increasing
        return items, items
    a, b = sorted(v % (size + 1) for v in code["slice"])
    if a == b:
        a, b = 0, size
    return slice(a, b), list(range(size))[a:b]


def case_discipline_auto(p, ctx):
    """check_jacobian(auto_set_step=True) / set_optimal_fd_step + linearize: the optimal steps are computed at the
    DEFAULT inputs (documented), the Jacobian is requested at other input data."""
    spec, method = p["fq"], ("cd" if p["method"] == "cd" else "fd")
    in_names, in_sizes, out_names, out_sizes = p["in_names"], p["in_sizes"], p["out_names"], p["out_sizes"]
    n, m = sum(in_sizes), sum(out_sizes)
    mode_name = {"fd": "finite_differences", "cd": "centered_differences"}[method]
    x = np.array(p["x"], dtype=float) / 4.0
    at_defaults = p["defaults"] == "same_no_input_data" or (p["defaults"] == "same" and p["via_setter"])
    x_def = x.copy() if at_defaults else x + 1.0
    h_init = p["h_mant"] * 10.0 ** p["auto_h_exp"]
    ctx.cls("disc_" + p["action"], "disc_auto_" + method, "disc_auto_at_defaults" if at_defaults else "disc_auto_away_from_defaults")
    interval = documented_optimal_steps(spec, x_def)
    if interval is None:
        ctx.cls("disc_auto_skipped_output_near_zero")
        return
    if p.get("cache", "default") in ("SimpleCache", "MemoryFullCache") and p.get("cache_tol", 0.0) > 0:
        ctx.cls("disc_auto_with_cache_tolerance")
        if ctx.known(K_AUTO_CACHE):
            return
    lo, hi = interval
    offsets_in = dict(zip(in_names, np.cumsum([0, *in_sizes[:-1]])))
    offsets_out = dict(zip(out_names, np.cumsum([0, *out_sizes[:-1]])))
    as_data = lambda v: {name: v[offsets_in[name]:offsets_in[name] + size].copy() for name, size in zip(in_names, in_sizes)}  # noqa: E731
    exact = f_jac(spec, x)
    radius = np.abs(x) + float(np.max(hi))
    big, m1, m2, m3 = f_bounds(spec, radius)
    bound = np.array([[bound_over_interval(method, lo[j], hi[j], x[j], big[k], m1[k, j], m2[k, j], m3[k, j], radius[j]) for j in range(n)] for k in range(m)])
    wrong = (p["wrong"][0] % m, p["wrong"][1] % n) if p["action"] == "auto_check_wrong" else None
    disc = make_discipline(dict(p, f=spec), wrong)
    disc.io.input_grammar.defaults.update(as_data(x_def))
    input_data = {} if p["defaults"] == "same_no_input_data" else as_data(x)
    if p["action"] == "auto_linearize":
        disc.set_jacobian_approximation(mode_name, h_init)
        disc.set_optimal_fd_step(compute_all_jacobians=True)
        jac = disc.linearize(input_data, compute_all_jacobians=True)
        for oname, osize in zip(out_names, out_sizes):
            for iname, isize in zip(in_names, in_sizes):
                block = np.asarray(jac[oname][iname])
                r, c = offsets_out[oname], offsets_in[iname]
                ctx.check(block.shape == (osize, isize), "discipline_optimal_step", f"d{oname}/d{iname} has shape {block.shape}, expected {(osize, isize)}")
                ref, tol = exact[r:r + osize, c:c + isize], bound[r:r + osize, c:c + isize]
                ctx.check(bool(np.all(np.isfinite(block)) and np.all(np.abs(block - ref) <= tol)), "discipline_optimal_step",
                          f"{mode_name} after set_optimal_fd_step (initial step {h_init:g}): d{oname}/d{iname} = {block!r}, exact {ref!r}: error exceeds the bound {tol!r} "
                          f"for optimal steps in [{lo!r}, {hi!r}]")
    else:
        threshold = 2 * float(np.max(bound)) + 1e-9
        if threshold > 0.1:
            ctx.cls("disc_check_skipped_loose_bound")
            return
        verdict = disc.check_jacobian(input_data, derr_approx=mode_name, step=h_init, threshold=threshold, auto_set_step=True)
        expected = wrong is None
        ctx.check(bool(verdict) == expected, "check_jacobian_auto_step",
                  f"check_jacobian({mode_name}, step={h_init:g}, auto_set_step=True, threshold={threshold:.2e}) at inputs "
                  f"{'equal to' if at_defaults else 'different from'} the defaults returned {verdict}, expected {expected}"
                  + (f" (wrong entry at output row {wrong[0]}, input column {wrong[1]})" if wrong else " (exact Jacobian)"))
    if not at_defaults and np.any(curvatures(spec) < 0):
        ctx.nontriv(("disc_auto", p))
    ctx.sample({"oracle": "discipline", "case": p})


def _io_layout(p):
    in_names, in_sizes, out_names, out_sizes = p["in_names"], p["in_sizes"], p["out_names"], p["out_sizes"]
    offsets_in = dict(zip(in_names, np.cumsum([0, *in_sizes[:-1]])))
    offsets_out = dict(zip(out_names, np.cumsum([0, *out_sizes[:-1]])))
    return in_names, in_sizes, out_names, out_sizes, offsets_in, offsets_out


def case_discipline_precise(p, ctx):
    """The documented acceptance rule |analytic - approx| <= threshold + threshold*|approx| decides: large entries,
    tight threshold, a reference accurate far below the threshold, a wrong entry off by a relative error."""
    in_names, in_sizes, out_names, out_sizes, offsets_in, _ = _io_layout(p)
    n, m = sum(in_sizes), sum(out_sizes)
    spec = p["fl"]
    method = "cs" if p["method"] != "cd" else "cd"  # centred differences are exact on quadratics up to rounding
    mode_name = {"cd": "centered_differences", "cs": "complex_step"}[method]
    h = p["h_mant"] * 10.0 ** (p["cd_exp"] if method == "cd" else min(p["h_exp"], -8))
    x = np.array(p["x"], dtype=float) / 4.0
    data = {name: x[offsets_in[name]:offsets_in[name] + size].copy() for name, size in zip(in_names, in_sizes)}
    exact = f_jac(spec, x)
    radius = np.abs(x) + (h if method != "cs" else 0.0)
    big, m1, m2, m3 = f_bounds(spec, radius)
    err = np.array([[error_bound(method, h, x[j], False, big[k], m1[k, j], m2[k, j], m3[k, j], radius[j]) for j in range(n)] for k in range(m)])
    thr = p["tight"]
    ctx.cls("disc_" + p["action"], "disc_precise_" + method)
    # an exact entry is certainly accepted when err <= thr + thr*(|c| - err)
    if not np.all(err <= thr + thr * (np.abs(exact) - err)):
        ctx.cls("disc_precise_skipped_reference_not_accurate_enough")
        return
    wrong, expected = None, True
    if p["action"] == "precise_wrong":
        row, col = p["wrong"][0] % m, p["wrong"][1] % n
        wrong = (row, col, p["rel"])
        delta, e, c = p["rel"] * abs(exact[row, col]), err[row, col], abs(exact[row, col])
        if delta - e > thr * (1 + c + e) * (1 + 1e-9):
            expected = False  # certainly rejected
        elif delta + e <= thr + thr * (c - e):
            expected = True  # within the documented tolerance: certainly accepted
        else:
            ctx.cls("disc_precise_skipped_undecided")
            return
        ctx.cls(f"disc_precise_relative_error_{p['rel']:g}_" + ("rejected" if not expected else "accepted"))
    disc = make_discipline(dict(p, f=spec), wrong)
    disc.io.input_grammar.defaults.update(data)
    verdict = disc.check_jacobian(data, derr_approx=mode_name, step=h, threshold=thr)
    ctx.check(bool(verdict) == expected, "check_jacobian_threshold",
              f"check_jacobian({mode_name}, step={h:g}, threshold={thr:g}) on a Jacobian with entries ~1e3 returned {verdict}, expected {expected}"
              + (f": entry ({wrong[0]},{wrong[1]}) = {exact[wrong[0], wrong[1]]!r} is off by a relative {wrong[2]:g} "
                 f"(|error| {p['rel'] * abs(exact[wrong[0], wrong[1]]):.3g}, documented tolerance {thr + thr * abs(exact[wrong[0], wrong[1]]):.3g})" if wrong else " (exact Jacobian)"))
    ctx.nontriv(("disc_precise", p))
    ctx.sample({"oracle": "discipline", "case": p})


def case_discipline_threads(p, ctx):
    """Thread-parallel approximation of one discipline: same Jacobian as the serial run, bit for bit, and no two
    executions of the discipline overlap."""
    in_names, in_sizes, out_names, out_sizes, offsets_in, offsets_out = _io_layout(p)
    n, m = sum(in_sizes), sum(out_sizes)
    spec, method = p["f"], p["method"]
    mode_name = {"fd": "finite_differences", "cd": "centered_differences", "cs": "complex_step"}[method]
    h = p["h_mant"] * 10.0 ** p["h_exp"]
    x = np.array(p["x"], dtype=float) / 4.0
    data = {name: x[offsets_in[name]:offsets_in[name] + size].copy() for name, size in zip(in_names, in_sizes)}
    exact = f_jac(spec, x)
    radius = np.abs(x) + (h if method != "cs" else 0.0)
    big, m1, m2, m3 = f_bounds(spec, radius)
    bound = np.array([[error_bound(method, h, x[j], False, big[k], m1[k, j], m2[k, j], m3[k, j], radius[j]) for j in range(n)] for k in range(m)])
    ctx.cls("disc_threads", "disc_threads_" + method, "disc_threads_via_" + p["threads_via"])
    serial = make_discipline(p, None)
    serial.io.input_grammar.defaults.update(data)
    serial.set_jacobian_approximation(mode_name, h)
    jac_serial = serial.linearize(data, compute_all_jacobians=True)
    disc = make_discipline(p, None, overlap=True)
    disc.io.input_grammar.defaults.update(data)
    if p["threads_via"] == "linearize":
        disc.set_jacobian_approximation(mode_name, h, jac_approx_n_processes=p["n_threads"], jac_approx_use_threading=True)
        jac = disc.linearize(data, compute_all_jacobians=True)
        for oname, osize in zip(out_names, out_sizes):
            for iname, isize in zip(in_names, in_sizes):
                block, ref = np.asarray(jac[oname][iname]), np.asarray(jac_serial[oname][iname])
                ctx.check(block.shape == ref.shape and np.array_equal(block, ref), "discipline_threads",
                          f"{mode_name} with {p['n_threads']} threads: d{oname}/d{iname} = {block!r} differs from the serial approximation {ref!r}")
                r, c = offsets_out[oname], offsets_in[iname]
                ctx.check(bool(np.all(np.abs(block - exact[r:r + osize, c:c + isize]) <= bound[r:r + osize, c:c + isize])), "discipline_threads",
                          f"{mode_name} with {p['n_threads']} threads: d{oname}/d{iname} = {block!r} is not within the bound of the scheme")
    else:
        threshold = 2 * float(np.max(bound)) + 1e-9
        if threshold > 0.1:
            ctx.cls("disc_check_skipped_loose_bound")
            return
        verdict = disc.check_jacobian(data, derr_approx=mode_name, step=h, threshold=threshold, parallel=True, n_processes=p["n_threads"], use_threading=True)
        ctx.check(bool(verdict), "discipline_threads", f"check_jacobian({mode_name}, parallel=True, use_threading=True, n_processes={p['n_threads']}) rejected an exact Jacobian")
    ctx.check(disc.max_active == 1, "discipline_threads_overlap",
              f"{mode_name} with {p['n_threads']} threads ({p['threads_via']}): up to {disc.max_active} executions of the same discipline were running at the same time")
    ctx.nontriv(("disc_threads", p))
    ctx.sample({"oracle": "discipline", "case": p})


def case_discipline(p, ctx):
    if p["action"].startswith("auto_"):
        return case_discipline_auto(p, ctx)
    if p["action"].startswith("precise"):
        return case_discipline_precise(p, ctx)
    if p["action"] == "threads":
        return case_discipline_threads(p, ctx)
    spec, method = p["f"], p["method"]
    in_names, in_sizes, out_names, out_sizes = p["in_names"], p["in_sizes"], p["out_names"], p["out_sizes"]
    n, m = sum(in_sizes), sum(out_sizes)
    x = np.array(p["x"], dtype=float) / 4.0
    mode_name = {"fd": "finite_differences", "cd": "centered_differences", "cs": "complex_step"}[method]
    default_step = p["default_step"] and p["action"] == "linearize" and p["via_setter"]
    h = 1e-7 if default_step else p["h_mant"] * 10.0 ** p["h_exp"]
    offsets_in = dict(zip(in_names, np.cumsum([0, *in_sizes[:-1]])))
    offsets_out = dict(zip(out_names, np.cumsum([0, *out_sizes[:-1]])))
    data = {name: x[offsets_in[name]:offsets_in[name] + size].copy() for name, size in zip(in_names, in_sizes)}
    exact = f_jac(spec, x)
    radius = np.abs(x) + (h if method != "cs" else 0.0)
    big, m1, m2, m3 = f_bounds(spec, radius)
    bound = np.array([[error_bound(method, h, x[j], False, big[k], m1[k, j], m2[k, j], m3[k, j], radius[j]) for j in range(n)] for k in range(m)])
    sel_in = [nm for nm, keep in zip(in_names, p["in_subset"] or [True] * len(in_names)) if keep] or list(in_names)
    sel_out = [nm for nm, keep in zip(out_names, p["out_subset"] or [True] * len(out_names)) if keep] or list(out_names)
    if p["reverse_names"]:
        sel_in, sel_out = sel_in[::-1], sel_out[::-1]
    ctx.cls("disc_" + p["action"], "disc_" + method, "disc_cache_" + p.get("cache", "default")
            + ("_with_tolerance" if p.get("cache", "default") not in ("default", "none") and p.get("cache_tol", 0.0) > 0 else ""))
    size_of = dict(zip(in_names + out_names, in_sizes + out_sizes))

    # Inputs that are not differentiated are read from the defaults by the approximation: a strict subset of
    # inputs with defaults different from the current data is the class of an open finding.
    strict_inputs = p["in_subset"] is not None and len(sel_in) < len(in_names)
    defaults_mode = p["defaults"]
    if defaults_mode == "none" and p["action"] != "linearize" and p["use_indices"]:
        defaults_mode = "same"  # check_jacobian(indices=...) sizes the variables from the defaults
    other_point = {name: value + 1.0 for name, value in data.items()}

    def set_defaults(disc):
        if defaults_mode in ("same", "same_no_input_data"):
            disc.io.input_grammar.defaults.update(data)
        elif defaults_mode == "other":
            disc.io.input_grammar.defaults.update(other_point)

    ctx.cls("disc_defaults_" + defaults_mode)
    if strict_inputs and defaults_mode in ("other", "none"):
        ctx.cls("disc_input_subset_with_defaults_off_the_point")
        if ctx.known(K_SUBSET_DEFAULTS):
            return
    input_data = {} if defaults_mode == "same_no_input_data" else data

    if p["action"] == "linearize":
        disc = make_discipline(p, None)
        set_defaults(disc)
        prev = p.get("prev_method")
        if prev is not None and prev != method:
            # another approximation mode is in place, then the mode under test is selected through the setter: the
            # scheme must change (its step: the default 1e-7 or the one of the previous mode, both are accepted)
            ctx.cls("disc_linearize_after_mode_switch")
            if ctx.known(K_MODE_SWITCH):
                return
            prev_name = {"fd": "finite_differences", "cd": "centered_differences", "cs": "complex_step"}[prev]
            prev_h = p["h_mant"] * 10.0 ** p["prev_h_exp"]
            if p["prev_via_setter"]:
                disc.linearization_mode = prev_name
                prev_h = 1e-7
            else:
                disc.set_jacobian_approximation(prev_name, prev_h)
            disc.linearization_mode = mode_name
            lo_h, hi_h = min(1e-7, prev_h), max(1e-7, prev_h)
            radius = np.abs(x) + (hi_h if method != "cs" else 0.0)
            big, m1, m2, m3 = f_bounds(spec, radius)
            bound = np.array([[bound_over_interval(method, lo_h, hi_h, x[j], big[k], m1[k, j], m2[k, j], m3[k, j], radius[j]) for j in range(n)] for k in range(m)])
            h = hi_h
        elif p["via_setter"]:
            disc.linearization_mode = mode_name
            if not default_step:
                disc.set_jacobian_approximation(mode_name, h)
        else:
            disc.set_jacobian_approximation(jac_approx_type=mode_name, jax_approx_step=h)
        all_io = p["in_subset"] is None and p["out_subset"] is None
        if not all_io:
            disc.add_differentiated_inputs(sel_in)
            disc.add_differentiated_outputs(sel_out)
        jac = disc.linearize(input_data, compute_all_jacobians=all_io)
        want_in, want_out = (in_names, out_names) if all_io else (sel_in, sel_out)
        ctx.check(set(jac) == set(want_out), "discipline_linearize", f"Jacobian has outputs {sorted(jac)}, expected {sorted(want_out)}")
        for oname in want_out:
            ctx.check(set(jac[oname]) == set(want_in), "discipline_linearize", f"Jacobian of {oname} has inputs {sorted(jac[oname])}, expected {sorted(want_in)}")
            for iname in want_in:
                block = np.asarray(jac[oname][iname])
                r, c = offsets_out[oname], offsets_in[iname]
                shape = (size_of[oname], size_of[iname])
                ctx.check(block.shape == shape, "discipline_linearize", f"d{oname}/d{iname} has shape {block.shape}, expected {shape}")
                ref, tol = exact[r:r + shape[0], c:c + shape[1]], bound[r:r + shape[0], c:c + shape[1]]
                ctx.check(bool(np.all(np.isfinite(block)) and np.all(np.abs(block - ref) <= tol)), "discipline_linearize",
                          f"{mode_name}: d{oname}/d{iname} = {block!r}, exact {ref!r}: error exceeds the bound {tol!r} (step {h:g})")
        if not all_io:
            ctx.nontriv(("disc_linearize", p))
        ctx.sample({"oracle": "discipline", "case": p})
        return

    # ---- check_jacobian
    wrong = None
    if p["action"] == "check_wrong":
        wrong = (p["wrong"][0] % m, p["wrong"][1] % n)
    threshold = 2 * float(np.max(bound)) + 1e-9
    if threshold > 0.1:
        ctx.cls("disc_check_skipped_loose_bound")
        return
    indices, chosen = {}, {}
    for name, code in zip(in_names + out_names, p["indices_in"] + p["indices_out"]):
        arg, comps = resolve_indices(code if p["use_indices"] else None, size_of[name])
        chosen[name] = comps
        if arg is not None:
            indices[name] = arg
    if not (p["in_subset"] is not None or p["reverse_names"]):
        sel_in = list(in_names)
    if not (p["out_subset"] is not None or p["reverse_names"]):
        sel_out = list(out_names)
    # positions of the selected components in the vector concatenating the inputs in the order of sel_in
    flat_in, pos = [], 0
    for nm in sel_in:
        flat_in += [pos + i for i in chosen[nm]]
        pos += size_of[nm]
    subset_of_inputs = bool(indices) and len(flat_in) < pos
    if method == "cs" and indices and flat_in != list(range(len(flat_in))):
        ctx.cls("disc_check_complex_step_non_prefix_indices")
        if ctx.known(K_CS_SUBSET):
            return
    step_array = None
    if p.get("step_array") is not None and method != "cs":
        # one step per component of the inputs (documented for DisciplineJacApprox): the bound holds for any of them
        step_array = np.array([h * p["step_array"][i] for i in range(pos)])
        ctx.cls("disc_check_step_array" + ("_with_component_subset" if subset_of_inputs else ""))
        if subset_of_inputs and ctx.known(K_STEP_ARRAY_INDICES):
            return
        lo_h, hi_h = float(step_array.min()), float(step_array.max())
        radius = np.abs(x) + hi_h
        big, m1, m2, m3 = f_bounds(spec, radius)
        bound = np.array([[bound_over_interval(method, lo_h, hi_h, x[j], big[k], m1[k, j], m2[k, j], m3[k, j], radius[j]) for j in range(n)] for k in range(m)])
        threshold = 2 * float(np.max(bound)) + 1e-9
        if threshold > 0.1:
            ctx.cls("disc_check_skipped_loose_bound")
            return
    disc = make_discipline(p, wrong)
    set_defaults(disc)
    if step_array is not None:
        from gemseo.utils.derivatives.derivatives_approx import DisciplineJacApprox

        # what Discipline.check_jacobian does, with an approximator given one step per input component
        disc.add_differentiated_inputs(sel_in)
        disc.add_differentiated_outputs(sel_out)
        approx = DisciplineJacApprox(disc, mode_name, step_array)
        disc.linearize(input_data)
        verdict = approx.check_jacobian(sel_out, sel_in, threshold=threshold, indices=indices)
    kwargs = {"input_data": input_data, "derr_approx": mode_name, "step": h, "threshold": threshold}
    if p["in_subset"] is not None or p["reverse_names"]:
        kwargs["input_names"] = sel_in
    if p["out_subset"] is not None or p["reverse_names"]:
        kwargs["output_names"] = sel_out
    if indices:
        kwargs["indices"] = indices
    with warnings.catch_warnings():
        warnings.simplefilter("ignore", RuntimeWarning)
        if step_array is None:
            verdict = disc.check_jacobian(**kwargs)
    expected = True
    if wrong is not None:
        row, col = wrong
        oname = next(nm for nm in out_names if offsets_out[nm] <= row < offsets_out[nm] + size_of[nm])
        iname = next(nm for nm in in_names if offsets_in[nm] <= col < offsets_in[nm] + size_of[nm])
        visible = (oname in sel_out and iname in sel_in and (row - offsets_out[oname]) in chosen[oname] and (col - offsets_in[iname]) in chosen[iname])
        expected = not visible
        ctx.cls("disc_wrong_entry_visible" if visible else "disc_wrong_entry_outside_checked_region")
    ctx.check(bool(verdict) == expected, "check_jacobian",
              f"check_jacobian({mode_name}, step={h:g}, threshold={threshold:.2e}, indices={indices!r}, inputs={sel_in}, outputs={sel_out}) returned {verdict}, expected {expected}"
              + (f" (wrong entry at output row {wrong[0]}, input column {wrong[1]})" if wrong else " (exact Jacobian)"))
    if subset_of_inputs or p["in_subset"] is not None or p["out_subset"] is not None:
        ctx.nontriv(("disc_check", p))
        ctx.cls("disc_check_nontrivial")
    if indices:
        ctx.cls("disc_check_with_indices")
    ctx.sample({"oracle": "discipline", "case": p})


ORACLES = {"approximator": case_approximator, "optimal_step": case_optimal_step, "discipline": case_discipline, "discipline_auto": case_discipline,
           "discipline_precise": case_discipline, "discipline_threads": case_discipline}


def run(ctx):
    ctx.drive("approximator", approximator_cases(), case_approximator, quick=1200, thorough=8000)
    ctx.drive("optimal_step", optimal_step_cases(), case_optimal_step, quick=200, thorough=1500)
    # one stream per family of discipline-level actions (a failure in one does not hide the others)
    ctx.drive("discipline", discipline_cases(), case_discipline, quick=450, thorough=2500)
    ctx.drive("discipline_auto", discipline_cases(tuple(AUTO_ACTIONS)), case_discipline, quick=200, thorough=1000)
    ctx.drive("discipline_precise", discipline_cases(tuple(PRECISE_ACTIONS)), case_discipline, quick=150, thorough=800)
    ctx.drive("discipline_threads", discipline_cases(("threads",)), case_discipline, quick=40, thorough=150)
