"""C17 - MDO formulations are equivalent views of the same problem.

A generated contractive coupled system (vlib/gen/coupled.py) gets a design space, an objective and 0-2
constraints chosen among the discipline outputs (vlib/gen/formulation_systems.py).  The very same problem is
handed to MDF (with a drawn inner MDA), to IDF and - for acyclic systems - to DisciplinaryOpt.  The functions
exposed by each ``formulation.optimization_problem`` are evaluated (original functions, un-normalised design
vectors) and compared with the closed forms of the plain-numpy model; MDF's Jacobian is furthermore rebuilt from
IDF's functions alone through the implicit function theorem.  Both tiers: a few strictly convex problems are
optimised with SLSQP under every formulation and compared with the exact optimum of the reduced QP.
"""

from __future__ import annotations

import logging
import warnings

import numpy as np

from vlib.gen.coupled import CoupledSystem, build_disciplines, describe_graph
from vlib.gen.formulation_systems import (
    HINGE_AT,
    QuadraticObjectiveTwin,
    Reference,
    convex_problems,
    formulation_cases,
    is_acyclic,
    quadratic_objective_discipline,
    reads_a_coupling,
    reduced_quadratic,
    system_model,
    solve_convex_qp,
    topological_order,
    weak_couplings,
)

logging.getLogger("gemseo").setLevel(logging.ERROR)

PROPERTY = "C17"
LEVEL = "exploration"
RULE = (
    "Hypothesis draws a contractive coupled system (2-4 disciplines, output sizes 1-3, 1-3 design inputs of size 1-2 "
    "some of them read by nobody, rings / several strongly connected components / weakly coupled and self-coupled "
    "disciplines / acyclic systems, optional tanh terms, optional non-coupling outputs, disciplines producing two couplings, "
    "drawn list order and names), a "
    "design space holding the design inputs and all the couplings in a drawn order with drawn finite or missing bounds, "
    "an objective (scalar or vector, minimised or maximised) and 0-2 eq/ineq constraints (1-2 outputs of one discipline, "
    "value, positive flag, optional name) among the discipline outputs, two design points, perturbed coupling targets, "
    "normalize_constraints on/off, the MDA of MDF in {MDAChain default, MDAChain with inner MDAGaussSeidel / MDAJacobi / "
    "MDANewtonRaphson, MDAGaussSeidel, MDAJacobi, MDANewtonRaphson} at tolerance 1e-13, Simple or JSON grammars, "
    "formulation class or create_scenario, IDF n_processes in {1, 2} (threads), disciplines whose own default design inputs "
    "differ from the design point, and - linear systems - disciplines declaring io.set_linear_relationships() so that the "
    "formulations build their functions through the is_linear branches; in a quarter of the cases every design variable is "
    "integer-typed and MDF / DisciplinaryOpt are evaluated at the integer-dtype vectors that get_current_value() returns "
    "or a user writes, and a DOE (CustomDOE) is run over IDF on that mixed integer / float space; a quarter of the systems "
    "hold hinge terms max(x - 0.25, 0) of the design inputs in disciplines returning csr Jacobian blocks, so that blocks are "
    "populated at some of the evaluated points and hold no stored entry at others (each formulation goes x, x + dx, x again "
    "on the same function objects); couplings may lack (finite) bounds also when normalize_constraints is on.  Every array returned by a function (value, Jacobian) is kept without copy while the functions are "
    "evaluated at the other points and must still hold what it held when it was returned.  Checked against the plain-numpy model: design-space contents and order of "
    "MDF / IDF / DisciplinaryOpt, IDF's rejection of a space lacking a coupling, values and Jacobians of objective and "
    "constraints of every formulation, IDF consistency constraints at y*(x) and at perturbed targets (with the "
    "documented |ub-lb| normalisation), start_at_equilibrium, and MDF's Jacobian rebuilt from IDF's functions only. "
    "A few strictly convex problems are also optimised with SLSQP (normalize_design_space on/off) under every formulation: "
    "optimum against the exact QP optimum, and every (point, objective, gradient) record of the database against the "
    "closed forms.  Non-trivial = the system has a cycle through >= 2 disciplines and the objective reads a coupling; distinct = "
    "structural hash of (system, design point, functions, MDA, normalisation).  The optimisation problems are strictly convex "
    "quadratic problems on linear systems solved by SLSQP under MDF, IDF (and DisciplinaryOpt when acyclic) against the "
    "exact optimum of the reduced QP (active-set enumeration)."
)
ASSUMPTIONS = [
    "well-posed = the one-sweep map of the system is a max-norm contraction with factor q <= 0.3 (by construction): "
    "unique coupled solution, cond_inf(I - dG/dv) <= 1.86",
    "MDA of MDF: tolerance 1e-13, max_mda_iter 100, default residual scaling; MDANewtonRaphson as main MDA only for "
    "all-strongly-coupled systems (MDAChain with inner MDANewtonRaphson otherwise, as documented)",
    "comparison tolerances: IDF / consistency values and Jacobians 1e-11 (1 + scale) (same operations as the model), "
    "MDF / DisciplinaryOpt values 1e-9 (1 + scale) and Jacobians 1e-8 (1 + scale) (MDA converged to 1e-13 relative to "
    "the initial residual, then a linear solve of condition <= 1.86), consistency at the exact solution <= 1e-10",
    "coupling bounds, when given, have ub - lb >= 120 (|ub-lb| is the documented normalisation factor; zero widths are "
    "outside the domain) and hold the coupled solution; for a coupling without finite bounds and normalize_constraints on, "
    "the scale of its consistency constraint is undocumented: it must vanish at y*(x) and be non-zero with the sign of "
    "y_out - y_t at inconsistent targets (ledger C17-F6 while open)",
    "hinge terms only involve design inputs, with their kink at 0.25, never a generated design value: the systems stay "
    "smooth contractions in the couplings",
    "DisciplinaryOpt is given the disciplines of an acyclic system in a topological order (it documents an ORDERED "
    "list of disciplines and chains them in list order)",
    "design variables read by no discipline may be dropped or kept by a formulation (MDF documents that it drops "
    "them): the design-space oracle only constrains the used design inputs and the couplings",
    "a constraint made of several outputs takes them from one discipline (documented requirement)",
    "the order of the components inside one consistency constraint is read from the constraint's output_names",
    "MDF Jacobians are not evaluated (values still are) in the four classes of the open ledger entries C17-F1..F4 "
    "(JacobianAssembly raises on requests whose graph traversal prunes a needed discipline); the classes are computed "
    "from the coupling graph of the payload (mdf_request_classes)",
    "optimisation: SLSQP with exact Jacobians, max_iter 300, x/f tolerances 1e-15, eq/ineq tolerances 1e-8; a run "
    "stopped by max_iter is inconclusive; IDF with n_processes = 2 uses threads (process-based parallelism belongs to "
    "C13); BiLevel is out of scope",
    "a consistency constraint linearised by IDF (declared linear relationships) carries no output names: its couplings "
    "are read from its name '<coupling>_..._linearized' (generated coupling names hold no underscore)",
]

MDA_SETTINGS = {"tolerance": 1e-13, "max_mda_iter": 100}


# --------------------------------------------------------------------------- building the real objects
def build_space(entries: list[dict], sizes: dict, values: dict):
    from gemseo.algos.design_space import DesignSpace

    ds = DesignSpace()
    for e in entries:
        n = e["name"]
        bounds = {}
        if e["lo"] is not None:
            bounds["lower_bound"] = np.array(e["lo"], dtype=float)
        if e["hi"] is not None:
            bounds["upper_bound"] = np.array(e["hi"], dtype=float)
        if e.get("type") == "integer":
            bounds = {k: v.astype(int) for k, v in bounds.items()}
            ds.add_variable(n, size=sizes[n], type_="integer", value=np.array(values[n], dtype=float).astype(int), **bounds)
        else:
            ds.add_variable(n, size=sizes[n], value=np.array(values[n], dtype=float), **bounds)
    return ds


def formulation_settings(name: str, p: dict, equilibrium: bool = False) -> dict:
    if name == "MDF":
        main = dict(MDA_SETTINGS)
        mda = p["mda"]
        if mda["main"] == "MDAChain" and mda["inner"]:
            main["inner_mda_name"] = mda["inner"]
        return {"main_mda_name": mda["main"], "main_mda_settings": main}
    if name == "IDF":
        out = {"normalize_constraints": p["normalize"]}
        if p.get("idf_n_processes", 1) > 1:
            out["n_processes"] = p["idf_n_processes"]
            out["use_threading"] = True
        if equilibrium:
            out["start_at_equilibrium"] = True
            out["mda_chain_settings_for_start_at_equilibrium"] = dict(MDA_SETTINGS)
        return out
    return {}


def build_formulation(name: str, discs: list, objective: str, ds, p: dict, via: str, constraints: list[dict], maximize: bool,
                      equilibrium: bool = False):
    """The formulation (through its class or through create_scenario) with the user's constraints added."""
    from gemseo.core.mdo_functions.mdo_function import MDOFunction

    settings = formulation_settings(name, p, equilibrium)
    if via == "scenario":
        from gemseo import create_scenario

        owner = create_scenario(discs, objective, ds, formulation_name=name, maximize_objective=maximize, **settings)
        formulation = owner.formulation
    else:
        from gemseo.formulations.factory import MDOFormulationFactory

        formulation = owner = MDOFormulationFactory().create(name, discs, objective, ds, **settings)
        if maximize:
            formulation.optimization_problem.minimize_objective = False
    for c in constraints:
        outs = c["outputs"][0] if len(c["outputs"]) == 1 else list(c["outputs"])
        owner.add_constraint(
            outs, constraint_type=MDOFunction.ConstraintType(c["type"]), constraint_name=c["name"], value=c["value"],
            positive=c["positive"],
        )
    return formulation, owner


def evaluate(ctx, fn, vec: np.ndarray, dim: int, jac_first: bool, label: str, with_jac: bool = True, keep: list | None = None):
    """(value as 1-D array, Jacobian as 2-D array) of an MDOFunction at an un-normalised design vector.

    ``keep`` collects (label, returned array itself, copy taken at once) for :func:`check_kept`.
    """
    n = vec.size

    def _remember(what, raw):
        if keep is not None and isinstance(raw, np.ndarray):
            keep.append((f"{label}: {what}", raw, raw.copy()))

    def _val():
        raw = fn.evaluate(vec.copy())
        _remember("value", raw)
        v = np.atleast_1d(np.asarray(raw))
        ctx.check(v.shape == (dim,), "shapes", f"{label}: value of shape {v.shape}, expected ({dim},)")
        return v.astype(float)

    def _jac():
        raw = fn.jac(vec.copy())
        _remember("Jacobian", raw)
        j = np.asarray(raw)
        ok = j.shape == (dim, n) or (dim == 1 and j.shape == (n,))
        ctx.check(ok, "shapes", f"{label}: Jacobian of shape {j.shape}, expected ({dim}, {n})")
        return np.array(j, dtype=float).reshape(dim, n)

    if not with_jac:
        return _val(), None
    if jac_first:
        j = _jac()
        return _val(), j
    v = _val()
    return v, _jac()


def check_kept(ctx, keep: list, formulation: str) -> None:
    """The arrays returned by earlier evaluations still hold what they held when they were returned.

    (A caller - an optimiser's history, a database - keeps the arrays it gets; a function that hands out its reused
    internal buffer silently turns the derivative at x1 into the derivative at the last evaluated point.)
    """
    for label, raw, copy in keep:
        same = raw.shape == copy.shape and bool(np.array_equal(raw, copy, equal_nan=True))
        ctx.check(same, "returned_arrays_stay_valid",
                  f"{label} returned by {formulation} was modified by a later evaluation of the functions", now=raw, when_returned=copy)


def close(ctx, got: np.ndarray, ref: np.ndarray, tol: float, oracle: str, label: str, **info):
    scale = 1.0 + float(np.max(np.abs(ref), initial=0.0))
    err = float(np.max(np.abs(got - ref), initial=0.0))
    if not err <= tol * scale:  # also catches NaN
        ctx.fail(oracle, f"{label}: differs from the closed form by {err:.3e} > {tol * scale:.1e}", got=got, expected=ref, **info)


def consistency_outputs(constraint) -> list[str]:
    """The couplings covered by a consistency constraint, in the order of its components.

    A constraint linearised by the formulation (disciplines declaring linear relationships) is an MDOLinearFunction
    without output names, called "<coupling>_<coupling>..._linearized" (generated coupling names hold no underscore).
    """
    outs = list(constraint.output_names)
    if not outs and constraint.name.endswith("_linearized"):
        outs = constraint.name[: -len("_linearized")].split("_")
    return outs


def vector(names: list[str], values: dict) -> np.ndarray:
    return np.concatenate([np.asarray(values[n], dtype=float).reshape(-1) for n in names]) if names else np.zeros(0)


def check_names(ctx, ref: Reference, formulation, user_names: list[str], kind: str, label: str) -> list[str]:
    """Design-space oracle; returns the actual variable names."""
    m = ref.model
    names = list(formulation.design_space.variable_names)
    ctx.check(len(set(names)) == len(names) and set(names) <= set(user_names), "design_space",
              f"{label}: design space {names} is not a sub-list of the user's {user_names}")
    if kind == "idf":
        expected = ref.idf_names(user_names)
        relevant = [n for n in names if n in ref.used_x or n in ref.couplings]
    else:
        expected = ref.mdf_names(user_names)
        relevant = [n for n in names if n in ref.used_x]
        present = [n for n in names if n in ref.couplings]
        ctx.check(not present, "design_space", f"{label}: coupling variables {present} are kept in the design space {names}")
    ctx.check(relevant == expected, "design_space",
              f"{label}: design space {names} (user's {user_names}) should hold {expected} in this order")
    for n in names:
        ctx.check(formulation.design_space.get_size(n) == m.sizes[n], "design_space", f"{label}: size of {n} changed")
    return names


# --------------------------------------------------------------------------- ledger classes
def _request_classes(nodes: list[dict], used_x: list[str], outputs: list[str], couplings: set[str], involved: list | None = None) -> set[str]:
    """Failure classes of the coupled-derivative assembly for a request on a graph of (merged) disciplines.

    ``nodes``: dicts with "ins", "outs" (sets of names) and "merged" (a strongly coupled group or a self-coupled
    discipline, which brings its own strong couplings).  Edge a -> b when b reads an output of a (a != b).
    """
    n = len(nodes)
    adj = [[a != b and bool(nodes[a]["outs"] & nodes[b]["ins"]) for b in range(n)] for a in range(n)]
    reach = [row[:] for row in adj]
    for k in range(n):
        for i in range(n):
            for j in range(n):
                reach[i][j] = reach[i][j] or (reach[i][k] and reach[k][j])
    src = [i for i in range(n) if nodes[i]["ins"] & set(used_x)]
    dst = [i for i in range(n) if nodes[i]["outs"] & set(outputs)]
    from_in = [any(i == s or reach[s][i] for s in src) for i in range(n)]
    to_out = [any(j == t or reach[j][t] for t in dst) for j in range(n)]
    if involved is not None:
        involved.extend(from_in[i] and to_out[i] for i in range(n))
    classes = set()
    # no coupling variable between the design variables and the functions (a merged node on a path brings its strong
    # couplings; a function that is itself a coupling variable counts)
    if not any(adj[i][j] and from_in[i] and to_out[j] for i in range(n) for j in range(n)) \
            and not any(nodes[i]["merged"] and from_in[i] and to_out[i] for i in range(n)) and not couplings & set(outputs):
        classes.add("mdf_no_coupling_between_design_variables_and_functions")
    # a discipline producing a function, or upstream of one, that no discipline reading a design variable reaches
    if any(to_out[j] and not from_in[j] for j in range(n)):
        classes.add("mdf_function_reached_by_no_design_variable")
    # a design variable read only by disciplines from which no function is reached
    for u in used_x:
        readers = [i for i in range(n) if u in nodes[i]["ins"]]
        if not any(i == t or reach[i][t] for i in readers for t in dst):
            classes.add("mdf_design_variable_reaching_no_function")
            break
    return classes


def mdf_request_classes(model: CoupledSystem, used_x: list[str], outputs: list[str], extra: tuple | None = None) -> list[str]:
    """Ledger classes of an MDF problem: (design variables read by the MDA) x (outputs used as objective / constraints).

    MDF differentiates its MDA with respect to every design variable it reads, for the union of the objective and
    constraint outputs.  The three request classes are evaluated on the true coupling graph; the fourth class is
    about the graph that gemseo's traversal builds, in which a strongly coupled group (or a self-coupled discipline)
    is merged into one node whose inputs lose EVERY strong coupling of the system - also those of other groups: it
    holds when the lost links change the outcome of the traversal (a request class appears, or a differentiated group
    reads a strong coupling of a group that is not differentiated).
    """
    succ = model.graph()
    groups = [sorted(c) for c in model.sccs()]
    merged = [len(g) > 1 or g[0] in succ[g[0]] for g in groups]
    inputs_of, outputs_of = list(model.inputs_of), list(model.outputs_of)
    if extra is not None:  # one more weakly coupled discipline (inputs, outputs) reading existing variables
        groups.append([len(inputs_of)])
        merged.append(False)
        inputs_of.append(list(extra[0]))
        outputs_of.append(list(extra[1]))
    strong = set()
    for g, m in zip(groups, merged):
        if m:
            strong |= {n for i in g for n in inputs_of[i]} & {n for i in g for n in outputs_of[i]}
    true_nodes, reduced_nodes = [], []
    for g, m in zip(groups, merged):
        ins = {n for i in g for n in inputs_of[i]}
        outs = {n for i in g for n in outputs_of[i]}
        true_nodes.append({"ins": ins - outs, "outs": outs, "merged": m})
        reduced_nodes.append({"ins": ins - strong if m else ins, "outs": outs, "merged": m})
    couplings = set(model.couplings())
    true = _request_classes(true_nodes, used_x, outputs, couplings)
    involved: list[bool] = []
    reduced = _request_classes(reduced_nodes, used_x, outputs, couplings, involved)
    classes = sorted(true)
    # a merged group that gemseo differentiates (on a path of the REDUCED graph) is differentiated with respect to every
    # strong coupling it reads; the group producing that coupling must then be differentiated too
    n = len(groups)
    orphan = any(
        a != b and merged[b] and involved[b] and not involved[a] and strong & true_nodes[a]["outs"] & true_nodes[b]["ins"]
        for a in range(n) for b in range(n)
    )
    if orphan or reduced - true:
        classes.append("mdf_strong_coupling_feeding_another_group")
    return classes


# --------------------------------------------------------------------------- pointwise oracle
def case_pointwise(p, ctx):
    with warnings.catch_warnings():
        warnings.simplefilter("ignore")
        _case_pointwise(p, ctx)


def _functions(p: dict, model: CoupledSystem) -> list[tuple[str, list[str], dict]]:
    """(label, output names, standard-form description) of the objective and of the user's constraints."""
    fns = [("objective " + p["objective"], [p["objective"]], {"maximize": p["maximize"]})]
    for k, c in enumerate(p["constraints"]):
        fns.append((f"constraint {k} {'+'.join(c['outputs'])}", list(c["outputs"]), c))
    return fns


def _case_pointwise(p, ctx):
    model = system_model(p["system"])
    ref = Reference(model)
    info = describe_graph(model)
    couplings = ref.couplings
    acyclic = is_acyclic(model)
    sizes = model.sizes
    user_names = [e["name"] for e in p["ds"]]
    x1 = {n: np.array(p["x"][n], dtype=float) for n in model.x_names}
    x2 = {n: x1[n] + np.array(p["dx"][n], dtype=float) for n in model.x_names}
    sol1, tot1 = ref.coupled(x1)
    sol2, tot2 = ref.coupled(x2)
    for sol in (sol1, sol2):
        for e in p["ds"]:
            if e["name"] in sol:
                inside = (e["lo"] is None or np.all(sol[e["name"]] >= np.array(e["lo"]))) and \
                         (e["hi"] is None or np.all(sol[e["name"]] <= np.array(e["hi"])))
                if not inside:
                    raise AssertionError("generator: coupled solution outside the coupling bounds")
    # the disciplines' own defaults differ from the design point: the formulations must take the design-space values
    defaults = {**p.get("x_default", p["x"]), **p["start"]}
    declare_linear = bool(p.get("declare_linear")) and model.linear
    n_proc = p.get("idf_n_processes", 1)

    def new_disciplines():
        built = build_disciplines(model, defaults, p["grammar"])
        if declare_linear:  # documented way to let the formulations build linear functions (is_linear branches)
            for d in built:
                d.io.set_linear_relationships()
        return built

    if declare_linear:
        ctx.cls("linear_relationships_declared")
    ctx.cls(f"idf_n_processes={n_proc}")
    if any(not np.array_equal(defaults[n], p["x"][n]) for n in model.x_names):
        ctx.cls("discipline_defaults_differ_from_design_point")
    ds_values = {**p["x"], **{n: p["start"][n] for n in couplings}}
    fns = _functions(p, model)
    dims = [sum(sizes[o] for o in outs) for _, outs, _ in fns]
    via, jac_first = p["via"], p["jac_first"]
    objective_on_y = reads_a_coupling(model, p["objective"])

    ctx.cls(f"mda:{p['mda']['main']}" + (f"+{p['mda']['inner']}" if p["mda"]["inner"] else ""), f"via:{via}",
            f"n_constraints={len(p['constraints'])}", "normalize_on" if p["normalize"] else "normalize_off",
            f"n_disc={info['n_disc']}", "system_linear" if info["linear"] else "system_nonlinear",
            "objective_reads_coupling" if objective_on_y else "objective_without_coupling")
    ctx.cls("graph:acyclic" if acyclic else ("graph:single_ring" if info["all_strong"] and info["n_scc_ge2"] == 1 else "graph:mixed"))
    if info["n_self_coupled"]:
        ctx.cls("self_coupled_discipline")
    if any(len([n for n in outs if n in couplings]) > 1 for outs in model.outputs_of):
        ctx.cls("discipline_with_two_coupling_outputs")
        if any(len({sizes[n] for n in outs if n in couplings}) > 1 for outs in model.outputs_of):
            ctx.cls("discipline_with_two_couplings_of_unequal_sizes")
    if sizes[p["objective"]] > 1:
        ctx.cls("vector_objective")
    if p["maximize"]:
        ctx.cls("maximize")
    if any(len(c["outputs"]) > 1 for c in p["constraints"]):
        ctx.cls("multi_output_constraint")
    if len(ref.used_x) < len(model.x_names):
        ctx.cls("design_input_read_by_nobody")
    has_hinge = bool(getattr(model, "has_hinge", False))
    if has_hinge:
        ctx.cls("hinge_terms_with_sparse_jacobians")
        changes = False
        for d in p["system"]["discs"]:
            for o in d["outputs"]:
                for xn, block in o.get("hinge", {}).items():
                    if not np.any(np.array(o["lin"][xn])):
                        on = [bool(np.any(np.array(block) * (x[xn] > HINGE_AT)[None, :])) for x in (x1, x2)]
                        changes = changes or on[0] != on[1]
        if changes:  # a Jacobian block without stored entry at one of the two design points, populated at the other
            ctx.cls("sparsity_pattern_changes_between_points")
    if any(e["lo"] is None for e in p["ds"]):
        ctx.cls("unbounded_variable")

    # ------------------------------------------------------------------ MDF
    keep = {n for n, k in zip(couplings, p["mdf_keeps"]) if k}
    mdf_entries = [e for e in p["ds"] if e["name"] not in model.producer or e["name"] in keep]
    if keep:
        ctx.cls("mdf_given_couplings")
        weak_kept = [n for n in keep if n in weak_couplings(model)]
        if weak_kept and p["mda"]["main"] == "MDAJacobi":
            ctx.cls("mdf_jacobi_given_weak_couplings")  # the only main MDA whose input grammar holds the weak couplings
    discs = new_disciplines()
    mdf, _ = build_formulation("MDF", discs, p["objective"], build_space(mdf_entries, sizes, ds_values), p, via,
                               p["constraints"], p["maximize"])
    mdf_names = check_names(ctx, ref, mdf, [e["name"] for e in mdf_entries], "mdf", "MDF")
    problem = mdf.optimization_problem
    ctx.check(len(problem.constraints) == len(p["constraints"]), "functions", f"MDF has {len(problem.constraints)} constraints")
    mdf_fns = [problem.objective, *problem.constraints]
    mdf_jac_at_x1 = []
    requested = sorted({o for _, outs, _ in fns for o in outs})
    mdf_with_jac = True
    for name in mdf_request_classes(model, ref.used_x, requested):
        ctx.cls("class:" + name)
        if ctx.known(name):
            mdf_with_jac = False  # the values are still compared
    integer_x = any(e.get("type") == "integer" for e in p["ds"])
    if integer_x:
        ctx.cls("integer_design_variables")
        # the design vector of MDF holds integer variables only: its current value is an integer-dtype array
        current = mdf.design_space.get_current_value()
        ctx.check(np.array_equal(current, vector(mdf_names, x1)), "design_space", "MDF: current value of the design space changed",
                  current=current)
        if current.dtype.kind == "i":
            ctx.cls("integer_dtype_design_vector")
    kept: list = []
    for tag, x, sol, tot in (("x", x1, sol1, tot1), ("x + dx", x2, sol2, tot2), ("x again", x1, sol1, tot1)):
        vec = vector(mdf_names, x)
        if integer_x:  # what get_current_value() returns / what a user writes as array([1, 2])
            vec = mdf.design_space.get_current_value() if tag == "x" else vec.astype(int)
        for (label, outs, spec), fn, dim in zip(fns, mdf_fns, dims):
            val, jac = evaluate(ctx, fn, vec, dim, jac_first, f"MDF {label} at {tag}", with_jac=mdf_with_jac, keep=kept)
            exp_val = ref.standard_form(ref.mdf_value(outs, sol), spec)
            close(ctx, val, exp_val, 1e-9, "mdf_values", f"MDF {label} at {tag}", mda=p["mda"])
            if not mdf_with_jac:
                continue
            exp_jac = ref.standard_form(ref.mdf_jacobian(outs, tot, mdf_names), {"value": 0, "positive": spec.get("positive", spec.get("maximize", False))})
            close(ctx, jac, exp_jac, 1e-8, "mdf_jacobians", f"MDF {label} at {tag}", mda=p["mda"], names=mdf_names)
            if tag == "x":
                mdf_jac_at_x1.append(jac)

    check_kept(ctx, kept, "MDF")

    # ------------------------------------------------------------------ IDF
    discs = new_disciplines()
    idf, _ = build_formulation("IDF", discs, p["objective"], build_space(p["ds"], sizes, ds_values), p, via, p["constraints"],
                               p["maximize"])
    idf_names = check_names(ctx, ref, idf, user_names, "idf", "IDF")
    problem = idf.optimization_problem
    norm = {}
    open_couplings = []  # normalised consistency constraint on a coupling without finite bounds: |ub - lb| is infinite
    for e in p["ds"]:
        if e["name"] in couplings:
            if not p["normalize"]:
                norm[e["name"]] = np.ones(sizes[e["name"]])
            elif e["lo"] is None or e["hi"] is None:
                open_couplings.append(e["name"])
            else:
                norm[e["name"]] = np.abs(np.array(e["hi"]) - np.array(e["lo"]))
    if open_couplings:
        ctx.cls("class:idf_normalized_unbounded_coupling")
    skip_open = bool(open_couplings) and ctx.known("idf_normalized_unbounded_coupling")
    producers = sorted({model.producer[n] for n in couplings})
    n_cons = len(producers)
    ctx.check(len(problem.constraints) == n_cons + len(p["constraints"]), "functions",
              f"IDF has {len(problem.constraints)} constraints for {n_cons} disciplines with output couplings and "
              f"{len(p['constraints'])} user constraints")
    consistency = list(problem.constraints)[:n_cons]
    idf_fns = [problem.objective, *list(problem.constraints)[n_cons:]]
    seen = []
    cons_outputs = []
    for c in consistency:
        outs = consistency_outputs(c)
        cons_outputs.append(outs)
        ctx.check(bool(outs) and all(o in couplings for o in outs) and len({model.producer[o] for o in outs}) == 1, "functions",
                  f"IDF consistency constraint {c.name} covers {outs}")
        i = model.producer[outs[0]]
        ctx.check(sorted(outs) == sorted(n for n in model.outputs_of[i] if n in couplings), "functions",
                  f"IDF consistency constraint {c.name} covers {outs}, not the output couplings of {model.disc_names[i]}")
        ctx.check(str(c.f_type) == "eq", "functions", f"IDF consistency constraint {c.name} has type {c.f_type}")
        seen.append(i)
    ctx.check(sorted(seen) == producers, "functions", "IDF consistency constraints do not cover every discipline once")
    pert = {n: sol1[n] + np.array(p["delta"][n], dtype=float) for n in couplings}
    points = [("(x, y*(x))", x1, sol1, True), ("(x, y*(x) + delta)", x1, pert, False)]
    if p["perturbed_first"]:
        points.reverse()
    points.append(("(x + dx, y*(x + dx))", x2, sol2, True))
    if has_hinge:  # back to the first point: both directions of a change of sparsity pattern
        points.append(("(x, y*(x)) again", x1, sol1, True))
    idf_at_solution = None
    kept = []
    for tag, x, targets, consistent in points:
        data = {**x, **{n: targets[n] for n in couplings}}
        vec = vector(idf_names, data)
        got = []
        for (label, outs, spec), fn, dim in zip(fns, idf_fns, dims):
            val, jac = evaluate(ctx, fn, vec, dim, jac_first, f"IDF {label} at {tag}", keep=kept)
            exp_val = ref.standard_form(ref.idf_value(outs, data), spec)
            exp_jac = ref.standard_form(ref.idf_jacobian(outs, data, idf_names), {"value": 0, "positive": spec.get("positive", spec.get("maximize", False))})
            close(ctx, val, exp_val, 1e-11, "idf_values", f"IDF {label} at {tag}")
            close(ctx, jac, exp_jac, 1e-11, "idf_jacobians", f"IDF {label} at {tag}", names=idf_names)
            if consistent:  # the same values as MDF's: f(x, y*(x))
                sol = sol1 if x is x1 else sol2
                close(ctx, val, ref.standard_form(ref.mdf_value(outs, sol), spec), 1e-11, "idf_equals_mdf_values",
                      f"IDF {label} at {tag} against f(x, y*(x))")
            got.append(jac)
        cons_jacs = []
        for c, outs in zip(consistency, cons_outputs):
            dim = sum(sizes[o] for o in outs)
            val, jac = evaluate(ctx, c, vec, dim, jac_first, f"IDF consistency {'+'.join(outs)} at {tag}", keep=kept)
            if consistent:
                worst = float(np.max(np.abs(val), initial=0.0))
                ctx.check(worst <= 1e-10, "consistency_vanishes",
                          f"IDF consistency {'+'.join(outs)} at {tag} is {worst:.3e} > 1e-10", value=val)
            cons_jacs.append(jac)
            if any(o in open_couplings for o in outs):
                # no finite |ub - lb|: the scale of the constraint is not documented, but it still has to EXPRESS the
                # consistency: non-zero, with the sign of y_out - y_t, wherever the targets are inconsistent
                if skip_open:
                    continue
                unit = {o: np.ones(sizes[o]) for o in outs}
                residual = ref.consistency_value(outs, data, unit)
                bad = [k for k in range(dim) if abs(residual[k]) >= 1e-6 and not (np.isfinite(val[k]) and val[k] * residual[k] > 0)]
                ctx.check(not bad, "consistency_detects_inconsistency",
                          f"IDF consistency {'+'.join(outs)} at {tag} (normalize_constraints=True, coupling without finite bounds) is "
                          f"{val} although y_out - y_t = {residual}", value=val, residual=residual)
                continue
            close(ctx, val, ref.consistency_value(outs, data, norm), 1e-11, "consistency_values",
                  f"IDF consistency {'+'.join(outs)} at {tag} (normalize_constraints={p['normalize']})")
            close(ctx, jac, ref.consistency_jacobian(outs, data, norm, idf_names), 1e-11, "consistency_jacobians",
                  f"IDF consistency {'+'.join(outs)} at {tag} (normalize_constraints={p['normalize']})", names=idf_names)
        if consistent and x is x1:
            idf_at_solution = (got, cons_jacs)

    check_kept(ctx, kept, "IDF")

    # ------------------------------------------------------------------ MDF's Jacobian from IDF's functions alone
    # c(x, y) = 0 defines y*(x):  dy*/dx = -(dc/dy)^-1 dc/dx  and  d f(x, y*(x))/dx = df/dx + df/dy dy*/dx
    got, cons_jacs = idf_at_solution
    cols, k = {}, 0
    for n in idf_names:
        cols[n] = list(range(k, k + sizes[n]))
        k += sizes[n]
    y_cols = [j for n in idf_names if n in couplings for j in cols[n]]
    if couplings:
        c_all = np.vstack(cons_jacs)
        ctx.check(c_all.shape[0] == len(y_cols), "functions", "IDF consistency constraints do not have one row per coupling component")
        c_y = c_all[:, y_cols]
    rebuild = mdf_with_jac
    if couplings and open_couplings and not (np.all(np.isfinite(c_y)) and np.linalg.cond(c_y) < 1e8):
        rebuild = False  # (consistency Jacobians that are identically zero: reported by consistency_detects_inconsistency)
    for (label, outs, spec), j_idf, j_mdf in zip(fns, got, mdf_jac_at_x1 if rebuild else []):
        expected = np.zeros_like(j_mdf)
        k = 0
        for n in mdf_names:
            x_cols = cols[n]
            block = j_idf[:, x_cols]
            if couplings:
                block = block - j_idf[:, y_cols] @ np.linalg.solve(c_y, c_all[:, x_cols])
            expected[:, k : k + sizes[n]] = block
            k += sizes[n]
        close(ctx, j_mdf, expected, 1e-8, "mdf_from_idf", f"MDF {label}: total derivative against df/dx + df/dy.dy*/dx built from IDF",
              mda=p["mda"], normalize=p["normalize"])

    # ------------------------------------------------------------------ IDF variants
    if p["missing"] is not None and couplings:
        dropped = couplings[p["missing"] % len(couplings)]
        entries = [e for e in p["ds"] if e["name"] != dropped]
        discs = new_disciplines()
        try:
            build_formulation("IDF", discs, p["objective"], build_space(entries, sizes, ds_values), p, via, [], False)
        except ValueError:
            ctx.cls("idf_rejects_missing_coupling")
        else:
            ctx.fail("idf_requires_couplings", f"IDF accepted a design space without the coupling {dropped}")
    if p["equilibrium"] and couplings:
        discs = new_disciplines()
        eq, _ = build_formulation("IDF", discs, p["objective"], build_space(p["ds"], sizes, ds_values), p, via, [], False, equilibrium=True)
        current = eq.design_space.get_current_value(as_dict=True)
        for n in model.x_names:
            if n in current:
                close(ctx, np.asarray(current[n], dtype=float), x1[n], 0.0, "start_at_equilibrium", f"current value of {n}")
        for n in couplings:
            close(ctx, np.asarray(current[n], dtype=float), sol1[n], 1e-9, "start_at_equilibrium", f"start_at_equilibrium: current value of {n}")
        ctx.cls("idf_start_at_equilibrium")

    # ------------------------------------------------------------------ a DOE over IDF (mixed integer / float design space)
    if integer_x:
        integer_names = [e["name"] for e in p["ds"] if e.get("type") == "integer"]
        partial = any(not set(integer_names) <= set(model.inputs_of[i]) for i in range(len(model.inputs_of)))
        if partial:
            ctx.cls("class:idf_doe_integer_variable_not_read_by_every_discipline")
        if not (partial and ctx.known("idf_doe_integer_variable_not_read_by_every_discipline")):
            from gemseo import create_scenario
            from gemseo.core.mdo_functions.mdo_function import MDOFunction

            doe = create_scenario(new_disciplines(), p["objective"], build_space(p["ds"], sizes, ds_values), formulation_name="IDF",
                                  scenario_type="DOE", maximize_objective=p["maximize"], **formulation_settings("IDF", p))
            for c in p["constraints"]:
                doe.add_constraint(c["outputs"][0] if len(c["outputs"]) == 1 else list(c["outputs"]),
                                   constraint_type=MDOFunction.ConstraintType(c["type"]), constraint_name=c["name"], value=c["value"],
                                   positive=c["positive"])
            doe_problem = doe.formulation.optimization_problem
            doe_names = list(doe_problem.design_space.variable_names)
            samples = [{**x1, **{n: sol1[n] for n in couplings}}, {**x2, **{n: sol2[n] for n in couplings}},
                       {**x1, **{n: pert[n] for n in couplings}}]
            samples = [d for k, d in enumerate(samples)
                       if not any(np.array_equal(vector(doe_names, d), vector(doe_names, e)) for e in samples[:k])]
            doe.execute(algo_name="CustomDOE", samples=np.vstack([vector(doe_names, d) for d in samples]))
            database = doe_problem.database
            ctx.check(len(database) == len(samples), "idf_doe", f"the database of the DOE over IDF holds {len(database)} points for {len(samples)} samples")
            f_hist, x_hist = database.get_function_history(doe_problem.objective.name, with_x_vect=True)
            ctx.check(len(f_hist) == len(samples), "idf_doe", "the DOE over IDF did not record the objective at every sample")
            for k, d in enumerate(samples):
                close(ctx, np.asarray(x_hist[k], dtype=float), vector(doe_names, d), 1e-12, "idf_doe", f"sample {k} of the DOE over IDF")  # the DOE normalises and unnormalises its samples: rounding of the order of ulp(bounds), not of the value (thorough tier, seed 4)
                expected = ref.standard_form(ref.idf_value([p["objective"]], d), {"maximize": p["maximize"]})
                close(ctx, np.atleast_1d(np.asarray(f_hist[k], dtype=float)).reshape(-1), expected, 1e-11, "idf_doe",
                      f"objective recorded by the DOE over IDF at sample {k}")
            ctx.cls("idf_doe_checked")

    # ------------------------------------------------------------------ DisciplinaryOpt on acyclic systems
    if acyclic:
        order = topological_order(model)
        all_discs = new_disciplines()
        discs = [all_discs[i] for i in order]
        dopt, _ = build_formulation("DisciplinaryOpt", discs, p["objective"], build_space(mdf_entries, sizes, ds_values), p, via,
                                    p["constraints"], p["maximize"])
        names = check_names(ctx, ref, dopt, [e["name"] for e in mdf_entries], "mdf", "DisciplinaryOpt")
        problem = dopt.optimization_problem
        ctx.check(len(problem.constraints) == len(p["constraints"]), "functions", "DisciplinaryOpt: number of constraints")
        kept = []
        for tag, x, sol, tot in (("x", x1, sol1, tot1), ("x + dx", x2, sol2, tot2), ("x again", x1, sol1, tot1))[: 3 if has_hinge else 2]:
            vec = vector(names, x)
            if integer_x:
                vec = dopt.design_space.get_current_value() if tag == "x" else vec.astype(int)
            for (label, outs, spec), fn, dim in zip(fns, [problem.objective, *problem.constraints], dims):
                val, jac = evaluate(ctx, fn, vec, dim, jac_first, f"DisciplinaryOpt {label} at {tag}", keep=kept)
                exp_val = ref.standard_form(ref.mdf_value(outs, sol), spec)
                exp_jac = ref.standard_form(ref.mdf_jacobian(outs, tot, names), {"value": 0, "positive": spec.get("positive", spec.get("maximize", False))})
                close(ctx, val, exp_val, 1e-11, "disciplinary_opt_values", f"DisciplinaryOpt {label} at {tag}")
                close(ctx, jac, exp_jac, 1e-10, "disciplinary_opt_jacobians", f"DisciplinaryOpt {label} at {tag}", names=names)
        check_kept(ctx, kept, "DisciplinaryOpt")
        ctx.cls("disciplinary_opt_checked")

    if info["n_scc_ge2"] >= 1 and objective_on_y:
        ctx.nontriv((p["system"], p["x"], p["objective"], p["constraints"], p["mda"], p["normalize"]))
        ctx.cls("nontrivial")
    ctx.sample({"oracle": "pointwise", "case": p})


# --------------------------------------------------------------------------- optimisation oracle (thorough tier)
SLSQP = {"algo_name": "SLSQP", "max_iter": 300, "ftol_rel": 1e-15, "ftol_abs": 1e-15, "xtol_rel": 1e-15, "xtol_abs": 1e-15,
         "eq_tolerance": 1e-8, "ineq_tolerance": 1e-8}


def check_history(ctx, name: str, problem, model: CoupledSystem, twin, quad, normalize_ds: bool) -> None:
    """Every (point, objective, gradient) recorded in the database during the optimisation against the closed forms.

    The optimiser's history keeps the arrays the functions returned: a gradient that is silently overwritten by later
    evaluations (or a record attached to the wrong point) shows up here and nowhere in the final result.
    """
    h, g0, f0 = quad
    names = list(problem.design_space.variable_names)
    sizes = {n: problem.design_space.get_size(n) for n in names}
    database = problem.database
    f_hist, x_hist = database.get_function_history("obj", with_x_vect=True)
    g_hist, xg_hist = database.get_gradient_history("obj", with_x_vect=True)
    ctx.check(len(f_hist) >= 1 and len(g_hist) >= 1, "history", f"{name}: the database holds no objective / gradient record")

    def split(vec):
        out, k = {}, 0
        for n in names:
            out[n] = np.asarray(vec[k : k + sizes[n]], dtype=float)
            k += sizes[n]
        return out

    def reference(vec):
        data = split(vec)
        if name == "IDF":
            grad = twin.gradient(data)
            return twin.value(data), np.concatenate([grad.get(n, np.zeros(sizes[n])) for n in names])
        xs = np.concatenate([data[n] for n in model.x_names])
        grad_x = h @ xs + g0
        grad = {n: grad_x[model.x_offset[n] : model.x_offset[n] + model.sizes[n]] for n in model.x_names}
        return float(f0 + g0 @ xs + 0.5 * xs @ h @ xs), np.concatenate([grad[n] for n in names])

    for k in range(len(f_hist)):
        ref_f, _ = reference(x_hist[k])
        err = abs(float(np.ravel(f_hist[k])[0]) - ref_f)
        ctx.check(err <= 1e-8 * (1 + abs(ref_f)), "history", f"{name}: objective recorded at point {k} of the history differs from the closed form by {err:.3e}",
                  normalize_design_space=normalize_ds)
    for k in range(len(g_hist)):
        _, ref_g = reference(xg_hist[k])
        got = np.asarray(g_hist[k], dtype=float).reshape(-1)
        ctx.check(got.shape == ref_g.shape, "history", f"{name}: gradient record of shape {got.shape}")
        err = float(np.max(np.abs(got - ref_g), initial=0.0))
        ctx.check(err <= 1e-7 * (1 + float(np.max(np.abs(ref_g), initial=0.0))), "history",
                  f"{name}: gradient of the objective recorded at point {k} of {len(g_hist)} differs from the closed-form gradient at that point by {err:.3e}",
                  normalize_design_space=normalize_ds, recorded=got, expected=ref_g)
    ctx.cls("opt:normalized_design_space" if normalize_ds else "opt:unnormalized_design_space")


def case_optimize(p, ctx):
    with warnings.catch_warnings():
        warnings.simplefilter("ignore")
        _case_optimize(p, ctx)


def _case_optimize(p, ctx):
    from gemseo import create_scenario

    model = CoupledSystem(p["system"])
    couplings = model.couplings()
    spec = p["objective"]
    twin = QuadraticObjectiveTwin(spec)
    h, g0, f0, a, b = reduced_quadratic(model, spec)
    lo = np.concatenate([np.array(p["bounds"][n]["lo"], dtype=float) for n in model.x_names])
    hi = np.concatenate([np.array(p["bounds"][n]["hi"], dtype=float) for n in model.x_names])
    c_mat = c_rhs = None
    con = p["constraint"]
    value = None
    if con is not None:
        o = con["output"]
        sl = slice(model.offset[o], model.offset[o] + model.sizes[o])
        xc = np.concatenate([np.array(p["bounds"][n]["lo"]) + np.array(con["frac"][n]) * (np.array(p["bounds"][n]["hi"]) - np.array(p["bounds"][n]["lo"]))
                             for n in model.x_names])
        at_c = a[sl] @ xc + b[sl]
        if con["positive"]:  # o(x) >= value, strictly satisfied at xc
            value = float(np.min(at_c) - con["margin"])
            c_mat, c_rhs = -a[sl], b[sl] - value
        else:  # o(x) <= value
            value = float(np.max(at_c) + con["margin"])
            c_mat, c_rhs = a[sl], value - b[sl]
    x_ref, active = solve_convex_qp(h, g0, lo, hi, c_mat, c_rhs)
    f_ref = float(f0 + g0 @ x_ref + 0.5 * x_ref @ h @ x_ref)
    x_ref_d = {n: x_ref[model.x_offset[n] : model.x_offset[n] + model.sizes[n]] for n in model.x_names}
    sol_ref = model.solve(x_ref_d)
    # the twin of the full problem agrees with the reduced QP (harness self-check)
    if abs(twin.value({**x_ref_d, **sol_ref}) - f_ref) > 1e-9 * (1 + abs(f_ref)):
        raise AssertionError("reduced quadratic and twin disagree")
    acyclic = is_acyclic(model)
    n_active = sum(1 for s in active["bounds"] if s) + len(active["rows"])
    ctx.cls("opt:acyclic" if acyclic else "opt:cyclic", f"opt:active_bounds={min(sum(1 for s in active['bounds'] if s), 2)}",
            "opt:constraint_active" if active["rows"] else ("opt:constraint_inactive" if con else "opt:no_constraint"))
    sizes = {**model.sizes, "obj": 1}
    defaults = {**p["x0"], **{n: [0.0] * model.sizes[n] for n in model.out_names}}
    all_names = model.x_names + couplings
    entries = []
    for k in p["ds_order"]:
        n = all_names[k % len(all_names)]
        if n in [e["name"] for e in entries]:
            continue
        if n in model.producer:
            entries.append({"name": n, "lo": [p["y_lo"]] * sizes[n], "hi": [p["y_hi"]] * sizes[n]})
        else:
            entries.append({"name": n, **p["bounds"][n]})
    for n in all_names:  # robustness against shrunk permutations
        if n not in [e["name"] for e in entries]:
            entries.append({"name": n, "lo": [p["y_lo"]] * sizes[n], "hi": [p["y_hi"]] * sizes[n]} if n in model.producer else {"name": n, **p["bounds"][n]})
    formulations = ["MDF", "IDF"] + (["DisciplinaryOpt"] if acyclic else [])
    requested = ["obj"] + ([con["output"]] if con is not None else [])
    mdf_classes = mdf_request_classes(model, model.x_names, requested, extra=(twin.input_names, ["obj"]))
    results = {}
    for name in formulations:
        if name == "MDF" and any([ctx.known(c) for c in mdf_classes]):
            ctx.cls("opt:mdf_skipped_known_finding")
            continue
        discs = build_disciplines(model, defaults)
        if name == "DisciplinaryOpt":
            discs = [discs[i] for i in topological_order(model)]
        discs.append(quadratic_objective_discipline(spec, sizes, defaults))
        use = entries if name == "IDF" else [e for e in entries if e["name"] not in model.producer]
        ds = build_space(use, sizes, defaults)
        scenario = create_scenario(discs, "obj", ds, formulation_name=name, **formulation_settings(name, p))
        if con is not None:
            scenario.add_constraint(con["output"], constraint_type="ineq", value=value, positive=con["positive"])
        normalize_ds = bool(p.get("normalize_design_space", True))
        scenario.execute(**SLSQP, normalize_design_space=normalize_ds)
        res = scenario.optimization_result
        check_history(ctx, name, scenario.formulation.optimization_problem, model, twin, (h, g0, f0), normalize_ds)
        n_iter = len(scenario.formulation.optimization_problem.database)
        if n_iter >= SLSQP["max_iter"]:
            ctx.cls("inconclusive:slsqp_max_iter")
            ctx.note("optimisations stopped by max_iter are counted as inconclusive")
            continue
        ctx.check(bool(res.is_feasible), "optimum", f"{name}: the reported optimum is not feasible", status=str(res.message))
        x_opt = res.x_opt_as_dict
        f_err = abs(float(res.f_opt) - f_ref)
        ctx.check(f_err <= 1e-6, "optimum", f"{name}: optimal objective {float(res.f_opt)!r} differs from the exact optimum {f_ref!r} by {f_err:.3e}",
                  status=str(res.message), active=active)
        for n in model.x_names:
            err = float(np.max(np.abs(np.asarray(x_opt[n], dtype=float) - x_ref_d[n])))
            ctx.check(err <= 1e-4, "optimum", f"{name}: optimal {n} = {x_opt[n]} differs from the exact optimum {x_ref_d[n]} by {err:.3e}",
                      status=str(res.message), active=active)
        if name == "IDF":
            for n in couplings:
                err = float(np.max(np.abs(np.asarray(x_opt[n], dtype=float) - sol_ref[n])))
                ctx.check(err <= 1e-4 * (1 + float(np.max(np.abs(sol_ref[n])))), "optimum",
                          f"IDF: optimal target {n} = {x_opt[n]} differs from y*(x_opt) = {sol_ref[n]} by {err:.3e}")
        results[name] = float(res.f_opt)
        ctx.extra["max_optimizer_iterations"] = max(ctx.extra.get("max_optimizer_iterations", 0), n_iter)
    for na in results:
        for nb in results:
            if na < nb:
                ctx.check(abs(results[na] - results[nb]) <= 1e-6, "optimum", f"{na} and {nb} reach objectives {results[na]!r} and {results[nb]!r}")
    if len(results) >= 2 and not acyclic and n_active:
        ctx.nontriv(("optimize", p["system"], p["objective"], p["bounds"], p["constraint"]))
        ctx.cls("opt:nontrivial")
    ctx.sample({"oracle": "optimize", "case": p})


ORACLES = {"pointwise": case_pointwise, "optimize": case_optimize}


def run(ctx):
    ctx.drive("pointwise", formulation_cases(), case_pointwise, quick=150, thorough=500)
    # a few optimisations in the quick tier too: the history oracle needs an optimiser keeping what the functions return
    ctx.drive("optimize", convex_problems(), case_optimize, quick=5, thorough=4)
