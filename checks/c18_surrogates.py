"""C18 - Surrogate models are consistent with their own predictions and data.

Oracles
  jacobian     predict_jacobian(x) == multi-step central-stencil derivative of predict (adaptive
               tolerance from the discrepancy between three step sizes)
  interpolate  interpolating settings reproduce the learning outputs
  transformer  inverse_transform(transform(z)) == z; compute_jacobian / compute_jacobian_inverse are
               the stencil derivatives of these maps and mutually inverse
  discipline   SurrogateDiscipline.execute / linearize == predict / predict_jacobian
"""

from __future__ import annotations

import logging
import warnings

import numpy as np
from hypothesis import strategies as st

logging.getLogger("gemseo").setLevel(logging.ERROR)
warnings.filterwarnings("ignore")

PROPERTY = "C18"
LEVEL = "exploration"
RULE = (
    "Hypothesis draws a learning set (12-27 well-separated points: jittered Halton points in a box with drawn offset and "
    "width per input, 1-3 inputs, 1-2 outputs, smooth quadratic+sine target), a regressor (Linear with/without intercept and "
    "penalty, Polynomial degree 2-3, RBF x 7 kernels x epsilon factor x smooth, TPS, PCE degree 2, hard MOE with 2 clusters, "
    "(local models optionally with their own scalers), RegressorChain of 2 models, OT Gaussian process), input/output transformers on the whole groups (none, MinMaxScaler, "
    "StandardScaler, Scaler(offset, coefficient), full-rank PCA, Pipeline of two) and query points inside the hull; transformers alone "
    "additionally cover Power, BoxCox, YeoJohnson, full-rank PLS and full-rank KLSVD (exact or randomized SVD, optionally after "
    "another KLSVD instance fitted with a truncated randomized SVD in the same process). Half of the model cases re-train the "
    "same object on a subset and compare it with a fresh object trained on that subset. "
    "Non-trivial = non-identity transformer or non-default kernel with >= 2 inputs; distinct = hash of the drawn case."
)
ASSUMPTIONS = [
    "stencil reference: central differences with steps h, h/2, h/4 (h = 2e-3 x input width); tolerance = 20 x (max pairwise "
    "discrepancy of the three estimates) + 1e-7 x scale, so ill-conditioned kernels widen their own tolerance",
    "hard mixture-of-experts is only checked at points whose stencil stays inside one predicted class (piecewise model)",
    "models documented as not offering derivatives (soft MOE, sklearn GP, per-variable transformers, power transforms in a "
    "Jacobian) must raise NotImplementedError and are counted as rejected, not as failures",
    "PCE and OT Gaussian-process Jacobians are OpenTURNS' own (partly numerical) gradients: tolerance floor 1e-4 x scale instead of 1e-7",
    "learning points are separated by construction; the property is not checked on duplicated or collinear learning sets",
]

KERNELS = ["multiquadric", "inverse_multiquadric", "gaussian", "linear", "cubic", "quintic", "thin_plate"]
TRANSFORMERS = ["none", "minmax", "standard", "scaler", "pca", "pca_scaled", "pipeline", "pipeline_pca"]


def _halton(n, d):
    primes = [2, 3, 5]
    out = np.zeros((n, d))
    for j in range(d):
        b = primes[j]
        for i in range(n):
            f, r, k = 1.0, 0.0, i + 1
            while k > 0:
                f /= b
                r += f * (k % b)
                k //= b
            out[i, j] = r
    return out


@st.composite
def cases(draw, kinds=None):
    d_in = draw(st.integers(1, 3))
    d_out = draw(st.integers(1, 2))
    kind = draw(st.sampled_from(kinds or ["linear", "poly", "rbf", "rbf", "rbf", "tps", "pce", "moe", "chain", "otgp"]))
    model = {"kind": kind}
    if kind == "linear":
        model.update(fit_intercept=draw(st.booleans()), penalty_level=draw(st.sampled_from([0.0, 0.0, 0.1])), l2_penalty_ratio=draw(st.sampled_from([1.0, 0.5, 0.0])))
    elif kind == "poly":
        model.update(degree=draw(st.integers(2, 3)), fit_intercept=draw(st.booleans()), penalty_level=draw(st.sampled_from([0.0, 0.0, 0.01])), l2_penalty_ratio=draw(st.sampled_from([1.0, 0.5, 0.0])))
    elif kind == "rbf":
        model.update(function=draw(st.sampled_from(KERNELS)), eps_factor=draw(st.sampled_from([None, None, 0.5, 1.5, 3.0])), smooth=draw(st.sampled_from([0.0, 0.0, 0.01])))
    elif kind == "moe":
        model.update(hard=draw(st.sampled_from([True, True, False])), sub=draw(st.sampled_from(["LinearRegressor", "RBFRegressor"])),
                     sub_transformer=draw(st.sampled_from(["none", "scalers", "scalers"])))
    elif kind == "chain":
        model.update(first=draw(st.sampled_from(["LinearRegressor", "PolynomialRegressor", "RBFRegressor"])), last_kernel=draw(st.sampled_from(KERNELS)))
    return {
        "d_in": d_in, "d_out": d_out, "n": draw(st.integers(12, 27)),
        "offset": draw(st.lists(st.sampled_from([-2.0, 0.0, 0.0, 5.0, 100.0]), min_size=3, max_size=3)),
        "width": draw(st.lists(st.sampled_from([1.0, 1.0, 0.5, 3.0, 10.0]), min_size=3, max_size=3)),
        "jitter": draw(st.lists(st.integers(-3, 3), min_size=8, max_size=8)),
        "coef": draw(st.lists(st.integers(-3, 3), min_size=12, max_size=12)),
        "model": model,
        "tin": draw(st.sampled_from(TRANSFORMERS)), "tout": draw(st.sampled_from(TRANSFORMERS)),
        "per_variable": draw(st.integers(0, 9)) == 0,
        "relearn": draw(st.booleans()),
        "query": draw(st.lists(st.lists(st.sampled_from([0.3, 0.45, 0.5, 0.62, 0.7, 0.38]), min_size=3, max_size=3), min_size=1, max_size=3)),
    }


def learning_set(p):
    d, n = p["d_in"], p["n"]
    unit = _halton(n, d)
    jit = np.array([p["jitter"][(i * 3 + j) % len(p["jitter"])] for i in range(n) for j in range(d)]).reshape(n, d)
    unit = np.clip(unit + jit * 0.004, 0.0, 1.0)
    off, wid = np.array(p["offset"][:d]), np.array(p["width"][:d])
    x = off + unit * wid
    c = p["coef"]
    ys = []
    for k in range(p["d_out"]):
        y = 1.0 + k
        for j in range(d):
            y = y + c[(j + 2 * k) % 12] * unit[:, j] + 0.5 * c[(j + 5 + k) % 12] * unit[:, j] * unit[:, (j + 1) % d]
        y = y + np.sin(2.0 * unit @ np.arange(1, d + 1) + k)
        ys.append(y)
    y = np.array(ys).T
    y = y - y.min(axis=0) + 1.0  # strictly positive outputs
    return x, y, off, wid


def make_transformer(name, dim):
    from gemseo.mlearning.transformers.dimension_reduction.pca import PCA
    from gemseo.mlearning.transformers.pipeline import Pipeline
    from gemseo.mlearning.transformers.scaler.min_max_scaler import MinMaxScaler
    from gemseo.mlearning.transformers.scaler.scaler import Scaler
    from gemseo.mlearning.transformers.scaler.standard_scaler import StandardScaler

    if name == "minmax":
        return MinMaxScaler()
    if name == "standard":
        return StandardScaler()
    if name == "scaler":
        return Scaler(offset=1.5, coefficient=-2.0)
    if name == "pca":
        return PCA(n_components=dim)
    if name == "pca_scaled":
        return PCA(n_components=dim, scale=True)
    if name == "pipeline":
        return Pipeline(transformers=[MinMaxScaler(), Scaler(offset=-0.5, coefficient=3.0)])
    if name == "pipeline_pca":
        return Pipeline(transformers=[StandardScaler(), PCA(n_components=dim)])
    return None


def build_model(p, x, y):
    from gemseo.datasets.io_dataset import IODataset
    from gemseo.mlearning.regression.algos.factory import RegressorFactory

    d, q = p["d_in"], p["d_out"]
    ds = IODataset()
    names = [f"x{j}" for j in range(d)]
    ds.add_input_group(x.copy(), names, dict.fromkeys(names, 1))
    ds.add_output_group(y.copy(), ["y"], {"y": q})
    transformer = {}
    tin, tout = make_transformer(p["tin"], d), make_transformer(p["tout"], q)
    if tin is not None:
        transformer["x0" if p["per_variable"] and p["tin"] in ("minmax", "standard", "scaler") else "inputs"] = tin
    if tout is not None:
        transformer["outputs"] = tout
    per_variable = "x0" in transformer
    m, kind = p["model"], p["model"]["kind"]
    factory = RegressorFactory()
    kw = {"transformer": transformer}
    if kind == "linear":
        model = factory.create("LinearRegressor", ds, fit_intercept=m["fit_intercept"], penalty_level=m["penalty_level"], l2_penalty_ratio=m["l2_penalty_ratio"], **kw)
    elif kind == "poly":
        model = factory.create("PolynomialRegressor", ds, degree=m["degree"], fit_intercept=m["fit_intercept"], penalty_level=m.get("penalty_level", 0.0), l2_penalty_ratio=m.get("l2_penalty_ratio", 1.0), **kw)
    elif kind == "rbf":
        extra = {}
        if m["eps_factor"] is not None:
            edges = x.max(axis=0) - x.min(axis=0)
            if tin is not None and not per_variable:
                edges = np.ones(d)  # order of magnitude after scaling
            extra["epsilon"] = float(m["eps_factor"] * np.power(np.prod(edges) / len(x), 1.0 / d))
        model = factory.create("RBFRegressor", ds, function=m["function"], smooth=m["smooth"], **extra, **kw)
    elif kind == "tps":
        model = factory.create("TPSRegressor", ds, **kw)
    elif kind == "pce":
        from gemseo.algos.parameter_space import ParameterSpace

        ps = ParameterSpace()
        for j, name in enumerate(names):
            ps.add_random_variable(name, "OTUniformDistribution", minimum=float(x[:, j].min() - 1e-9), maximum=float(x[:, j].max() + 1e-9))
        kw2 = {"transformer": {k: v for k, v in transformer.items() if k == "outputs"}}
        model = factory.create("PCERegressor", ds, probability_space=ps, degree=2, **kw2)
    elif kind == "moe":
        model = factory.create("MOERegressor", ds, hard=m["hard"], **kw)
        model.set_clusterer("KMeans", n_clusters=2, random_state=0)
        sub_kw = {}
        if m.get("sub_transformer", "none") == "scalers":
            # the local regressors have their own transformers (non-default setting)
            sub_kw["transformer"] = {"inputs": make_transformer("minmax", d), "outputs": make_transformer("standard", q)}
        if m["sub"] == "RBFRegressor":
            model.set_regressor("RBFRegressor", function="cubic", **sub_kw)
        else:
            model.set_regressor("LinearRegressor", **sub_kw)
    elif kind == "chain":
        model = factory.create("RegressorChain", ds, **kw)
        if m["first"] == "PolynomialRegressor":
            model.add_algo("PolynomialRegressor", degree=2)
        elif m["first"] == "RBFRegressor":
            model.add_algo("RBFRegressor", function="gaussian", smooth=0.1)
        else:
            model.add_algo("LinearRegressor")
        model.add_algo("RBFRegressor", function=m["last_kernel"], smooth=0.0)
    elif kind == "otgp":
        model = factory.create("OTGaussianProcessRegressor", ds, **kw)
    else:
        raise AssertionError(kind)
    return model, per_variable


def stencil(fun, x, h):
    """Central-difference Jacobians of fun at x for steps h, h/2, h/4 -> (best estimate, discrepancy)."""
    ests = []
    for scale in (1.0, 0.5, 0.25):
        cols = []
        for j in range(len(x)):
            e = np.zeros(len(x))
            e[j] = h[j] * scale
            f = (8 * (fun(x + e) - fun(x - e)) - (fun(x + 2 * e) - fun(x - 2 * e))) / (12 * e[j])
            cols.append(np.asarray(f, dtype=float).ravel())
        ests.append(np.array(cols).T)
    disc = max(np.abs(ests[0] - ests[1]).max(), np.abs(ests[1] - ests[2]).max(), np.abs(ests[0] - ests[2]).max())
    return ests[1], float(disc)


def is_interpolating(p):
    m = p["model"]
    if m["kind"] == "rbf":
        return m["smooth"] == 0.0
    if m["kind"] in ("tps", "chain"):
        return True
    return False


def case_model(p, ctx):
    x, y, off, wid = learning_set(p)
    model, per_variable = build_model(p, x, y)
    kind = p["model"]["kind"]
    ctx.cls(f"model_{kind}")
    if kind == "rbf":
        ctx.cls(f"kernel_{p['model']['function']}")
    try:
        model.learn()
    except Exception as exc:  # noqa: BLE001
        if kind == "otgp":
            ctx.cls("otgp_learn_failed_" + type(exc).__name__)
            return
        if kind == "moe":
            # a K-means cluster that is empty or too small for its local model (found by the thorough tier: SciPy's
            # Rbf divides by the number of input dimensions of an empty sample): a precondition of the learning set,
            # the property says nothing about learning failures
            ctx.cls("moe_learn_failed_" + type(exc).__name__)
            return
        raise
    d, q = p["d_in"], p["d_out"]
    yscale = float(np.abs(y).max())
    # ---- interpolation of the learning data
    if is_interpolating(p):
        pred = np.asarray(model.predict(x.copy()))
        ctx.check(pred.shape == y.shape, "interpolate", f"predict on the learning inputs has shape {pred.shape}, outputs {y.shape}")
        err = float(np.abs(pred - y).max())
        ctx.cls("interpolating_model")
        ctx.check(err <= 1e-6 * yscale, "interpolate", f"{kind} {p['model']} does not reproduce its learning outputs: max error {err:.3e} (scale {yscale:.3g})",
                  tin=p["tin"], tout=p["tout"])
    if kind == "moe" and p["model"]["hard"] and p["model"]["sub"] == "RBFRegressor":
        # hard mixture of interpolating local models: every learning point that the classifier sends to its own cluster
        # is reproduced, and the prediction is the one of the local model of the predicted class
        labels = np.asarray(model.labels).ravel()
        klass = np.asarray(model.predict_class(x.copy())).ravel().astype(int)
        own = klass == labels
        pred = np.asarray(model.predict(x.copy()))
        ctx.cls("moe_interpolating_local_models")
        if own.any():
            err = float(np.abs(pred[own] - y[own]).max())
            ctx.check(err <= 1e-6 * yscale, "interpolate", f"hard MOE of interpolating RBF models does not reproduce its learning outputs: max error {err:.3e} (scale {yscale:.3g})",
                      tin=p["tin"], tout=p["tout"], sub_transformer=p["model"].get("sub_transformer"))
        for k in sorted(set(klass.tolist())):
            sel = klass == k
            loc = np.asarray(model.predict_local_model(x[sel].copy(), int(k)))
            ctx.check(np.abs(loc - pred[sel]).max() <= 1e-9 * yscale, "moe_local_model",
                      f"hard MOE prediction differs from the local model {k} of the predicted class by {np.abs(loc - pred[sel]).max():.3e}")
    # ---- Jacobian versus stencil
    expects_reject = per_variable or (kind == "moe" and not p["model"]["hard"])
    for uq in p["query"]:
        xq = off + np.array(uq[:d]) * wid
        try:
            jac = np.asarray(model.predict_jacobian(xq.copy()))
        except NotImplementedError:
            ctx.cls("jacobian_rejected_NotImplementedError")
            ctx.check(expects_reject, "jacobian_available", f"predict_jacobian raised NotImplementedError for {p['model']} with transformers {p['tin']}/{p['tout']}")
            return
        ctx.check(jac.shape == (q, d), "jacobian_shape", f"predict_jacobian shape {jac.shape}, expected {(q, d)}")
        h = 2e-3 * wid
        if kind == "moe":
            pts = [xq] + [xq + s * 2 * h * np.eye(d)[j] for j in range(d) for s in (-1, 1)]
            classes = {int(np.asarray(model.predict_class(pt.copy())).ravel()[0]) for pt in pts}
            if len(classes) > 1:
                ctx.cls("moe_stencil_crosses_class_boundary_skipped")
                continue
        ref, disc = stencil(lambda z: np.asarray(model.predict(z.copy())), xq, h)
        scale = max(1.0, float(np.abs(ref).max()), yscale / float(wid.min()))
        # PCE / OT Gaussian process: the Jacobian is OpenTURNS' own gradient of the composed metamodel, which
        # differentiates parts of it numerically (observed relative error ~1e-6): floor 1e-4, stated in ASSUMPTIONS
        floor = 1e-4 if kind in ("pce", "otgp") else 1e-7
        tol = 20 * disc + floor * scale
        err = float(np.abs(jac - ref).max())
        ctx.extra["max_jacobian_tolerance_used"] = max(ctx.extra.get("max_jacobian_tolerance_used", 0.0), tol)
        ctx.check(err <= tol, "jacobian", f"predict_jacobian differs from the derivative of predict by {err:.3e} (tolerance {tol:.2e}) for {p['model']}, transformers in={p['tin']} out={p['tout']}",
                  jac=jac, stencil=ref, x=xq)
        # batch form agrees with the single-point form
    xb = off + np.array([u[:d] for u in p["query"]]) * wid
    jb = np.asarray(model.predict_jacobian(xb.copy()))
    ctx.check(jb.shape == (len(xb), q, d), "jacobian_shape", f"batched predict_jacobian shape {jb.shape}")
    j0 = np.asarray(model.predict_jacobian(xb[0].copy()))
    ctx.check(np.abs(jb[0] - j0).max() <= 1e-9 * max(1.0, np.abs(j0).max()), "jacobian", "batched and single-point Jacobians differ")
    # ---- surrogate discipline
    from gemseo.disciplines.surrogate import SurrogateDiscipline

    disc_ = SurrogateDiscipline(model)
    names = [f"x{j}" for j in range(d)]
    data = {n: np.array([xb[0][j]]) for j, n in enumerate(names)}
    out = disc_.execute(data)
    pred = np.asarray(model.predict(xb[0].copy())).ravel()
    ctx.check(np.asarray(out["y"]).shape == pred.shape and np.abs(out["y"] - pred).max() <= 1e-13 * max(1.0, np.abs(pred).max()), "discipline",
              f"SurrogateDiscipline.execute returns {out['y']}, model.predict {pred}")
    jd = disc_.linearize(data, compute_all_jacobians=True)
    for j, n in enumerate(names):
        blk = np.asarray(jd["y"][n])
        ctx.check(blk.shape == (q, 1) and np.abs(blk[:, 0] - j0[:, j]).max() <= 1e-13 * max(1.0, np.abs(j0).max()), "discipline",
                  f"SurrogateDiscipline.linearize d y/d {n} = {blk.ravel()}, model.predict_jacobian column {j0[:, j]}")
    # ---- re-training of the same object on a subset of the learning samples: the Jacobian must follow the new model
    # and equal a fresh object's (the stencil part is not run for MOE: piecewise; nothing for PCE / OT-GP: cost)
    if p.get("relearn") and kind in ("linear", "poly", "rbf", "tps", "chain", "moe"):
        keep = [i for i in range(len(x)) if i % 3 != 1]
        fresh, _ = build_model(p, x, y)
        try:
            fresh.learn(samples=keep)
        except Exception:  # noqa: BLE001
            ctx.cls("relearn_subset_not_learnable_skipped")
            fresh = None
        if fresh is not None:
            model.learn(samples=keep)
            ctx.cls("relearned_on_a_subset")
            # history independence: the re-trained object is the model a fresh object learns from the same samples
            pts = np.vstack([xb, x[keep][:6]])
            pa, pf = np.asarray(model.predict(pts.copy())), np.asarray(fresh.predict(pts.copy()))
            ctx.check(pa.shape == pf.shape and np.abs(pa - pf).max() <= 1e-9 * yscale, "retrained_equals_fresh",
                      f"after learn(samples=subset) the predictions differ from those of a fresh {kind} model trained on the same subset by {np.abs(pa - pf).max():.3e} for {p['model']}")
            if not expects_reject:
                ja, jf = np.asarray(model.predict_jacobian(pts.copy())), np.asarray(fresh.predict_jacobian(pts.copy()))
                ctx.check(ja.shape == jf.shape and np.abs(ja - jf).max() <= 1e-9 * max(1.0, np.abs(jf).max()), "retrained_equals_fresh",
                          f"after learn(samples=subset) the Jacobians differ from those of a fresh {kind} model trained on the same subset by {np.abs(ja - jf).max():.3e}")
    if p.get("relearn") and kind in ("linear", "poly", "rbf", "tps", "chain") and fresh is not None:
        xq = xb[-1]
        jac2 = np.asarray(model.predict_jacobian(xq.copy()))
        ref2, disc2 = stencil(lambda z: np.asarray(model.predict(z.copy())), xq, 2e-3 * wid)
        scale2 = max(1.0, float(np.abs(ref2).max()), yscale / float(wid.min()))
        tol2 = 20 * disc2 + 1e-7 * scale2
        err2 = float(np.abs(jac2 - ref2).max()) if jac2.shape == ref2.shape else float("inf")
        ctx.check(err2 <= tol2, "jacobian_after_relearning",
                  f"after learn(samples=subset) predict_jacobian differs from the derivative of the new predict by {err2:.3e} (tolerance {tol2:.2e}) for {p['model']}")
        data2 = {n: np.array([xq[j]]) for j, n in enumerate(names)}
        # a fresh discipline: the cache of the first one legitimately holds results of the previous model
        jd2 = SurrogateDiscipline(model).linearize(data2, compute_all_jacobians=True)
        for j, n in enumerate(names):
            blk = np.asarray(jd2["y"][n])
            ctx.check(blk.shape == (q, 1) and np.abs(blk[:, 0] - jac2[:, j]).max() <= 1e-13 * max(1.0, np.abs(jac2).max()), "discipline",
                      f"after re-training SurrogateDiscipline.linearize d y/d {n} = {blk.ravel()}, model.predict_jacobian column {jac2[:, j]}")
    nondefault = (p["tin"] != "none" or p["tout"] != "none" or (kind == "rbf" and p["model"]["function"] != "multiquadric"))
    if nondefault and d >= 2:
        ctx.nontriv(p)
    ctx.sample({"oracle": "model", "model": p["model"], "d_in": d, "d_out": q, "n": p["n"], "tin": p["tin"], "tout": p["tout"]})


# --------------------------------------------------------------------------- transformers alone
@st.composite
def transformer_cases(draw):
    dim = draw(st.integers(1, 3))
    return {
        "dim": dim, "n": draw(st.integers(8, 20)),
        "name": draw(st.sampled_from(["minmax", "standard", "scaler", "pca", "pca_scaled", "pipeline", "pipeline_pca", "power", "boxcox", "yeojohnson", "pipeline_power", "pls", "klsvd"])),
        "offset": draw(st.lists(st.sampled_from([0.5, 1.0, 5.0, 100.0]), min_size=3, max_size=3)),
        "width": draw(st.lists(st.sampled_from([1.0, 0.5, 3.0, 10.0]), min_size=3, max_size=3)),
        "jitter": draw(st.lists(st.integers(-3, 3), min_size=8, max_size=8)),
        "mix": draw(st.lists(st.sampled_from([0.0, 0.3, -0.4, 0.7]), min_size=3, max_size=3)),
        "query": draw(st.lists(st.sampled_from([0.2, 0.35, 0.5, 0.65, 0.8]), min_size=3, max_size=3)),
        # KLSVD only: history across instances (its OpenTURNS settings are process-wide) and SVD variant
        "klsvd_prelude": draw(st.booleans()), "klsvd_random": draw(st.booleans()),
    }


def case_transformer(p, ctx):
    from gemseo.mlearning.transformers.pipeline import Pipeline
    from gemseo.mlearning.transformers.power.boxcox import BoxCox
    from gemseo.mlearning.transformers.power.power import Power
    from gemseo.mlearning.transformers.power.yeo_johnson import YeoJohnson
    from gemseo.mlearning.transformers.scaler.scaler import Scaler

    dim, n = p["dim"], p["n"]
    unit = _halton(n, dim)
    jit = np.array([p["jitter"][(i * 3 + j) % 8] for i in range(n) for j in range(dim)]).reshape(n, dim)
    unit = np.clip(unit + 0.004 * jit, 0, 1)
    mix = np.eye(dim)
    for j in range(dim):
        mix[j, (j + 1) % dim] += p["mix"][j] if dim > 1 else 0.0
    off, wid = np.array(p["offset"][:dim]), np.array(p["width"][:dim])
    if p["name"] in ("power", "boxcox", "yeojohnson", "pipeline_power"):
        # power transforms of data with a tiny relative spread (100 +- 0.5) are numerically ill-conditioned:
        # keep the data within one decade of 1 so that the 1e-9 round-trip tolerance is meaningful
        off, wid = np.minimum(off, 1.0), np.maximum(wid, 1.0)
    data = off + (unit @ mix.T) * wid + 0.0
    data = data - data.min(axis=0) + off  # strictly positive (power transforms)
    name = p["name"]
    scale0 = float(np.abs(data).max())
    power = {"power": Power, "boxcox": BoxCox, "yeojohnson": YeoJohnson}
    if name in power:
        tr = power[name]()
    elif name == "pipeline_power":
        tr = Pipeline(transformers=[Scaler(offset=1.0, coefficient=0.5), BoxCox()])
    elif name == "pls":
        from gemseo.mlearning.transformers.dimension_reduction.pls import PLS

        tr = PLS(n_components=dim)  # full rank: a lossless linear reduction
    elif name == "klsvd":
        from gemseo.mlearning.transformers.dimension_reduction.klsvd import KLSVD

        mesh = np.linspace(0.0, 1.0, dim)[:, None] if dim > 1 else np.array([[0.0]])
        if p.get("klsvd_prelude") and dim > 1:
            # another instance fitted before in the same process, with a truncated randomized SVD
            ctx.cls("klsvd_after_a_truncated_randomized_instance")
            KLSVD(mesh, use_random_svd=True, n_singular_values=1).fit(data.copy())
        # full rank: a lossless linear reduction, with the exact SVD or the randomized one at OpenTURNS' default rank
        tr = KLSVD(mesh, n_components=dim, use_random_svd=bool(p.get("klsvd_random")))
    else:
        tr = make_transformer(name, dim)
    ctx.cls(f"transformer_{name}")
    if name == "pls":
        # PLS is supervised: smooth targets of the data, as many as components
        targets = np.column_stack([np.sin(data @ np.arange(1.0, dim + 1.0) / scale0 + k) + data[:, k % dim] / scale0 for k in range(dim)])
        tr.fit(data.copy(), targets)
    else:
        tr.fit(data.copy())
    z = data.min(axis=0) + np.array(p["query"][:dim]) * (data.max(axis=0) - data.min(axis=0))
    scale = float(np.abs(data).max())
    t = np.asarray(tr.transform(data.copy()))
    back = np.asarray(tr.inverse_transform(t.copy()))
    ctx.check(back.shape == data.shape and np.abs(back - data).max() <= 1e-9 * scale, "transformer_round_trip",
              f"{name}: inverse_transform(transform(z)) differs from z by {np.abs(back - data).max():.3e}")
    tz = np.asarray(tr.transform(z[None].copy()))
    bz = np.asarray(tr.inverse_transform(tz.copy()))
    ctx.check(np.abs(bz - z).max() <= 1e-9 * scale, "transformer_round_trip", f"{name}: round trip at a new point differs by {np.abs(bz - z).max():.3e}")
    try:
        jac = np.asarray(tr.compute_jacobian(z[None].copy()))
        jinv = np.asarray(tr.compute_jacobian_inverse(tz.copy()))
    except NotImplementedError:
        ctx.cls("transformer_without_jacobian")
        ctx.check(name in ("power", "boxcox", "yeojohnson", "pipeline_power", "pls", "klsvd"), "transformer_jacobian", f"{name} does not provide its Jacobian")
        ctx.sample({"oracle": "transformer", "name": name, "dim": dim, "n": n})
        return
    jac, jinv = jac.reshape(jac.shape[-2:]), jinv.reshape(jinv.shape[-2:])
    h = 1e-3 * (data.max(axis=0) - data.min(axis=0))
    ref, disc = stencil(lambda v: np.asarray(tr.transform(v[None].copy())).ravel(), z, h)
    tol = 20 * disc + 1e-8 * max(1.0, np.abs(ref).max())
    ctx.check(jac.shape == ref.shape and np.abs(jac - ref).max() <= tol, "transformer_jacobian",
              f"{name}: compute_jacobian differs from the derivative of transform by {np.abs(jac - ref).max():.3e} (tol {tol:.1e})", jac=jac, ref=ref)
    tzv = tz.ravel()
    ht = 1e-3 * np.maximum(np.abs(t).max(axis=0) - np.abs(t).min(axis=0), 1e-3)
    refi, disci = stencil(lambda v: np.asarray(tr.inverse_transform(v[None].copy())).ravel(), tzv, ht)
    toli = 20 * disci + 1e-8 * max(1.0, np.abs(refi).max())
    ctx.check(jinv.shape == refi.shape and np.abs(jinv - refi).max() <= toli, "transformer_jacobian",
              f"{name}: compute_jacobian_inverse differs from the derivative of inverse_transform by {np.abs(jinv - refi).max():.3e} (tol {toli:.1e})", jac=jinv, ref=refi)
    prod = jinv @ jac
    ctx.check(np.abs(prod - np.eye(dim)).max() <= 1e-8 * max(1.0, np.abs(jac).max() * np.abs(jinv).max()), "transformer_jacobian",
              f"{name}: compute_jacobian_inverse @ compute_jacobian != identity")
    if name != "minmax" or dim >= 2:
        ctx.nontriv(p)
    ctx.sample({"oracle": "transformer", "name": name, "dim": dim, "n": n})


ORACLES = {"model": case_model, "model_composite": case_model, "transformer": case_transformer}


def run(ctx):
    ctx.drive("model", cases(), case_model, quick=350, thorough=2500)
    # composite models get their own budget (the uniform draw above reaches them too rarely)
    ctx.drive("model_composite", cases(kinds=["moe", "moe", "chain"]), case_model, quick=60, thorough=500)
    ctx.drive("transformer", transformer_cases(), case_transformer, quick=400, thorough=4000)
