"""C19 - Probability distributions and parameter spaces are self-consistent.

Distribution objects of both back ends (SciPy, OpenTURNS; dedicated classes and the generic
by-name interfaces; OpenTURNS truncations and affine transformations) are compared with laws
written here from textbook closed forms: mean, standard deviation, support, cumulative
distribution function.  Parameter spaces mixing random vectors and deterministic variables are
checked against the same laws (probability integral transform and its inverse, affine map of the
deterministic components, samples, empirical statistics).
"""

from __future__ import annotations

import logging
import math
import warnings

import numpy as np
from hypothesis import strategies as st

logging.getLogger("gemseo").setLevel(logging.ERROR)
warnings.filterwarnings("ignore", category=RuntimeWarning, module="scipy")  # boost root-finding chatter of beta.ppf

PROPERTY = "C19"
LEVEL = "exploration"
RULE = (
    "Hypothesis draws a law (Uniform, Normal, Triangular, Exponential, Beta, Weibull min/max, LogNormal with "
    "direct or log parameters, Dirac; Gamma, Logistic, Gumbel and Normal through the generic by-name classes) "
    "with location/scale/shape parameters away from degeneracy (scales and widths in [1e-3 or 0.05, 20], shapes "
    "in [0.5, 8]), the back end (SP/OT), for OpenTURNS optionally a truncation (Normal, Uniform, Exponential) or "
    "an affine transformation, probabilities in [1e-6, 1-1e-6] incl. both tails, a sample size 50-400 and a seed "
    "set on numpy.random and OpenTURNS' RandomGenerator.  Oracle 'law': reported mean/std/support against the "
    "closed forms, range inside support, cdf against the reference cdf, cdf(icdf(p)) = p, icdf(cdf(x)) = x, "
    "samples inside the support and within Kolmogorov distance 4/sqrt(n) of the reference cdf.  Oracle 'cross': "
    "SciPy and OpenTURNS objects of the same law agree on cdf, icdf, mean, std, support.  Oracle 'space': a "
    "ParameterSpace of 1-4 variables in generated order (random vectors of size 1-3 with per-component or shared "
    "parameters, deterministic float variables): untransform_vect(u) has reference-cdf == u on random components "
    "and lb+u(ub-lb) on deterministic ones, transform/untransform round trips, 1-D and 2-D inputs agree, "
    "compute_samples shapes/supports/laws per column, EmpiricalStatistics against numpy on the same data; then a drawn "
    "edit (remove_variable, filter in place or on a copy, a further random variable) and the same oracles on the edited "
    "space against the edited reference.  Oracle 'parametric': ParametricStatistics on datasets of 1-3 variables of size "
    "1-3 drawn from known laws, candidates among Normal/Uniform/Exponential/Logistic/Gumbel (+Gamma on skewed data): "
    "mean/variance/std/min/max/range/quantile/probability (per-component, float and length-1 thresholds, both sides) "
    "against the closed form of the FITTED law read from the object, P[X<=Q(p)] = p, and |parametric - empirical "
    "probability| <= Kolmogorov distance of the fit (an identity).  "
    "Non-trivial = non-standard location/scale together with a probability in a tail (p<0.01 or p>0.99), or a "
    "space mixing random and deterministic variables; distinct = structural hash of the drawn case."
)
ASSUMPTIONS = [
    "selection criteria as documented in the module docstring of parametric_statistics ('first': the first distribution for which "
    "the criterion is greater than the level; 'best': the distribution optimising it), asserted with the Kolmogorov test only on "
    "decided cases (recomputed p-value below level/20 = rejected, above 0.5 = accepted) over mid-point quantile samples",
    "reference cdfs use math.erfc/expm1/log and, for Beta and Gamma only, scipy.special.betainc/gammainc "
    "(special functions, not the distribution wrappers under test); moments use math.gamma and closed forms",
    "tolerances: moments 1e-9 relative to the standard deviation (1e-6 for OpenTURNS truncated laws, 1e-4 for transformed "
    "ones, which OpenTURNS integrates numerically); cdf 1e-9 absolute (1e-4 for transformed laws); cdf(icdf(p)) within "
    "1e-9 + 1e-6*min(p,1-p) + the probability carried by the two doubles around the quantile; icdf(cdf(x)) "
    "within 1e-7*(std + |x|) for p in [1e-4, 1-1e-4] (in the far tails the cdf value cannot resolve x)",
    "for transformed OpenTURNS laws the reported support is only required to lie inside the analytical one "
    "and to contain the range (OpenTURNS reports a numerical range for composite distributions)",
    "Kolmogorov bound 4/sqrt(n): false-alarm probability below 2e-13 per column; seeds are drawn, so a run is deterministic",
    "empirical variance/standard deviation may use either ddof 0 or 1; an empirical quantile must lie between the "
    "neighbouring order statistics",
]

EPS = float(np.finfo(float).eps)
EULER = 0.5772156649015329
INF = float("inf")


# --------------------------------------------------------------------------- reference laws
def _phi(z: float) -> float:
    return math.exp(-0.5 * z * z) / math.sqrt(2 * math.pi)


def _Phi(z: float) -> float:
    return 0.5 * math.erfc(-z / math.sqrt(2.0))


class Law:
    """Closed-form law: mean, std, support [lo, hi], cdf."""

    def __init__(self, family: str, q: dict):
        self.family, self.q = family, q
        g = math.gamma
        if family == "Uniform":
            a, b = q["a"], q["a"] + q["w"]
            self.lo, self.hi, self.mean, self.std = a, b, (a + b) / 2, (b - a) / math.sqrt(12.0)
            self._cdf = lambda x: min(1.0, max(0.0, (x - a) / (b - a)))
        elif family == "Normal":
            mu, s = q["mu"], q["sigma"]
            self.lo, self.hi, self.mean, self.std = -INF, INF, mu, s
            self._cdf = lambda x: _Phi((x - mu) / s)
        elif family == "Triangular":
            a, b = q["a"], q["a"] + q["w"]
            m = a + q["c"] * q["w"]
            self.mode = m
            self.lo, self.hi, self.mean = a, b, (a + b + m) / 3
            # (a^2+b^2+m^2-ab-am-bm)/18 written in the shift-invariant form (no cancellation for narrow laws far from 0)
            self.std = q["w"] * math.sqrt((1.0 - q["c"] + q["c"] ** 2) / 18.0)

            def cdf(x):
                if x <= a:
                    return 0.0
                if x >= b:
                    return 1.0
                if x <= m:
                    return (x - a) ** 2 / ((b - a) * (m - a))
                return 1.0 - (b - x) ** 2 / ((b - a) * (b - m))

            self._cdf = cdf
        elif family == "Exponential":
            lam, loc = q["rate"], q["loc"]
            self.lo, self.hi, self.mean, self.std = loc, INF, loc + 1 / lam, 1 / lam
            self._cdf = lambda x: 0.0 if x <= loc else -math.expm1(-lam * (x - loc))
        elif family == "Beta":
            from scipy.special import betainc

            al, be, a, b = q["alpha"], q["beta"], q["a"], q["a"] + q["w"]
            self.lo, self.hi = a, b
            self.mean = a + (b - a) * al / (al + be)
            self.std = (b - a) * math.sqrt(al * be / ((al + be) ** 2 * (al + be + 1)))
            self._cdf = lambda x: float(betainc(al, be, min(1.0, max(0.0, (x - a) / (b - a)))))
        elif family == "Weibull":
            loc, sc, k, use_min = q["loc"], q["scale"], q["shape"], q["min"]
            g1, g2 = g(1 + 1 / k), g(1 + 2 / k)
            self.std = sc * math.sqrt(g2 - g1 * g1)
            if use_min:
                self.lo, self.hi, self.mean = loc, INF, loc + sc * g1
                self._cdf = lambda x: 0.0 if x <= loc else -math.expm1(-(((x - loc) / sc) ** k))
            else:
                self.lo, self.hi, self.mean = -INF, loc, loc - sc * g1
                self._cdf = lambda x: 1.0 if x >= loc else math.exp(-(((loc - x) / sc) ** k))
        elif family == "LogNormal":
            loc = q["loc"]
            if q["set_log"]:
                ml, sl = q["mu"], q["sigma"]
                self.mean = loc + math.exp(ml + sl * sl / 2)
                self.std = math.sqrt(math.expm1(sl * sl) * math.exp(2 * ml + sl * sl))
            else:
                # X - loc is log-normal with mean mu - loc and standard deviation sigma
                m, s = q["mu"] - loc, q["sigma"]
                sl = math.sqrt(math.log1p((s / m) ** 2))
                ml = math.log(m) - sl * sl / 2
                self.mean, self.std = q["mu"], s
            self.lo, self.hi = loc, INF
            self._cdf = lambda x: 0.0 if x <= loc else _Phi((math.log(x - loc) - ml) / sl)
        elif family == "Dirac":
            v = q["v"]
            self.lo, self.hi, self.mean, self.std = v, v, v, 0.0
            self._cdf = lambda x: 1.0 if x >= v else 0.0
        elif family == "Gamma":
            from scipy.special import gammainc

            k, sc, loc = q["shape"], q["scale"], q["loc"]
            self.lo, self.hi, self.mean, self.std = loc, INF, loc + k * sc, math.sqrt(k) * sc
            self._cdf = lambda x: 0.0 if x <= loc else float(gammainc(k, (x - loc) / sc))
        elif family == "Logistic":
            mu, s = q["mu"], q["scale"]
            self.lo, self.hi, self.mean, self.std = -INF, INF, mu, s * math.pi / math.sqrt(3.0)

            def cdf(x):
                z = (x - mu) / s
                return 1.0 / (1.0 + math.exp(-z)) if z >= 0 else math.exp(z) / (1.0 + math.exp(z))

            self._cdf = cdf
        elif family == "Gumbel":
            loc, sc = q["loc"], q["scale"]
            self.lo, self.hi, self.mean, self.std = -INF, INF, loc + sc * EULER, sc * math.pi / math.sqrt(6.0)
            self._cdf = lambda x: 0.0 if (loc - x) / sc > 700.0 else math.exp(-math.exp((loc - x) / sc))
        else:
            raise AssertionError(family)
        self.exact_support = True
        self.loose = False  # numerically integrated moments (OpenTURNS composite / truncated laws)
        self.p_slack = 0.0  # extra absolute tolerance on probabilities (OpenTURNS composite laws are discretised)

    def cdf(self, x: float) -> float:
        return self._cdf(float(x))

    # ---- OpenTURNS options
    def truncated(self, lower, upper) -> "Law":
        """The law conditioned on [lower, upper] (None = no bound); closed-form moments per family."""
        base = self
        lo = base.lo if lower is None else lower
        hi = base.hi if upper is None else upper
        f_lo = 0.0 if lower is None else base.cdf(lower)
        f_hi = 1.0 if upper is None else base.cdf(upper)
        mass = f_hi - f_lo
        out = Law.__new__(Law)
        out.family, out.q = base.family + ":truncated", dict(base.q, lower=lower, upper=upper)
        out.lo, out.hi = lo, hi
        out._cdf = lambda x: 0.0 if x <= lo else (1.0 if x >= hi else (base.cdf(x) - f_lo) / mass)
        if base.family == "Uniform":
            out.mean, out.std = (lo + hi) / 2, (hi - lo) / math.sqrt(12.0)
        elif base.family == "Normal":
            mu, s = base.q["mu"], base.q["sigma"]
            al = -INF if lower is None else (lower - mu) / s
            be = INF if upper is None else (upper - mu) / s
            pa, pb = (0.0 if al == -INF else _phi(al)), (0.0 if be == INF else _phi(be))
            apa, bpb = (0.0 if al == -INF else al * pa), (0.0 if be == INF else be * pb)
            out.mean = mu + s * (pa - pb) / mass
            out.std = s * math.sqrt(1 + (apa - bpb) / mass - ((pa - pb) / mass) ** 2)
        elif base.family == "Exponential":
            lam = base.q["rate"]
            if upper is None:  # memoryless
                out.mean, out.std = lo + 1 / lam, 1 / lam
            else:
                w = hi - lo
                e = math.exp(-lam * w)
                out.mean = lo + 1 / lam - w * e / (1 - e)
                out.std = math.sqrt(1 / lam**2 - w * w * e / (1 - e) ** 2)
        else:
            raise AssertionError(base.family)
        out.exact_support, out.loose, out.p_slack = True, True, 0.0
        return out

    def affine_same_family(self, a: float, b: float) -> "Law":
        """a*X + b with a > 0 stays in the family for Uniform, Normal and Exponential laws."""
        q = self.q
        if self.family == "Uniform":
            return Law("Uniform", {"a": a * q["a"] + b, "w": a * q["w"]})
        if self.family == "Normal":
            return Law("Normal", {"mu": a * q["mu"] + b, "sigma": a * q["sigma"]})
        if self.family == "Exponential":
            return Law("Exponential", {"rate": q["rate"] / a, "loc": a * q["loc"] + b})
        raise AssertionError(self.family)

    def affine(self, a: float, b: float) -> "Law":
        """The law of a*X + b."""
        base = self
        out = Law.__new__(Law)
        out.family, out.q = base.family + ":affine", dict(base.q, a_=a, b_=b)
        out.mean, out.std = a * base.mean + b, abs(a) * base.std
        ends = sorted([a * base.lo + b, a * base.hi + b])
        out.lo, out.hi = ends
        if a > 0:
            out._cdf = lambda y: base.cdf((y - b) / a)
        else:
            # continuous laws: P(aX+b <= y) = 1 - F((y-b)/a)
            out._cdf = lambda y: 1.0 - base.cdf((y - b) / a)
        # OpenTURNS' CompositeDistribution is a discretisation: up to 1.1e-5 seen when the density is infinite at an end
        out.exact_support, out.loose, out.p_slack = False, True, 1e-4
        return out


# --------------------------------------------------------------------------- strategies
def _r(v: float, nd: int = 3) -> float:
    return float(round(v, nd))


LOC = st.one_of(st.sampled_from([0.0, 1.0, -1.0, 2.5, -3.2, 100.0, -250.0]), st.floats(-100, 100).map(_r))
SCALE = st.one_of(st.sampled_from([1.0, 0.05, 0.3, 2.0, 20.0]), st.floats(0.05, 20).map(_r).map(lambda v: max(v, 0.05)))
WIDTH = st.one_of(st.sampled_from([1.0, 0.001, 0.1, 7.7, 20.0]), st.floats(0.001, 20).map(_r).map(lambda v: max(v, 0.001)))
SHAPE = st.one_of(st.sampled_from([1.0, 0.5, 2.0, 3.5, 8.0]), st.floats(0.5, 8).map(lambda v: _r(v, 2)))
FAMILIES = ["Uniform", "Normal", "Triangular", "Exponential", "Beta", "Weibull", "LogNormal", "Gamma", "Logistic", "Gumbel"]
GENERIC = {"Gamma", "Logistic", "Gumbel"}


@st.composite
def law_params(draw, family: str):
    if family == "Uniform":
        return {"a": draw(st.one_of(LOC, st.sampled_from([-1.0, -0.5]))), "w": draw(WIDTH)}
    if family == "Normal":
        return {"mu": draw(st.one_of(LOC, st.sampled_from([0.0, 0.5, -1.0]))), "sigma": draw(SCALE)}
    if family == "Triangular":
        return {"a": draw(LOC), "w": draw(WIDTH), "c": draw(st.sampled_from([0.5, 0.05, 0.25, 0.8, 0.95]))}
    if family == "Exponential":
        return {"rate": draw(SCALE), "loc": draw(LOC)}
    if family == "Beta":
        return {"alpha": draw(SHAPE), "beta": draw(SHAPE), "a": draw(LOC), "w": draw(WIDTH)}
    if family == "Weibull":
        return {"loc": draw(LOC), "scale": draw(SCALE), "shape": draw(SHAPE), "min": draw(st.sampled_from([True, True, False]))}
    if family == "LogNormal":
        loc = draw(LOC)
        if draw(st.booleans()):
            return {"set_log": True, "loc": loc, "mu": draw(st.sampled_from([0.0, 1.0, -2.0, 0.3, 3.0])), "sigma": draw(st.sampled_from([1.0, 0.05, 0.25, 0.5, 1.5]))}
        m = draw(st.sampled_from([1.0, 0.1, 2.0, 10.0, 50.0]))
        return {"set_log": False, "loc": loc, "mu": _r(loc + m, 6), "sigma": _r(m * draw(st.sampled_from([1.0, 0.05, 0.4, 1.2, 3.0])), 6)}
    if family == "Gamma":
        return {"shape": draw(SHAPE), "scale": draw(SCALE), "loc": draw(LOC)}
    if family == "Logistic":
        return {"mu": draw(LOC), "scale": draw(SCALE)}
    if family == "Gumbel":
        return {"loc": draw(LOC), "scale": draw(SCALE)}
    if family == "Dirac":
        return {"v": draw(LOC)}
    raise AssertionError(family)


PROBS = st.one_of(
    st.sampled_from([0.5, 1e-6, 1e-3, 0.01, 0.25, 0.9, 0.99, 0.999, 1 - 1e-6, 0.005, 0.995]),
    st.floats(1e-6, 1 - 1e-6),
)


@st.composite
def ot_option(draw, family: str, q: dict):
    """None, a truncation (families with closed-form truncated moments) or an affine transformation."""
    kind = draw(st.sampled_from(["none", "truncate", "truncate", "affine", "affine_truncate", "affine_truncate"] if family in ("Normal", "Uniform", "Exponential") else ["none", "none", "affine"]))
    if kind == "affine_truncate":
        # "x+b" / "a*x" / "a*x+b" with a > 0, then a truncation whose bounds are valid for the TRANSFORMED variable
        a, b = draw(st.sampled_from([(1.0, 2.0), (1.0, -3.5), (2.0, 0.0), (0.5, 0.0), (3.0, 1.0), (10.0, -2.5)]))
        image = Law(family, q).affine_same_family(a, b)
        side = draw(st.sampled_from(["both", "lower", "upper"]))
        if family == "Normal":
            z1, z2 = sorted(draw(st.lists(st.sampled_from([-2.0, -1.0, -0.5, 0.0, 0.5, 1.0, 2.0]), min_size=2, max_size=2, unique=True)))
            lo, hi = image.mean + image.std * z1, image.mean + image.std * z2
        elif family == "Uniform":
            # strictly inside: OpenTURNS reports the support of a transformed bounded law shrunk by 1e-12, so a bound
            # equal to the analytical end is rejected by gemseo's "within the current bounds" test (ValueError)
            f1, f2 = sorted(draw(st.lists(st.sampled_from([0.05, 0.1, 0.25, 0.5, 0.75, 0.9]), min_size=2, max_size=2, unique=True)))
            width = image.hi - image.lo
            lo, hi = image.lo + f1 * width, min(image.lo + f2 * width, image.hi)
        else:
            t1, t2 = sorted(draw(st.lists(st.sampled_from([0.05, 0.1, 0.5, 1.0, 2.0, 4.0]), min_size=2, max_size=2, unique=True)))
            lo, hi = image.lo + t1 * image.std, image.lo + t2 * image.std
        return {"kind": "affine_truncate", "a": a, "b": b, "lower": None if side == "upper" else lo, "upper": None if side == "lower" else hi}
    if kind == "truncate" and family in ("Normal", "Uniform", "Exponential"):
        side = draw(st.sampled_from(["both", "lower", "upper"]))
        # a bound exactly equal to 0.0 with the other one absent (0.0 is a bound like any other), when 0 splits the mass
        if side != "both" and 0.02 <= Law(family, q).cdf(0.0) <= 0.98 and draw(st.integers(0, 2)) > 0:
            return {"kind": "truncate", "lower": 0.0 if side == "lower" else None, "upper": 0.0 if side == "upper" else None}
        if family == "Normal":
            z1, z2 = sorted(draw(st.lists(st.sampled_from([-2.0, -1.0, -0.5, 0.0, 0.5, 1.0, 2.0]), min_size=2, max_size=2, unique=True)))
            lo, hi = q["mu"] + q["sigma"] * z1, q["mu"] + q["sigma"] * z2
        elif family == "Uniform":
            f1, f2 = sorted(draw(st.lists(st.sampled_from([0.0, 0.1, 0.25, 0.5, 0.75, 1.0]), min_size=2, max_size=2, unique=True)))
            lo, hi = q["a"] + f1 * q["w"], min(q["a"] + f2 * q["w"], q["a"] + q["w"])
        else:
            t1, t2 = sorted(draw(st.lists(st.sampled_from([0.0, 0.1, 0.5, 1.0, 2.0, 4.0]), min_size=2, max_size=2, unique=True)))
            lo, hi = q["loc"] + t1 / q["rate"], q["loc"] + t2 / q["rate"]
        return {"kind": "truncate", "lower": None if side == "upper" else lo, "upper": None if side == "lower" else hi}
    if kind == "affine":
        return {"kind": "affine", "a": draw(st.sampled_from([2.0, -1.0, 0.5, -3.0, 10.0])), "b": draw(st.sampled_from([0.0, 1.0, -2.5]))}
    return {"kind": "none"}


@st.composite
def law_cases(draw):
    family = draw(st.sampled_from([*FAMILIES, "Dirac"]))
    q = draw(law_params(family))
    lib = "OT" if family == "Dirac" else draw(st.sampled_from(["SP", "OT"]))
    generic = family in GENERIC or (family == "Normal" and draw(st.integers(0, 3)) == 0)
    option = {"kind": "none"}
    if lib == "OT" and family != "Dirac" and not generic:
        option = draw(ot_option(family, q))
        if family in ("Normal", "Uniform", "Exponential") and draw(st.integers(0, 2**16)) % 6 == 0:
            # a one-sided truncation at exactly 0.0 of a law whose mass 0 splits: the location is moved so that it does
            share = draw(st.sampled_from([0.1, 0.25, 0.5, 0.75, 0.9]))
            if family == "Normal":
                q = dict(q, mu=_r(q["sigma"] * draw(st.sampled_from([-1.0, -0.5, 0.0, 0.5, 1.0])), 6))
            elif family == "Uniform":
                q = dict(q, a=_r(-share * q["w"], 9))
            else:
                q = dict(q, loc=_r(-share / q["rate"], 9))
            side = draw(st.sampled_from(["lower", "upper"]))
            option = {"kind": "truncate", "lower": 0.0 if side == "lower" else None, "upper": 0.0 if side == "upper" else None}
    return {
        "family": family, "q": q, "lib": lib, "generic": generic, "option": option,
        "probs": draw(st.lists(PROBS, min_size=2, max_size=5)), "n": draw(st.integers(50, 400)), "rng": draw(st.integers(0, 2**31 - 2)),
    }


@st.composite
def cross_cases(draw):
    family = draw(st.sampled_from(FAMILIES))
    return {
        "family": family, "q": draw(law_params(family)), "generic": family in GENERIC or (family == "Normal" and draw(st.booleans())),
        "probs": draw(st.lists(PROBS, min_size=2, max_size=6)),
    }


NAMES = ["y", "x", "k", "ab", "zz", "var", "x_1", "u"]
SPACE_FAMILIES = ["Uniform", "Normal", "Triangular", "Exponential", "Beta", "Weibull", "LogNormal"]


@st.composite
def space_cases(draw):
    n_vars = draw(st.integers(1, 4))
    names = draw(st.lists(st.sampled_from(NAMES), min_size=n_vars, max_size=n_vars, unique=True))
    variables = []
    for name in names:
        size = draw(st.integers(1, 3))
        if draw(st.integers(0, 2)) == 0:
            variables.append({"kind": "det", "name": name, "size": size, "lb": [draw(LOC) for _ in range(size)], "w": [draw(WIDTH) for _ in range(size)]})
        else:
            family = draw(st.sampled_from(SPACE_FAMILIES))
            how = draw(st.sampled_from(["vector", "vector_shared", "variable"]))
            n_laws = size if how == "vector" else 1
            variables.append({"kind": "random", "name": name, "size": size, "family": family, "how": how, "q": [draw(law_params(family)) for _ in range(n_laws)]})
    if all(v["kind"] == "det" for v in variables):
        family = draw(st.sampled_from(SPACE_FAMILIES))
        variables[draw(st.integers(0, n_vars - 1))] = {"kind": "random", "name": names[0] + "r", "size": 1, "family": family, "how": "variable", "q": [draw(law_params(family))]}
    d = sum(v["size"] for v in variables)
    n_points = draw(st.integers(1, 3))
    edits = []
    for k in range(draw(st.integers(0, 3))):
        op = draw(st.sampled_from(["remove", "filter", "filter_copy", "add", "add_det", "rename", "rename", "rebuild", "rejected", "rejected"]))
        edit = {"op": op, "var": draw(st.integers(0, 5))}
        if op == "rejected":
            # an operation the API documents as rejected: the space must be left as it was
            family = draw(st.sampled_from(SPACE_FAMILIES))
            edit["why"] = draw(st.sampled_from(["existing_name", "existing_name", "unknown_distribution", "mixed_library", "inconsistent_sizes"]))
            edit["family"], edit["q"] = family, draw(law_params(family))
        if op in ("filter", "filter_copy"):
            edit["keep"] = draw(st.lists(st.booleans(), min_size=4, max_size=4))
        elif op == "add":
            family = draw(st.sampled_from(SPACE_FAMILIES))
            edit["new"] = {"kind": "random", "name": f"w_new{k}", "size": draw(st.integers(1, 2)), "family": family, "how": "variable", "q": [draw(law_params(family))]}
            edit["u_new"] = [draw(PROBS) for _ in range(3)]
        elif op == "add_det":
            size = draw(st.integers(1, 2))
            edit["new"] = {"kind": "det", "name": f"w_new{k}", "size": size, "lb": [draw(LOC) for _ in range(size)], "w": [draw(WIDTH) for _ in range(size)]}
            edit["u_new"] = [draw(PROBS) for _ in range(3)]
        edits.append(edit)
        if op == "rename" and draw(st.booleans()):
            edits.append({"op": "rebuild", "var": 0})  # renaming alone never rebuilds the joint distribution
    copula = draw(st.sampled_from([None, None, {"kind": "normal", "rho": 0.9}, {"kind": "normal", "rho": -0.8}, {"kind": "normal", "rho": 0.7},
                                   {"kind": "clayton", "theta": 5.0}, {"kind": "clayton", "theta": 2.0}]))
    copula_first = draw(st.booleans())
    lib = draw(st.sampled_from(["SP", "OT"]))
    if copula is not None:
        lib = draw(st.sampled_from(["OT", "OT", "SP"]))  # only OpenTURNS joint laws take a copula
        if copula_first and draw(st.booleans()):
            # an edit that must keep the dependence: renaming a random variable / adding a deterministic one
            randoms = [i for i, v in enumerate(variables) if v["kind"] == "random"]
            keep = draw(st.sampled_from([{"op": "rename", "var": randoms[0]}, {"op": "rename", "var": randoms[-1]},
                                         {"op": "add_det", "var": 0, "new": {"kind": "det", "name": "w_det", "size": 1, "lb": [0.0], "w": [1.0]}, "u_new": [0.5]}]))
            edits.insert(0, keep)
    return {
        "lib": lib, "variables": variables, "edits": edits,
        "copula": copula, "n_copula": draw(st.integers(400, 600)), "copula_first": copula_first,
        "u": [[draw(PROBS) for _ in range(d)] for _ in range(n_points)],
        "n": draw(st.integers(50, 400)), "prob": draw(st.sampled_from([0.5, 0.1, 0.25, 0.9, 0.05, 0.99])),
        "rng": draw(st.integers(0, 2**31 - 2)),
    }


# --------------------------------------------------------------------------- building the real objects
def reseed(value: int) -> None:
    import openturns

    np.random.seed(value % (2**32))
    openturns.RandomGenerator.SetSeed(value % (2**31 - 1))


def class_kwargs(family: str, q: dict) -> dict:
    """Keyword arguments of the dedicated gemseo classes (same names in both back ends)."""
    if family == "Uniform":
        return {"minimum": q["a"], "maximum": q["a"] + q["w"]}
    if family == "Normal":
        return {"mu": q["mu"], "sigma": q["sigma"]}
    if family == "Triangular":
        return {"minimum": q["a"], "mode": q["a"] + q["c"] * q["w"], "maximum": q["a"] + q["w"]}
    if family == "Exponential":
        return {"rate": q["rate"], "loc": q["loc"]}
    if family == "Beta":
        return {"alpha": q["alpha"], "beta": q["beta"], "minimum": q["a"], "maximum": q["a"] + q["w"]}
    if family == "Weibull":
        return {"location": q["loc"], "scale": q["scale"], "shape": q["shape"], "use_weibull_min": q["min"]}
    if family == "LogNormal":
        return {"mu": q["mu"], "sigma": q["sigma"], "location": q["loc"], "set_log": q["set_log"]}
    if family == "Dirac":
        return {"variable_value": q["v"]}
    raise AssertionError(family)


def generic_args(family: str, q: dict, lib: str):
    """(interfaced name, parameters) of the by-name interfaces SPDistribution / OTDistribution."""
    if family == "Normal":
        return ("norm", {"loc": q["mu"], "scale": q["sigma"]}) if lib == "SP" else ("Normal", (q["mu"], q["sigma"]))
    if family == "Gamma":
        return ("gamma", {"a": q["shape"], "loc": q["loc"], "scale": q["scale"]}) if lib == "SP" else ("Gamma", (q["shape"], 1.0 / q["scale"], q["loc"]))
    if family == "Logistic":
        return ("logistic", {"loc": q["mu"], "scale": q["scale"]}) if lib == "SP" else ("Logistic", (q["mu"], q["scale"]))
    if family == "Gumbel":
        return ("gumbel_r", {"loc": q["loc"], "scale": q["scale"]}) if lib == "SP" else ("Gumbel", (q["scale"], q["loc"]))
    raise AssertionError(family)


def build_distribution(family: str, q: dict, lib: str, generic: bool, option: dict | None = None):
    from gemseo.uncertainty.distributions.factory import DistributionFactory

    factory = DistributionFactory()
    extra = {}
    option = option or {"kind": "none"}
    if option["kind"] == "truncate":
        extra = {"lower_bound": option["lower"], "upper_bound": option["upper"]}
    elif option["kind"] in ("affine", "affine_truncate"):
        a, b = option["a"], option["b"]
        extra = {"transformation": f"{a!r}*x+{b!r}" if b >= 0 else f"{a!r}*x-{-b!r}"}
        if option["kind"] == "affine_truncate":
            if a == 1.0:
                extra["transformation"] = f"x+{b!r}" if b >= 0 else f"x-{-b!r}"
            elif b == 0.0:
                extra["transformation"] = f"{a!r}*x"
            extra.update(lower_bound=option["lower"], upper_bound=option["upper"])
    if generic:
        name, parameters = generic_args(family, q, lib)
        return factory.create(f"{lib}Distribution", interfaced_distribution=name, parameters=parameters, **extra)
    return factory.create(f"{lib}{family}Distribution", **class_kwargs(family, q), **extra)


def reference(family: str, q: dict, option: dict | None = None) -> Law:
    law = Law(family, q)
    option = option or {"kind": "none"}
    if option["kind"] == "truncate":
        return law.truncated(option["lower"], option["upper"])
    if option["kind"] == "affine":
        return law.affine(option["a"], option["b"])
    if option["kind"] == "affine_truncate":
        out = law.affine_same_family(option["a"], option["b"]).truncated(option["lower"], option["upper"])
        # OpenTURNS truncates its discretised composite law: same slack as for transformed laws, and only a
        # numerical range on a side that stays open
        out.p_slack = 1e-4
        out.exact_support = option["lower"] is not None and option["upper"] is not None
        return out
    return law


def close(a: float, b: float, tol: float) -> bool:
    if math.isinf(a) or math.isinf(b):
        return a == b
    return abs(a - b) <= tol


def resolution(law: Law, x: float) -> float:
    """Probability carried by the two doubles around x: no cdf/icdf pair can resolve p more finely there.

    (A quantile a few ulps away from a finite end of the support, e.g. loc + 5e-14, has a relative
    distance to that end known to a percent only.)
    """
    step = 2 * float(np.spacing(abs(x))) if x != 0.0 else 1e-300
    return abs(law.cdf(x + step) - law.cdf(x - step))


def kolmogorov(samples: np.ndarray, law: Law) -> float:
    x = np.sort(np.asarray(samples, dtype=float))
    n = x.size
    f = np.array([law.cdf(v) for v in x])
    return float(max(np.max(np.arange(1, n + 1) / n - f), np.max(f - np.arange(0, n) / n)))


def _track(ctx, key: str, value: float) -> None:
    ctx.extra[key] = max(ctx.extra.get(key, 0.0), float(value))


# --------------------------------------------------------------------------- oracle: one distribution
def case_law(p, ctx):
    reseed(p["rng"])
    family, q, lib = p["family"], p["q"], p["lib"]
    law = reference(family, q, p["option"])
    dist = build_distribution(family, q, lib, p["generic"], p["option"])
    scale = law.std if law.std > 0 else 1.0
    # OpenTURNS integrates composite (1e-4) and truncated (1e-6) laws numerically; the plain families are closed forms
    # (the quadrature of composite laws is accurate relative to the values, not to a small spread: 1e-5*|mean| added)
    mtol = (1e-4 if law.p_slack else 1e-6 if law.loose else 1e-9) * scale + (1e-5 if law.p_slack else 8 * EPS) * abs(law.mean)
    mean, std = float(dist.mean), float(dist.standard_deviation)
    _track(ctx, "max_moment_error_rel_std" + ("_numerical" if law.loose else ""), max(abs(mean - law.mean), abs(std - law.std)) / scale)
    ctx.check(abs(mean - law.mean) <= mtol, "law:mean", f"{dist!r}: mean {mean!r}, closed form {law.mean!r}")
    ctx.check(abs(std - law.std) <= mtol, "law:std", f"{dist!r}: standard deviation {std!r}, closed form {law.std!r}")
    support, rng = np.asarray(dist.support, dtype=float), np.asarray(dist.range, dtype=float)
    ctx.check(support.shape == (2,) and rng.shape == (2,), "law:support", f"support {support!r} / range {rng!r} are not pairs")
    btol = 8 * EPS * max(1.0, abs(law.lo) if math.isfinite(law.lo) else 0.0, abs(law.hi) if math.isfinite(law.hi) else 0.0)
    if law.exact_support:
        ctx.check(close(support[0], law.lo, btol) and close(support[1], law.hi, btol), "law:support",
                  f"{dist!r}: support {support.tolist()}, analytical [{law.lo}, {law.hi}]")
    else:
        ctx.check(support[0] >= law.lo - btol and support[1] <= law.hi + btol, "law:support",
                  f"{dist!r}: support {support.tolist()} exceeds the analytical [{law.lo}, {law.hi}]")
    ctx.check(support[0] - btol <= rng[0] <= rng[1] <= support[1] + btol, "law:range", f"{dist!r}: range {rng.tolist()} not inside support {support.tolist()}")
    if family != "Dirac":
        ctx.check(rng[0] < law.mean < rng[1], "law:range", f"{dist!r}: range {rng.tolist()} does not contain the mean {law.mean}")
        for prob in p["probs"]:
            x = float(dist.compute_inverse_cdf(prob))
            if math.isnan(x) and lib == "SP" and family == "Beta" and ctx.known("scipy_beta_ppf_nan"):
                continue
            ctx.check(support[0] - btol <= x <= support[1] + btol, "law:icdf_in_support", f"{dist!r}: icdf({prob}) = {x} outside the support")
            back = float(dist.compute_cdf(x))
            tail = min(prob, 1 - prob)
            _track(ctx, "max_cdf_icdf_error_rel_tail", abs(back - prob) / tail)
            ptol = 1e-9 + 1e-6 * tail + resolution(law, x) + law.p_slack
            ctx.check(abs(back - prob) <= ptol, "law:cdf_of_icdf", f"{dist!r}: cdf(icdf({prob})) = {back!r}")
            ref = law.cdf(x)
            _track(ctx, "max_cdf_error_vs_reference" + ("_transformed" if law.p_slack else ""), abs(ref - prob))
            ctx.check(abs(ref - prob) <= ptol, "law:icdf_vs_reference", f"{dist!r}: reference cdf at icdf({prob}) = {x!r} is {ref!r}")
            if 1e-4 <= prob <= 1 - 1e-4 and not law.p_slack:
                again = float(dist.compute_inverse_cdf(back))
                _track(ctx, "max_icdf_cdf_error_rel", abs(again - x) / (law.std + abs(x)))
                ctx.check(abs(again - x) <= 1e-7 * (law.std + abs(x)), "law:icdf_of_cdf", f"{dist!r}: icdf(cdf({x!r})) = {again!r}")
        # cdf at points chosen by the harness (inside, at and beyond the ends of the support)
        points = [law.mean, law.mean - law.std, law.mean + 2 * law.std]
        points += [v for v in (law.lo, law.hi) if math.isfinite(v)]
        for x in points:
            got, ref = float(dist.compute_cdf(x)), law.cdf(x)
            _track(ctx, "max_cdf_error_vs_reference" + ("_transformed" if law.p_slack else ""), abs(got - ref))
            ctx.check(abs(got - ref) <= 1e-9 + law.p_slack, "law:cdf", f"{dist!r}: cdf({x!r}) = {got!r}, reference {ref!r}")
    # ---- samples
    samples = np.asarray(dist.compute_samples(p["n"]), dtype=float)
    ctx.check(samples.shape == (p["n"],), "law:samples", f"{dist!r}: compute_samples({p['n']}) has shape {samples.shape}")
    ctx.check(bool(np.all((samples >= support[0]) & (samples <= support[1]))), "law:samples_in_support",
              f"{dist!r}: sample outside the reported support {support.tolist()}: min {samples.min()}, max {samples.max()}")
    if family == "Dirac":
        ctx.check(bool(np.all(samples == q["v"])), "law:samples", "Dirac samples differ from the value")
        ctx.check(float(dist.compute_cdf(q["v"])) == 1.0 and float(dist.compute_cdf(q["v"] - 1.0)) == 0.0, "law:cdf", "Dirac cdf is not the step at the value")
        ctx.check(float(dist.compute_inverse_cdf(0.3)) == q["v"], "law:icdf_in_support", "Dirac quantile is not the value")
    else:
        dn = kolmogorov(samples, law)
        _track(ctx, "max_kolmogorov_times_sqrt_n", dn * math.sqrt(p["n"]))
        ctx.check(dn < 4.0 / math.sqrt(p["n"]), "law:samples_follow_law", f"{dist!r}: Kolmogorov distance {dn:.4f} of {p['n']} samples")
    # ---- classes
    ctx.cls(f"law:{lib}:{family}" + (":generic" if p["generic"] else ""), f"option:{p['option']['kind']}")
    tails = [pr for pr in p["probs"] if pr < 0.01 or pr > 0.99]
    standard = (law.mean == 0.0 and law.std == 1.0) or (law.lo == 0.0 and law.hi == 1.0)
    if tails:
        ctx.cls("tail_probability")
    if tails and not standard and family != "Dirac":
        ctx.nontriv(("law", family, q, lib, p["generic"], p["option"], p["probs"]))
        ctx.cls("nontrivial")
    ctx.sample({"oracle": "law", "case": p})


# --------------------------------------------------------------------------- oracle: SciPy versus OpenTURNS
def case_cross(p, ctx):
    family, q = p["family"], p["q"]
    law = Law(family, q)
    sp = build_distribution(family, q, "SP", p["generic"])
    ot = build_distribution(family, q, "OT", p["generic"])
    scale = law.std
    for what in ("mean", "standard_deviation"):
        a, b = float(getattr(sp, what)), float(getattr(ot, what))
        _track(ctx, "max_cross_moment_difference_rel_std", abs(a - b) / scale)
        ctx.check(abs(a - b) <= 1e-8 * scale + 8 * EPS * abs(a), "cross:moments", f"{what}: {sp!r} gives {a!r}, {ot!r} gives {b!r}")
    s1, s2 = np.asarray(sp.support, dtype=float), np.asarray(ot.support, dtype=float)
    btol = 8 * EPS * max([1.0] + [abs(v) for v in (law.lo, law.hi) if math.isfinite(v)])
    ctx.check(close(s1[0], s2[0], btol) and close(s1[1], s2[1], btol), "cross:support", f"supports differ: {s1.tolist()} and {s2.tolist()}")
    for prob in p["probs"]:
        x1, x2 = float(sp.compute_inverse_cdf(prob)), float(ot.compute_inverse_cdf(prob))
        if math.isnan(x1) and family == "Beta" and ctx.known("scipy_beta_ppf_nan"):
            continue
        tail = min(prob, 1 - prob)
        # compare quantiles through the probability they stand for (a quantile in a flat tail is ill-conditioned in x)
        c12, c21 = float(sp.compute_cdf(x2)), float(ot.compute_cdf(x1))
        _track(ctx, "max_cross_icdf_difference_in_probability_rel_tail", max(abs(c12 - prob), abs(c21 - prob)) / tail)
        ptol = 1e-8 + 1e-6 * tail + resolution(law, x1) + resolution(law, x2)
        ctx.check(abs(c12 - prob) <= ptol and abs(c21 - prob) <= ptol, "cross:icdf",
                  f"icdf({prob}): {sp!r} gives {x1!r}, {ot!r} gives {x2!r}")
        if 1e-4 <= prob <= 1 - 1e-4:
            _track(ctx, "max_cross_icdf_difference_rel", abs(x1 - x2) / (scale + abs(x1)))
            ctx.check(abs(x1 - x2) <= 1e-7 * (scale + abs(x1)), "cross:icdf", f"icdf({prob}): {sp!r} gives {x1!r}, {ot!r} gives {x2!r}")
        a, b = float(sp.compute_cdf(x1)), float(ot.compute_cdf(x1))
        _track(ctx, "max_cross_cdf_difference", abs(a - b))
        ctx.check(abs(a - b) <= 1e-8 + resolution(law, x1), "cross:cdf", f"cdf({x1!r}): {sp!r} gives {a!r}, {ot!r} gives {b!r}")
    ctx.cls(f"cross:{family}" + (":generic" if p["generic"] else ""))
    if any(pr < 0.01 or pr > 0.99 for pr in p["probs"]):
        ctx.nontriv(("cross", p))
        ctx.cls("nontrivial")
    ctx.sample({"oracle": "cross", "case": p})


# --------------------------------------------------------------------------- oracle: parameter space
def add_to_space(space, lib: str, v: dict) -> list:
    """Add one generated variable to the space; return its reference per component (Law or ("det", lb, ub))."""
    if v["kind"] == "det":
        lb = np.array(v["lb"], dtype=float)
        ub = lb + np.array(v["w"], dtype=float)
        space.add_variable(v["name"], size=v["size"], lower_bound=lb, upper_bound=ub)
        return [("det", float(a), float(b)) for a, b in zip(lb, ub)]
    cls = f"{lib}{v['family']}Distribution"
    kws = [class_kwargs(v["family"], q) for q in v["q"]]
    if v["how"] == "variable":
        space.add_random_variable(v["name"], cls, size=v["size"], **kws[0])
    else:
        # "vector": one value per component and the size deduced; "vector_shared": [p] repeated over the given size
        space.add_random_vector(v["name"], cls, size=v["size"] if v["how"] == "vector_shared" else 0, **{k: [kw[k] for kw in kws] for k in kws[0]})
    return [Law(v["family"], v["q"][i if v["how"] == "vector" else 0]) for i in range(v["size"])]


def build_space(p):
    from gemseo.algos.parameter_space import ParameterSpace

    space = ParameterSpace()
    laws = []  # one list per variable, in the order of the variables
    for v in p["variables"]:
        laws.append(add_to_space(space, p["lib"], v))
    return space, laws


def check_space_state(p, ctx, space, variables, laws_per_variable, U, n, where: str):
    """Layout, transform/untransform and sampling oracles of a space against its reference.

    Returns (samples, random names, sizes, column starts), or None when a known finding excludes the case.
    """
    laws = [law for group in laws_per_variable for law in group]
    d = len(laws)
    names = [v["name"] for v in variables]
    ctx.check(list(space.variable_names) == names and space.dimension == d, "space:layout", f"{where}: variables {space.variable_names} of dimension {space.dimension}, expected {names} of dimension {d}")
    random_names = [v["name"] for v in variables if v["kind"] == "random"]
    ctx.check(list(space.uncertain_variables) == random_names, "space:layout", f"{where}: uncertain variables {space.uncertain_variables}, expected {random_names}")
    X = np.empty_like(U)
    for r, u in enumerate(U):
        x = space.untransform_vect(u.copy())
        ctx.check(isinstance(x, np.ndarray) and x.shape == (d,), "space:untransform", f"{where}: untransform_vect returns shape {getattr(x, 'shape', None)}")
        if p["lib"] == "SP" and any(math.isnan(x[c]) and not isinstance(law, tuple) and law.family == "Beta" for c, law in enumerate(laws)) \
                and ctx.known("scipy_beta_ppf_nan"):
            return None
        X[r] = x
        for c, law in enumerate(laws):
            if isinstance(law, tuple):
                _, lb, ub = law
                expected = lb + u[c] * (ub - lb)
                ctx.check(abs(x[c] - expected) <= 4 * EPS * max(1.0, abs(lb), abs(ub)), "space:deterministic_affine",
                          f"{where}: deterministic component {c}: untransform({u[c]}) = {x[c]!r}, affine map gives {expected!r}")
            else:
                back = law.cdf(x[c])
                tail = min(u[c], 1 - u[c])
                ctx.check(abs(back - u[c]) <= 1e-9 + 1e-6 * tail + resolution(law, x[c]), "space:untransform_is_icdf",
                          f"{where}: random component {c} ({law.family} {law.q}): untransform({u[c]}) = {x[c]!r} whose reference cdf is {back!r}")
        # and back
        t = space.transform_vect(x.copy())
        ctx.check(t.shape == (d,), "space:transform", f"{where}: transform_vect returns shape {t.shape}")
        for c, law in enumerate(laws):
            tail = min(u[c], 1 - u[c])
            if isinstance(law, tuple):
                tol = 4 * EPS * max(1.0, abs(law[1]), abs(law[2])) / (law[2] - law[1]) + 4 * EPS
            else:
                tol = 1e-9 + 1e-6 * tail + resolution(law, x[c])
            ctx.check(abs(t[c] - u[c]) <= tol, "space:round_trip", f"{where}: component {c}: transform(untransform({u[c]})) = {t[c]!r}")
            if not isinstance(law, tuple):
                ctx.check(abs(t[c] - law.cdf(x[c])) <= 1e-9, "space:transform_is_cdf", f"{where}: random component {c}: transform({x[c]!r}) = {t[c]!r}, reference cdf {law.cdf(x[c])!r}")
        if all(1e-4 <= v <= 1 - 1e-4 for v in u):
            x2 = space.untransform_vect(t.copy())
            for c, law in enumerate(laws):
                s = (law[2] - law[1]) if isinstance(law, tuple) else law.std
                ctx.check(abs(x2[c] - x[c]) <= 1e-7 * (s + abs(x[c])), "space:round_trip", f"{where}: component {c}: untransform(transform({x[c]!r})) = {x2[c]!r}")
    # 2-D input
    X2 = space.untransform_vect(U.copy())
    ctx.check(X2.shape == U.shape and bool(np.array_equal(X2, X)), "space:2d_equals_1d", f"{where}: untransform_vect of a 2-D array differs from the row-wise results", rows=X2, expected=X)
    T2 = space.transform_vect(X.copy())
    T1 = np.array([space.transform_vect(x.copy()) for x in X])
    ctx.check(T2.shape == U.shape and bool(np.array_equal(T2, T1)), "space:2d_equals_1d", f"{where}: transform_vect of a 2-D array differs from the row-wise results")
    # ---- reported supports of the random variables
    for v, group in zip(variables, laws_per_variable):
        if v["kind"] == "random":
            support = np.asarray(space.get_support(v["name"]), dtype=float)
            ctx.check(support.shape == (v["size"], 2), "space:support", f"{where}: get_support({v['name']}) has shape {support.shape}")
            for i, law in enumerate(group):
                btol = 8 * EPS * max([1.0] + [abs(e) for e in (law.lo, law.hi) if math.isfinite(e)])
                ctx.check(close(support[i, 0], law.lo, btol) and close(support[i, 1], law.hi, btol), "space:support",
                          f"{where}: support of {v['name']}[{i}] is {support[i].tolist()}, analytical [{law.lo}, {law.hi}]")
    # ---- samples: one column per random component, in the order of the uncertain variables
    random_laws = [law for law in laws if not isinstance(law, tuple)]
    sizes = {v["name"]: v["size"] for v in variables if v["kind"] == "random"}
    start, offset = {}, 0
    for name in random_names:
        start[name] = offset
        offset += sizes[name]
    if not random_laws:
        return None, random_names, sizes, start
    # the joint distribution lists the marginals in the order of the uncertain variables
    joint = space.distribution
    jm, js = np.asarray(joint.mean, dtype=float).ravel(), np.asarray(joint.standard_deviation, dtype=float).ravel()
    jsup = np.asarray(joint.support, dtype=float)
    ctx.check(jm.shape == (len(random_laws),) and js.shape == jm.shape and jsup.shape == (len(random_laws), 2), "space:joint",
              f"{where}: joint distribution of dimension {jm.shape}, {len(random_laws)} random components")
    for c, law in enumerate(random_laws):
        name = next(nm for nm in random_names if start[nm] <= c < start[nm] + sizes[nm])
        mtol = 1e-9 * law.std + 8 * EPS * abs(law.mean)
        btol = 8 * EPS * max([1.0] + [abs(e) for e in (law.lo, law.hi) if math.isfinite(e)])
        ctx.check(abs(jm[c] - law.mean) <= mtol and abs(js[c] - law.std) <= mtol, "space:joint",
                  f"{where}: component {c} of the joint distribution ({name}) has mean {jm[c]!r} and std {js[c]!r}; the law of {name} has {law.mean!r} and {law.std!r}")
        ctx.check(close(jsup[c, 0], law.lo, btol) and close(jsup[c, 1], law.hi, btol), "space:joint",
                  f"{where}: component {c} of the joint distribution ({name}) has support {jsup[c].tolist()}, the law of {name} [{law.lo}, {law.hi}]")
    samples = np.asarray(space.compute_samples(n), dtype=float)
    ctx.check(samples.shape == (n, len(random_laws)), "space:samples", f"{where}: compute_samples({n}) has shape {samples.shape}, expected {(n, len(random_laws))}")
    for c, law in enumerate(random_laws):
        col = samples[:, c]
        ctx.check(bool(np.all((col >= law.lo) & (col <= law.hi))), "space:samples_in_support", f"{where}: column {c}: sample outside the support [{law.lo}, {law.hi}]")
        dn = kolmogorov(col, law)
        _track(ctx, "max_kolmogorov_times_sqrt_n", dn * math.sqrt(n))
        ctx.check(dn < 4.0 / math.sqrt(n), "space:samples_follow_law", f"{where}: column {c} ({law.family} {law.q}): Kolmogorov distance {dn:.4f} of {n} samples")
    as_dict = space.compute_samples(3, as_dict=True)
    ctx.check(len(as_dict) == 3, "space:samples", f"{where}: compute_samples(3, as_dict=True) has {len(as_dict)} items")
    for item in as_dict:
        ctx.check(sorted(item) == sorted(random_names), "space:samples", f"{where}: as_dict sample has keys {sorted(item)}")
        for name in random_names:
            value = np.asarray(item[name], dtype=float)
            ctx.check(value.shape == (sizes[name],), "space:samples", f"{where}: as_dict sample of {name} has shape {value.shape}")
            for i, v in enumerate(value):
                law = random_laws[start[name] + i]
                ctx.check(law.lo <= v <= law.hi, "space:samples_in_support", f"{where}: as_dict sample of {name}[{i}] = {v} outside [{law.lo}, {law.hi}]")
    return samples, random_names, sizes, start


def apply_edit(p, space, variables, laws, U, edit):
    """Apply one edit to the real space and to the reference; returns (space, variables, laws, U, label) or None."""
    op, n_vars = edit["op"], len(variables)
    widths = [v["size"] for v in variables]
    offsets = np.concatenate([[0], np.cumsum(widths)]).astype(int)

    def columns(keep):
        idx = [c for i in keep for c in range(offsets[i], offsets[i + 1])]
        return U[:, idx]

    if op == "remove" and n_vars >= 2:
        gone = edit["var"] % n_vars
        space.remove_variable(variables[gone]["name"])
        keep = [i for i in range(n_vars) if i != gone]
        return space, [variables[i] for i in keep], [laws[i] for i in keep], columns(keep), f"remove_variable({variables[gone]['name']})"
    if op in ("filter", "filter_copy") and n_vars >= 2:
        keep = [i for i in range(n_vars) if edit["keep"][i % len(edit["keep"])]]
        if not keep or len(keep) == n_vars:
            keep = [i for i in range(n_vars) if i != edit["var"] % n_vars]
        kept_names = [variables[i]["name"] for i in keep]
        out = space.filter(kept_names, copy=op == "filter_copy")
        return out, [variables[i] for i in keep], [laws[i] for i in keep], columns(keep), f"filter({kept_names}, copy={op == 'filter_copy'})"
    if op in ("add", "add_det"):
        v = edit["new"]
        if any(w["name"] == v["name"] for w in variables):
            return None
        new_laws = add_to_space(space, p["lib"], v)
        extra = np.array([[edit["u_new"][(r + i) % len(edit["u_new"])] for i in range(v["size"])] for r in range(U.shape[0])], dtype=float)
        return space, [*variables, v], [*laws, new_laws], np.hstack([U, extra]), f"adding the {'random' if v['kind'] == 'random' else 'deterministic'} variable {v['name']}"
    if op == "rename":
        i = edit["var"] % n_vars
        old = variables[i]["name"]
        new = old + "_r"
        if any(w["name"] == new for w in variables):
            return None
        space.rename_variable(old, new)
        renamed = [dict(v, name=new) if j == i else v for j, v in enumerate(variables)]
        return space, renamed, laws, U, f"rename_variable({old}, {new})"
    if op == "rebuild" and any(v["kind"] == "random" for v in variables):
        space.build_joint_distribution()
        return space, variables, laws, U, "build_joint_distribution()"
    return None


def apply_rejected(p, ctx, space, variables, edit) -> str:
    """Run an operation that must be rejected; the reference is left unchanged."""
    lib, why = p["lib"], edit["why"]
    cls = f"{lib}{edit['family']}Distribution"
    kwargs = class_kwargs(edit["family"], edit["q"])
    target = variables[edit["var"] % len(variables)]["name"]
    expected = ValueError
    try:
        if why == "existing_name":
            label = f"rejected add_random_variable({target}) (existing name)"
            space.add_random_variable(target, cls, **kwargs)
        elif why == "unknown_distribution":
            label, expected = "rejected add_random_variable with an unknown distribution class", (ImportError, ValueError)
            space.add_random_variable("w_rejected", f"{lib}NoSuchLawDistribution")
        elif why == "mixed_library":
            label = "rejected add_random_variable mixing the SciPy and OpenTURNS families"
            space.add_random_variable("w_rejected", f"{'OT' if lib == 'SP' else 'SP'}{edit['family']}Distribution", **kwargs)
        else:
            label = "rejected add_random_vector with parameter collections of inconsistent lengths"
            first = next(iter(kwargs))
            space.add_random_vector("w_rejected", cls, **{k: [v] * (3 if k == first else 2) for k, v in kwargs.items()})
    except expected:
        ctx.cls(f"rejected:{why}")
        return label
    ctx.fail("space:rejection", f"{label}: no documented error was raised")


def kendall_tau(x: np.ndarray, y: np.ndarray) -> float:
    dx = np.sign(x[:, None] - x[None, :])
    dy = np.sign(y[:, None] - y[None, :])
    n = x.size
    return float((dx * dy).sum() / (n * (n - 1)))


def set_copula(p, ctx, space, variables, laws):
    """build_joint_distribution(copula) on the current space; returns {"tau", "kind"} or None when not applicable."""
    import openturns

    d = sum(len(group) for v, group in zip(variables, laws) if v["kind"] == "random")
    spec = p.get("copula")
    if spec is None or p["lib"] != "OT" or d < 2:
        return None
    if spec["kind"] == "clayton" and d == 2:
        copula, tau, kind = openturns.ClaytonCopula(spec["theta"]), spec["theta"] / (spec["theta"] + 2.0), "clayton"
    else:
        rho = spec.get("rho", 0.9)
        matrix = openturns.CorrelationMatrix(d)
        matrix[0, 1] = rho
        copula, tau, kind = openturns.NormalCopula(matrix), 2.0 / math.pi * math.asin(rho), "normal"
    space.build_joint_distribution(copula)
    ctx.cls(f"copula:{kind}")
    return {"tau": tau, "kind": kind}


def check_dependence(p, ctx, space, variables, laws, state, where: str):
    """Marginals unchanged and Kendall's tau of the first two random components as the reference copula says."""
    random_laws = [law for v, group in zip(variables, laws) if v["kind"] == "random" for law in group]
    d = len(random_laws)
    if d < 2:
        return
    n = p["n_copula"]
    samples = np.asarray(space.compute_samples(n), dtype=float)
    ctx.check(samples.shape == (n, d), "space:copula", f"{where}: compute_samples({n}) has shape {samples.shape}, expected {(n, d)}")
    for c, law in enumerate(random_laws):
        col = samples[:, c]
        ctx.check(bool(np.all((col >= law.lo) & (col <= law.hi))), "space:copula", f"{where}: column {c}: sample outside the support [{law.lo}, {law.hi}]")
        dn = kolmogorov(col, law)
        ctx.check(dn < 4.0 / math.sqrt(n), "space:copula", f"{where}: column {c} ({law.family} {law.q}) no longer follows its marginal law: Kolmogorov distance {dn:.4f}")
    # Kendall's tau is a U-statistic with a kernel in [-1, 1]: Hoeffding gives P(|tau_n - tau| >= t) <= 2 exp(-floor(n/2) t^2 / 2),
    # below 1e-9 for t = sqrt(2 ln(2e9) / floor(n/2)), whatever the marginal laws
    band = math.sqrt(2.0 * math.log(2e9) / (n // 2))
    got = kendall_tau(samples[:, 0], samples[:, 1])
    _track(ctx, "max_kendall_error_over_band", abs(got - state["tau"]) / band)
    ctx.check(abs(got - state["tau"]) <= band, "space:copula",
              f"{where}: Kendall's tau of the first two random components is {got:.3f}; the reference ({state['kind']}) has {state['tau']:.3f} (band {band:.3f}, {n} samples)")


def case_space(p, ctx):
    reseed(p["rng"])
    space, laws = build_space(p)
    variables = p["variables"]
    U = np.array(p["u"], dtype=float)
    state = check_space_state(p, ctx, space, variables, laws, U, p["n"], "initial space")
    if state is None:
        return
    samples, random_names, sizes, start = state
    # ---- empirical statistics on these samples
    check_statistics(p, ctx, samples, random_names, sizes, start)
    # ---- a drawn history of edits; after each one the same oracles against the edited reference
    edits = p.get("edits") or ([p["edit"]] if p.get("edit", {}).get("op", "none") != "none" else [])
    label, renamed_before = "", False
    # the copula is set either before the edits (it must survive those that do not rebuild the joint law) or after them
    dependence = set_copula(p, ctx, space, variables, laws) if p.get("copula_first") else None
    if dependence:
        check_dependence(p, ctx, space, variables, laws, dependence, "with a copula")
    for edit in edits:
        randoms = [v["name"] for v in variables if v["kind"] == "random"]
        n_random_before = len(randoms)
        target = variables[edit["var"] % len(variables)]["name"]
        if edit["op"] == "rejected":
            step, rebuilt = apply_rejected(p, ctx, space, variables, edit), False
        else:
            edited = apply_edit(p, space, variables, laws, U, edit)
            if edited is None:
                continue
            space, variables, laws, U, step = edited
            now = [v["name"] for v in variables if v["kind"] == "random"]
            # adding or removing a random variable and build_joint_distribution() rebuild the joint law with the independent copula;
            # renaming, deterministic variables and rejected operations do not touch it
            rebuilt = edit["op"] == "rebuild" or (edit["op"] != "rename" and now != randoms)
        label = (label + "; " if label else "after ") + step
        if check_space_state(p, ctx, space, variables, laws, U, 50, label) is None:
            return
        ctx.cls(f"edit:{edit['op']}")
        n_random = sum(v["kind"] == "random" for v in variables)
        if dependence:
            if rebuilt and dependence["kind"] != "independent":
                dependence = {"tau": 0.0, "kind": "independent"}
            elif not rebuilt and dependence["kind"] != "independent":
                ctx.cls(f"copula_kept_through:{edit['op']}")
            check_dependence(p, ctx, space, variables, laws, dependence, label)
        if n_random < n_random_before and n_random:
            ctx.cls("edit_removes_a_random_variable_among_several")
        if renamed_before and edit["op"] in ("add", "remove", "filter", "filter_copy", "rebuild") and n_random >= 2:
            ctx.cls("joint_rebuilt_after_renaming_a_random_variable")
        if edit["op"] == "rename" and target in randoms[:-1]:
            renamed_before = True  # the renamed random variable keeps its rank but its dictionary entry moves last
    if not p.get("copula_first"):
        if renamed_before and p.get("copula") and p["lib"] == "OT" and sum(v["kind"] == "random" for v in variables) >= 2:
            ctx.cls("joint_rebuilt_after_renaming_a_random_variable")
        dependence = set_copula(p, ctx, space, variables, laws)
        if dependence:
            check_dependence(p, ctx, space, variables, laws, dependence, (label or "initial space") + "; with a copula")
    d = sum(len(g) for g in laws)
    kinds = {v["kind"] for v in p["variables"]}
    ctx.cls(f"space:{p['lib']}", f"space_dim:{d}")
    for v in p["variables"]:
        if v["kind"] == "random":
            ctx.cls(f"space_family:{v['family']}", f"space_how:{v['how']}")
    if len(kinds) == 2:
        ctx.cls("mixed_random_deterministic", "nontrivial")
        ctx.nontriv(("space", p["lib"], p["variables"], p["u"], edits, p.get("copula")))
        if p["variables"][0]["kind"] == "det":
            ctx.cls("deterministic_variable_first")
    if any(v["size"] > 1 for v in p["variables"] if v["kind"] == "random"):
        ctx.cls("random_vector_size>1")
    ctx.sample({"oracle": "space", "case": p})


def check_statistics(p, ctx, samples, names, sizes, start):
    from gemseo.datasets.dataset import Dataset
    from gemseo.uncertainty.statistics.empirical_statistics import EmpiricalStatistics

    dataset = Dataset.from_array(samples, variable_names=list(names), variable_names_to_n_components=dict(sizes))
    stats = EmpiricalStatistics(dataset)
    n = samples.shape[0]
    cols = {name: samples[:, start[name] : start[name] + sizes[name]] for name in names}

    def compare(got, expected, what, rel=1e-12):
        ctx.check(sorted(got) == sorted(names), "space:statistics", f"{what}: keys {sorted(got)}")
        for name in names:
            g, e = np.asarray(got[name], dtype=float).ravel(), np.asarray(expected[name], dtype=float).ravel()
            ctx.check(g.shape == e.shape, "space:statistics", f"{what}[{name}] has shape {g.shape}, expected {e.shape}")
            # the same numbers summed in possibly another order: 1e-12 relative to the magnitude of the data
            tol = rel * (np.max(np.abs(cols[name])) ** (2 if what.startswith("variance") else 1) + 1e-300)
            ctx.check(bool(np.all(np.abs(g - e) <= tol)), "space:statistics", f"{what}[{name}] = {g.tolist()}, numpy gives {e.tolist()}")

    compare(stats.compute_mean(), {k: v.sum(0) / n for k, v in cols.items()}, "mean")
    compare(stats.compute_minimum(), {k: v.min(0) for k, v in cols.items()}, "minimum", 0.0)
    compare(stats.compute_maximum(), {k: v.max(0) for k, v in cols.items()}, "maximum", 0.0)
    compare(stats.compute_range(), {k: v.max(0) - v.min(0) for k, v in cols.items()}, "range", 4 * EPS)
    var = stats.compute_variance()
    std = stats.compute_standard_deviation()
    for name in names:
        centred = cols[name] - cols[name].sum(0) / n
        ss = (centred**2).sum(0)
        g = np.asarray(var[name], dtype=float).ravel()
        ctx.check(g.shape == ss.shape and bool(np.all((np.abs(g - ss / n) <= 1e-10 * ss / n + 1e-300) | (np.abs(g - ss / (n - 1)) <= 1e-10 * ss / n + 1e-300))),
                  "space:statistics", f"variance[{name}] = {g.tolist()}, sum of squares / n = {(ss / n).tolist()}")
        s = np.asarray(std[name], dtype=float).ravel()
        ctx.check(s.shape == g.shape and bool(np.all(np.abs(s * s - g) <= 1e-10 * g + 1e-300)), "space:statistics", f"standard deviation[{name}]^2 = {(s * s).tolist()}, variance {g.tolist()}")
    # central moments mean((x - mean)^k): order 2 is the population variance
    for order in (2, 3, 4):
        got = stats.compute_moment(order)
        ctx.check(sorted(got) == sorted(names), "space:statistics", f"moment({order}): keys {sorted(got)}")
        for name in names:
            centred = cols[name] - cols[name].sum(0) / n
            expected = (centred**order).sum(0) / n
            g = np.asarray(got[name], dtype=float).ravel()
            # same data, another summation order: 1e-10 relative to the largest term
            tol = 1e-10 * np.max(np.abs(centred), axis=0) ** order + 1e-300
            ctx.check(g.shape == expected.shape and bool(np.all(np.abs(g - expected) <= tol)), "space:statistics",
                      f"moment({order})[{name}] = {g.tolist()}, mean((x-mean)^{order}) = {expected.tolist()}")
    prob = p["prob"]
    quant = stats.compute_quantile(prob)
    for name in names:
        g = np.asarray(quant[name], dtype=float).ravel()
        ctx.check(g.shape == (sizes[name],), "space:statistics", f"quantile[{name}] has shape {g.shape}")
        for i in range(sizes[name]):
            srt = np.sort(cols[name][:, i])
            lo, hi = srt[max(0, math.floor(n * prob) - 1)], srt[min(n - 1, math.ceil(n * prob))]
            ctx.check(lo <= g[i] <= hi, "space:statistics", f"quantile({prob})[{name}][{i}] = {g[i]!r} outside the neighbouring order statistics [{lo!r}, {hi!r}]")
            ctx.cls("quantile_equals_numpy_default" if g[i] == np.quantile(cols[name][:, i], prob) else "quantile_other_definition")
    thresh = {name: np.asarray(quant[name], dtype=float).ravel() for name in names}
    for greater in (True, False):
        got = stats.compute_probability(thresh, greater=greater)
        expected = {k: ((v >= thresh[k]) if greater else (v <= thresh[k])).sum(0) / n for k, v in cols.items()}
        compare(got, expected, f"probability(greater={greater})", 4 * EPS)


# --------------------------------------------------------------------------- oracle: parametric statistics
GENERATORS = ["Normal", "Uniform", "Exponential", "Logistic", "Gumbel", "Gamma", "Triangular", "Weibull"]
SKEWED = {"Exponential", "Gamma", "Weibull"}
FITTED = ["Normal", "Uniform", "Exponential", "Logistic", "Gumbel"]
Z_VALUES = [-1.5, -0.5, 0.0, 0.3, 1.0, 2.0, -0.1, 0.7]


@st.composite
def parametric_cases(draw):
    n_vars = draw(st.integers(1, 3))
    names = draw(st.lists(st.sampled_from(NAMES), min_size=n_vars, max_size=n_vars, unique=True))
    variables = []
    generators = sorted(SKEWED) if draw(st.integers(0, 3)) == 0 else GENERATORS  # skewed data admit the Gamma candidate
    for name in names:
        size = draw(st.integers(1, 3))
        comps = [{"gen": draw(st.sampled_from(generators)), "loc": draw(LOC), "scale": draw(SCALE), "shape": draw(st.sampled_from([1.0, 1.5, 2.0, 3.5]))} for _ in range(size)]
        variables.append({"name": name, "size": size, "components": comps, "z": draw(st.lists(st.sampled_from(Z_VALUES), min_size=size, max_size=size, unique=True))})
    pool = list(FITTED)
    if all(c["gen"] in SKEWED for v in variables for c in v["components"]):
        pool.append("Gamma")  # the three-parameter Gamma fit is well conditioned on skewed data only
    candidates = draw(st.lists(st.sampled_from(pool), min_size=1, max_size=3, unique=True))
    return {
        "variables": variables, "candidates": candidates, "selection": draw(st.sampled_from(["best", "best", "first"])),
        "n": draw(st.integers(30, 200)), "prob": draw(st.sampled_from([0.5, 0.1, 0.25, 0.9, 0.05, 0.99, 0.001])),
        "scalar_z": draw(st.sampled_from(Z_VALUES)), "rng": draw(st.integers(0, 2**31 - 2)),
    }


def generate_data(p) -> np.ndarray:
    """Columns drawn from the generating laws with a private RandomState (the oracles are identities of the FITTED law)."""
    rs = np.random.RandomState(p["rng"] % (2**32))
    n, cols = p["n"], []
    for v in p["variables"]:
        for c in v["components"]:
            g, k = c["gen"], c["shape"]
            base = {
                "Normal": lambda: rs.standard_normal(n), "Uniform": lambda: rs.random_sample(n), "Exponential": lambda: rs.standard_exponential(n),
                "Logistic": lambda: rs.logistic(size=n), "Gumbel": lambda: rs.gumbel(size=n), "Gamma": lambda: rs.standard_gamma(k, n),
                "Triangular": lambda: rs.triangular(0.0, 0.3, 1.0, n), "Weibull": lambda: rs.weibull(k, n),
            }[g]()
            cols.append(c["loc"] + c["scale"] * base)
    return np.column_stack(cols)


def fitted_law(name: str, parameters) -> Law:
    """The closed-form law of a fitted OpenTURNS distribution from its native parameters."""
    q = [float(v) for v in parameters]
    if name == "Normal":
        return Law("Normal", {"mu": q[0], "sigma": q[1]})
    if name == "Uniform":
        return Law("Uniform", {"a": q[0], "w": q[1] - q[0]})
    if name == "Exponential":
        return Law("Exponential", {"rate": q[0], "loc": q[1]})
    if name == "Logistic":
        return Law("Logistic", {"mu": q[0], "scale": q[1]})
    if name == "Gumbel":
        return Law("Gumbel", {"scale": q[0], "loc": q[1]})
    if name == "Gamma":
        return Law("Gamma", {"shape": q[0], "scale": 1.0 / q[1], "loc": q[2]})
    raise AssertionError(name)


def case_parametric(p, ctx):
    from gemseo.datasets.dataset import Dataset
    from gemseo.uncertainty.statistics.empirical_statistics import EmpiricalStatistics
    from gemseo.uncertainty.statistics.parametric_statistics import ParametricStatistics

    reseed(p["rng"])
    data = generate_data(p)
    names = [v["name"] for v in p["variables"]]
    sizes = {v["name"]: v["size"] for v in p["variables"]}
    dataset = Dataset.from_array(data, variable_names=names, variable_names_to_n_components=sizes)
    stats = ParametricStatistics(dataset, list(p["candidates"]), selection_criterion=p["selection"])
    empirical = EmpiricalStatistics(dataset)
    # ---- the fitted laws, read from the object
    laws, cols, offset = {}, {}, 0
    for v in p["variables"]:
        entry = stats.distributions[v["name"]]
        entries = entry if isinstance(entry, list) else [entry]
        ctx.check(len(entries) == v["size"], "parametric:layout", f"{len(entries)} marginal distributions for {v['name']} of size {v['size']}")
        group = []
        for e in entries:
            ctx.check(e.name in p["candidates"], "parametric:layout", f"selected distribution {e.name} is not a candidate {p['candidates']}")
            group.append(fitted_law(e.name, e.value.distribution.getParameter()))
            ctx.cls(f"fitted:{e.name}")
        laws[v["name"]] = group
        cols[v["name"]] = data[:, offset : offset + v["size"]]
        offset += v["size"]

    def per_component(got, what):
        ctx.check(sorted(got) == sorted(names), "parametric:layout", f"{what}: keys {sorted(got)}")
        out = {}
        for name in names:
            g = np.asarray(got[name], dtype=float).ravel()
            ctx.check(g.shape == (sizes[name],), "parametric:layout", f"{what}[{name}] has shape {g.shape}, expected ({sizes[name]},)")
            out[name] = g
        return out

    mean, var, std = per_component(stats.compute_mean(), "mean"), per_component(stats.compute_variance(), "variance"), per_component(stats.compute_standard_deviation(), "standard deviation")
    low, high, rng = per_component(stats.compute_minimum(), "minimum"), per_component(stats.compute_maximum(), "maximum"), per_component(stats.compute_range(), "range")
    prob = p["prob"]
    quant = per_component(stats.compute_quantile(prob), "quantile")
    for name in names:
        for i, law in enumerate(laws[name]):
            mtol = 1e-9 * law.std + 64 * EPS * (abs(law.mean) + abs(law.lo if math.isfinite(law.lo) else 0.0))
            where = f"{name}[{i}] fitted {law.family} {law.q}"
            ctx.check(abs(mean[name][i] - law.mean) <= mtol, "parametric:moments", f"{where}: mean {mean[name][i]!r}, closed form {law.mean!r}")
            ctx.check(abs(std[name][i] - law.std) <= mtol, "parametric:moments", f"{where}: standard deviation {std[name][i]!r}, closed form {law.std!r}")
            ctx.check(abs(var[name][i] - law.std**2) <= 2 * mtol * law.std + 1e-300, "parametric:moments", f"{where}: variance {var[name][i]!r}, closed form {law.std**2!r}")
            btol = 8 * EPS * max([1.0] + [abs(e) for e in (law.lo, law.hi) if math.isfinite(e)])
            ctx.check(close(low[name][i], law.lo, btol) and close(high[name][i], law.hi, btol), "parametric:bounds",
                      f"{where}: minimum/maximum {low[name][i]!r}/{high[name][i]!r}, support [{law.lo}, {law.hi}]")
            ctx.check(close(rng[name][i], law.hi - law.lo, 2 * btol), "parametric:bounds", f"{where}: range {rng[name][i]!r}, support [{law.lo}, {law.hi}]")
            back = law.cdf(quant[name][i])
            ctx.check(abs(back - prob) <= 1e-9 + 1e-6 * min(prob, 1 - prob) + resolution(law, quant[name][i]), "parametric:quantile",
                      f"{where}: quantile({prob}) = {quant[name][i]!r} whose reference cdf is {back!r}")
    # ---- probabilities: one threshold per component, a float, a length-1 array
    per_comp = {v["name"]: np.array([law.mean + z * law.std for law, z in zip(laws[v["name"]], v["z"])]) for v in p["variables"]}
    first = {name: float(laws[name][0].mean + p["scalar_z"] * laws[name][0].std) for name in names}
    forms = {"per_component": per_comp, "float": first, "length_1": {k: np.array([t]) for k, t in first.items()}, "own_quantile": quant}
    for form, thresh in forms.items():
        for greater in (True, False):
            got = per_component(stats.compute_probability(thresh, greater=greater), "probability")
            emp = empirical.compute_probability(thresh, greater=greater)
            for name in names:
                ts = np.broadcast_to(np.asarray(thresh[name], dtype=float).ravel(), (sizes[name],)) if np.size(thresh[name]) == 1 else np.asarray(thresh[name], dtype=float)
                for i, law in enumerate(laws[name]):
                    f = law.cdf(ts[i])
                    expected = 1.0 - f if greater else f
                    where = f"P[{name}[{i}] {'>=' if greater else '<='} {ts[i]!r}] ({form} thresholds, fitted {law.family} {law.q})"
                    ctx.check(abs(got[name][i] - expected) <= 1e-9 + resolution(law, ts[i]), "parametric:probability", f"{where} = {got[name][i]!r}, closed form {expected!r}")
                    if form == "own_quantile":
                        target = 1.0 - prob if greater else prob
                        ctx.check(abs(got[name][i] - target) <= 1e-9 + 1e-6 * min(prob, 1 - prob) + resolution(law, ts[i]), "parametric:probability_of_quantile",
                                  f"{where} = {got[name][i]!r}, expected {target!r}")
                    # |F_fitted(t) - F_n(t)| <= sup_x |F_fitted(x) - F_n(x)| by definition: a deterministic bound
                    dn = kolmogorov(cols[name][:, i], law)
                    e = float(np.asarray(emp[name], dtype=float).ravel()[i])
                    ctx.check(abs(got[name][i] - e) <= dn + 1e-9, "parametric:agrees_with_empirical",
                              f"{where} = {got[name][i]!r}, empirical {e!r}, Kolmogorov distance of the fit {dn!r}")
    if any(s > 1 for s in sizes.values()):
        ctx.cls("parametric_variable_size>1", "nontrivial")
        ctx.nontriv(("parametric", p["variables"], p["candidates"], p["selection"], p["prob"]))
    ctx.cls(f"parametric_candidates:{len(p['candidates'])}")
    ctx.sample({"oracle": "parametric", "case": p})


# --------------------------------------------------------------------------- oracle: selection of the fitted law
GRID_FAMILIES = ["Normal", "Uniform", "Exponential", "Logistic", "Gumbel"]


@st.composite
def selection_cases(draw):
    size = draw(st.integers(1, 2))
    pick = lambda options: options[draw(st.integers(0, 2**16)) % len(options)]  # noqa: E731  (evenly, see C14)
    gen = pick(GRID_FAMILIES)
    comps = [{"gen": gen if (i == 0 or draw(st.booleans())) else pick(GRID_FAMILIES), "loc": draw(LOC), "scale": draw(SCALE)} for i in range(size)]
    if draw(st.integers(0, 2)) > 0:
        # clearly unsuitable families listed before the generating one (the oracle recomputes every verdict itself)
        wrong = {"Normal": ["Uniform", "Exponential"], "Uniform": ["Exponential", "Gumbel"], "Exponential": ["Normal", "Uniform", "Logistic", "Gumbel"],
                 "Logistic": ["Uniform", "Exponential"], "Gumbel": ["Uniform", "Exponential"]}[gen]
        first = pick(wrong)
        candidates = [first, gen] if draw(st.booleans()) else [first, pick([w for w in wrong if w != first]), gen]
    else:
        candidates = draw(st.permutations(GRID_FAMILIES))[: draw(st.integers(2, 3))]
    return {
        "components": comps, "candidates": candidates, "selection": draw(st.sampled_from(["first", "first", "best"])),
        "n": draw(st.integers(200, 400)), "rng": draw(st.integers(0, 2**31 - 2)),
    }


def grid_sample(gen: str, loc: float, scale: float, n: int) -> np.ndarray:
    """The n mid-point quantiles of the generating law: a sample that its own family fits almost perfectly."""
    from scipy.special import ndtri

    prob = (np.arange(n) + 0.5) / n
    z = {"Normal": lambda: ndtri(prob), "Uniform": lambda: prob, "Exponential": lambda: -np.log1p(-prob),
         "Logistic": lambda: np.log(prob / (1 - prob)), "Gumbel": lambda: -np.log(-np.log(prob))}[gen]()
    return loc + scale * z


def kolmogorov_p_value(dn: float, n: int) -> float:
    """Asymptotic Kolmogorov p-value with Stephens' finite-n correction (used with wide margins only)."""
    lam = (math.sqrt(n) + 0.12 + 0.11 / math.sqrt(n)) * dn
    if lam < 0.2:
        return 1.0
    return max(0.0, min(1.0, 2.0 * sum((-1) ** (k - 1) * math.exp(-2.0 * k * k * lam * lam) for k in range(1, 101))))


def case_selection(p, ctx):
    """Documented selection criteria of ParametricStatistics with a significance test (Kolmogorov, level 0.05).

    'first' = the first candidate whose p-value is above the level; 'best' = the candidate optimising the criterion.
    Only decided cases are asserted: a candidate counts as rejected when the p-value recomputed here is below level/20
    and as accepted when it is above 0.5 (ten times the level).
    """
    from gemseo.datasets.dataset import Dataset
    from gemseo.uncertainty.statistics.parametric_statistics import ParametricStatistics

    reseed(p["rng"])
    n, level = p["n"], 0.05
    data = np.column_stack([grid_sample(c["gen"], c["loc"], c["scale"], n) for c in p["components"]])
    size = data.shape[1]
    dataset = Dataset.from_array(data, variable_names=["y"], variable_names_to_n_components={"y": size})
    # harness p-value of every candidate for every component, from its own fit (a single-candidate object) and the reference cdf
    verdict = {}
    for cand in p["candidates"]:
        entry = ParametricStatistics(dataset, [cand]).distributions["y"]
        entries = entry if isinstance(entry, list) else [entry]
        for i, e in enumerate(entries):
            law = fitted_law(e.name, e.value.distribution.getParameter())
            pv = kolmogorov_p_value(kolmogorov(data[:, i], law), n)
            verdict[cand, i] = "rejected" if pv < level / 20 else "accepted" if pv > 0.5 else "undecided"
    stats = ParametricStatistics(dataset, list(p["candidates"]), fitting_criterion="Kolmogorov", level=level, selection_criterion=p["selection"])
    entry = stats.distributions["y"]
    selected = [e.name for e in (entry if isinstance(entry, list) else [entry])]
    ctx.check(len(selected) == size, "selection:layout", f"{len(selected)} selected laws for {size} components")
    for i, name in enumerate(selected):
        ctx.check(name in p["candidates"], "selection:layout", f"selected {name}, not a candidate {p['candidates']}")
        verdicts = [verdict[c, i] for c in p["candidates"]]
        summary = dict(zip(p["candidates"], verdicts))
        if "accepted" in verdicts:
            ctx.check(verdict[name, i] != "rejected", "selection:accepted", f"component {i} ({p['components'][i]['gen']} sample): {name} selected by '{p['selection']}' although it is rejected at level {level}: {summary}")
        if p["selection"] == "first":
            expected = None
            for cand, v in zip(p["candidates"], verdicts):
                if v == "accepted":
                    expected = cand
                if v != "rejected":
                    break
            if expected is not None:
                ctx.cls("selection_first_decided" + ("_after_a_rejected_candidate" if p["candidates"].index(expected) > 0 else ""))
                ctx.check(name == expected, "selection:first", f"component {i} ({p['components'][i]['gen']} sample): 'first' selected {name}, the first candidate above the level is {expected}: {summary}")
        elif verdicts.count("accepted") == 1 and verdicts.count("rejected") == len(verdicts) - 1:
            ctx.cls("selection_best_decided")
            ctx.check(verdict[name, i] == "accepted", "selection:best", f"component {i}: 'best' selected {name}: {summary}")
    ctx.nontriv(("selection", p))
    ctx.sample({"oracle": "selection", "case": p})


ORACLES = {"law": case_law, "cross": case_cross, "space": case_space, "parametric": case_parametric, "selection": case_selection}


def run(ctx):
    ctx.drive("law", law_cases(), case_law, quick=1400, thorough=4000)
    ctx.drive("cross", cross_cases(), case_cross, quick=700, thorough=2000)
    ctx.drive("space", space_cases(), case_space, quick=500, thorough=1500)
    ctx.drive("parametric", parametric_cases(), case_parametric, quick=300, thorough=1200)
    ctx.drive("selection", selection_cases(), case_selection, quick=120, thorough=500)
